"""
Source-to-Lean translation of the read-back block of `OptimizationProblem.optimize()` (second tie
for C06, besides the correspondence check).  On every run of the C06 check the method is parsed from
`$RTC_REPO/src/rtctools/optimization/optimization_problem.py`; the statements from the solver call
`results = solver(x0=..., lbx=..., ...)` to `return success` are walked against the CLOSED table
below and `lean/RtcVerif/Gen/Readback.lean` is (re)generated with

  readbackGen            the list of (attribute, source, under-a-condition?) triples, sorted by attribute
  readbackGen_eq_model   = C06.readbackModel                                   (rfl)
  readbackGen_current    the sequence theorem C06_readback_current for the generated table

so moving an assignment under `if success:` (seeded change c06g), reading another result key, or
any statement outside the table breaks a proof obligation / is rejected; the check then goes on to
its failing-input search as usual.

Table "Python construct -> model term" (locals are recognised by ROLE, not by spelling):

  R = S(x0=.., lbx=.., ubx=.., lbg=.., ubg=..)          start of the block; R = results, S = solver
  self.__a = float(R["k"]) | np.array(R["k"]).ravel() | R["k"]     (a, "results[k]", guarded?)
  self.__a = R.get("k")                                   (a, "results.get(k)", guarded?)
  self.__a = S.stats()                                    (a, "solver.stats()", guarded?)
  self.__a = {"k1": n1, ...}  (names only)                (a, "dict(k1=n1,...)" keys sorted, guarded?)
  ok, lvl = self.solver_success(self.__solver_stats, ..)  ("@success", "solver_success(solver_stats)", guarded?)
                                                          (solver_stats must have been assigned from S.stats() before)
  guarded? = the statement sits inside any if / else / try / except / loop of the block
  <local> = <expression without R, S>                     nothing (message strings, log levels, loop indices)
  logger.*(...), self.post()                              nothing
  if / else / try / except                                walked, contents are "guarded"
  return ok                                               must be the last statement, unconditional, ok = the success flag
  anything else (del, augmented assignment to self.*, assignment to R / S / ok, other calls)   REJECTED

Second part (`gen_user_rows`, module `lean/RtcVerif/Gen/UserRows.lean`): the objective assembly, the
point-constraint block and the path-constraint block of `transcribe()` in
`collocated_integrated_optimization_problem.py`, located by ROLE (the names are read from the
`return discrete, lbx, ubx, lbg, ubg, x0, nlp` statement, the `nlp = {...}` dictionary and the calls
`self.objective(..)`, `self.constraints(..)`, `self.path_constraints(..)`, `self.path_objective(0)`),
executed symbolically — the bound code once per kind of bound (scalar / ndarray / Timeseries with 1-D /
2-D values) of either side — and emitted over the NumPy / CasADi-level primitives of `Model/C06.lean`:

  discPathObjectiveGen / discPathConstraintsGen   the two row slices of the mapped output
  fMemberGen, objectiveGen                        `f_member`, `nlp["f"]`          = fMember, objectiveCode   (-> C06_objective)
  pointBoundsGen, pointRowsGen                    broadcasting loop + extends     = pointBound x 2, pointRows (-> C06_point_constraints_once)
  pathLbBlockGen, pathUbBlockGen, pathRowsGen     bound arrays, ravel, g rows     = pathBlock, pathRows       (-> C06_path_constraints_everywhere)
  memberRowsGen                                   order of the two blocks         = memberRows

Table "Python construct -> model term" of this part (M = the member loop variable; anything else REJECTED):

  names / skeleton
    PO = self.path_objective(0) ; PC = self.path_constraints(0)          path objective expression ; `paths 0`
    PCE = ca.vertcat(*[e for (e, _, _) in PC])                           expression vector of R rows
    PO, PCE = ca.substitute([PO, PCE], ..)                               same roles (inlined parameters: C06_transcribe_history_free)
    POF = ca.Function(_, _, [PO], _) ; PCF = ca.Function(_, _, [PCE], _) ; X = X.expand()     the functions of PO / PCE
    CT = self.times() ; N = len(CT)                                      times ; n  (the theorems take n = times.length)
    ND = <..>.mx_out(0).size1()                                          nd
    PO.size1() ; PCE.size1()                                             nj ; R
    F = [] ; G = [] ; LBG = [] ; UBG = []  (each assigned once)          the four accumulators
    nlp = {"x": _, "f": ca.sum1(ca.vertcat(*F)), "g": ca.vertcat(*G)}    sumList of the entries of F ; G in append order
    for M in range(self.ensemble_size): .. F.append(e)                   (List.range E).map (fun m => e)
  mapped output
    D = ca.vec(ACC[a : b, 0 : N - 1]) (else-branch: D = ca.MX())          vecRange a b 0 (n - 1) cols   (no accumulation: cols = [])
    a, b: sums of ND, PO.size1(), PCE.size1(), integer literals
  objective
    V = self.objective(M)                                                objective m (a column vector)
    if V.size1() == 0: V = 0                                             objVal (objective m)
    if PO.size1() > 0 | != 0 | >= 1: ..                                  if 0 < nj | nj ≠ 0 | 1 ≤ nj then .. else ..
    I = POF.call(self.__func_initial_inputs[M], False, True) ; I[0]      (pobj0 m).getD 0 0
    ca.sum1(D)                                                           sumList D
    a + b ; a * b ; V += e ; number literal ; self.ensemble_member_probability(M)      + ; * ; V := V + e ; literal ; prob m
  point constraints
    C = self.constraints(M)                                              points m
    if C is None: raise ; logger blocks                                  nothing
    if C: / if len(C) > 0:                                               the block below on a non-empty list (nothing is added for [])
    GC, LC, UC = [list](zip(*C)) ; LC = list(LC)                         the three columns of the triples
    for i, (g, l, u) in enumerate(zip(GC, LC, UC)):                      per constraint, executed per kind of l and u
    s = g.size1() ; g.shape[0]                                           s
    isinstance(b, np.ndarray)                                            decided by the kind; `not`, `or`, `and` short-circuit
    b.shape[0] == 1 ; b.shape[0] != g.shape[0] ; s > 1                   bv.length = 1 ; bv.length ≠ s ; 1 < s
    LC[i] = np.full(s, b)                                                npFull s b.arr
    raise ..                                                             none
    an entry left as it is                                               npEntries b.arr
    G.extend(GC) ; LBG.extend(LC) ; UBG.extend(UC)                        the Rows fields
  path constraints
    if M > 0: PC = self.path_constraints(M)                              paths (if 0 < m then m else 0)
    if len(PC) > 0: / if PC:                                             if (paths ..).isEmpty then no rows else ..
    [I] = PCF.call(self.__func_initial_inputs[M], False, True) ; G.append(I) ; G.append(D)      pcon0 m ++ D
    A = np.empty((PCE.size1(), N))                                       an R x n array filled block by block
    j = 0 ; for c in PC: .. A[j : j + s, :] = b ; j += s                 blocks one below the other: mapMOpt .. paths
    s = c[0].size1() ; c[1] ; c[2]                                       c.size ; c.lb ; c.ub
    isinstance(b, ca.MX) and not b.is_constant()                         False for the four kinds (symbolic bounds: known finding F6)
    isinstance(b, Timeseries) ; isinstance(b, np.ndarray)                decided by the kind
    self.interpolate(CT, b.times, b.values, f, f).transpose()            npInterpT times f b     (f: -np.inf -> ninf, np.inf -> pinf)
    np.broadcast_to(b, (N, s)) ; x.transpose()                           npBroadcastTo n s b.arr ; npTranspose x
    A[j : j + s, :] = x                                                  npAssignRows s n x
    LBG.extend(A.transpose().ravel())                                    stackRavel n (blocks of A)
"""
import ast
import os

from .common import LEAN_DIR, REPO
from .translate import TranslationError, _find_method


def _u(node, n=90):
    try:
        return ast.unparse(node)[:n]
    except Exception:
        return ast.dump(node)[:n]


def _is_name(node, name=None):
    return isinstance(node, ast.Name) and (name is None or node.id == name)


def _self_attr(node):
    if isinstance(node, ast.Attribute) and _is_name(node.value, "self"):
        return node.attr.lstrip("_")
    return None


def _mentions(node, names):
    return any(isinstance(n, ast.Name) and n.id in names for n in ast.walk(node))


class _Rb:
    def __init__(self, R, S):
        self.R, self.S = R, S
        self.ok = None
        self.rows = {}

    def key(self, node):
        """R["k"] -> k"""
        if isinstance(node, ast.Subscript) and _is_name(node.value, self.R) and isinstance(node.slice, ast.Constant) \
                and isinstance(node.slice.value, str):
            return node.slice.value
        return None

    def source(self, v):
        k = self.key(v)
        if k is None and isinstance(v, ast.Call) and _is_name(v.func, "float") and len(v.args) == 1:
            k = self.key(v.args[0])
        if k is None and isinstance(v, ast.Call) and isinstance(v.func, ast.Attribute) and v.func.attr == "ravel" \
                and not v.args and isinstance(v.func.value, ast.Call) and isinstance(v.func.value.func, ast.Attribute) \
                and _is_name(v.func.value.func.value, "np") and v.func.value.func.attr == "array" \
                and len(v.func.value.args) == 1:
            k = self.key(v.func.value.args[0])
        if k is not None:
            return "results[%s]" % k
        if isinstance(v, ast.Call) and isinstance(v.func, ast.Attribute) and _is_name(v.func.value, self.R) \
                and v.func.attr == "get" and len(v.args) == 1 and isinstance(v.args[0], ast.Constant):
            return "results.get(%s)" % v.args[0].value
        if isinstance(v, ast.Call) and isinstance(v.func, ast.Attribute) and _is_name(v.func.value, self.S) \
                and v.func.attr == "stats" and not v.args:
            return "solver.stats()"
        if isinstance(v, ast.Dict) and all(isinstance(k, ast.Constant) and isinstance(k.value, str) for k in v.keys) \
                and all(_is_name(x) for x in v.values) and not _mentions(v, {self.R, self.S}):
            return "dict(%s)" % ",".join("%s=%s" % (k.value, x.id) for k, x in sorted(zip(v.keys, v.values), key=lambda p: p[0].value))
        raise TranslationError("unsupported right-hand side `%s`" % _u(v))

    def record(self, attr, src, guarded):
        if attr in self.rows:
            raise TranslationError("`%s` is assigned more than once in the read-back block" % attr)
        self.rows[attr] = (src, guarded)

    def walk(self, stmts, guarded):
        for st in stmts:
            self.stmt(st, guarded)

    def stmt(self, st, guarded):
        if isinstance(st, ast.Expr):
            v = st.value
            if isinstance(v, ast.Constant):
                return
            if isinstance(v, ast.Call) and isinstance(v.func, ast.Attribute):
                if _is_name(v.func.value, "logger"):
                    return
                if _is_name(v.func.value, "self") and v.func.attr == "post" and not v.args:
                    return
            raise TranslationError("unsupported statement `%s`" % _u(st))
        if isinstance(st, ast.Assign) and len(st.targets) == 1:
            t, v = st.targets[0], st.value
            a = _self_attr(t)
            if a is not None:
                return self.record(a, self.source(v), guarded)
            if isinstance(t, ast.Tuple) and len(t.elts) == 2 and all(_is_name(e) for e in t.elts) \
                    and isinstance(v, ast.Call) and isinstance(v.func, ast.Attribute) and _is_name(v.func.value, "self") \
                    and v.func.attr == "solver_success" and v.args and _self_attr(v.args[0]) == "solver_stats":
                if self.rows.get("solver_stats", (None,))[0] != "solver.stats()":
                    raise TranslationError("solver_success() is called before solver_stats is read from the solver")
                if self.ok is not None:
                    raise TranslationError("the success flag is assigned twice")
                self.ok = t.elts[0].id
                return self.record("@success", "solver_success(solver_stats)", guarded)
            if _is_name(t):
                if t.id in (self.R, self.S) or t.id == self.ok:
                    raise TranslationError("`%s` is re-assigned in the read-back block" % t.id)
                if _mentions(v, {self.R, self.S}):
                    raise TranslationError("local `%s` is computed from the solver results: `%s`" % (t.id, _u(v)))
                return
            raise TranslationError("unsupported assignment `%s`" % _u(st))
        if isinstance(st, ast.If):
            self.walk(st.body, True)
            self.walk(st.orelse, True)
            return
        if isinstance(st, ast.Try):
            self.walk(st.body, True)
            for h in st.handlers:
                self.walk(h.body, True)
            self.walk(st.orelse, True)
            self.walk(st.finalbody, True)
            return
        raise TranslationError("unsupported statement `%s`" % _u(st))


def translate_readback():
    path = os.path.join(REPO, "src", "rtctools", "optimization", "optimization_problem.py")
    fn = _find_method(ast.parse(open(path).read()), "OptimizationProblem", "optimize")
    start = None
    for n, st in enumerate(fn.body):
        if isinstance(st, ast.Assign) and len(st.targets) == 1 and _is_name(st.targets[0]) and isinstance(st.value, ast.Call) \
                and _is_name(st.value.func) and not st.value.args \
                and sorted(k.arg for k in st.value.keywords) == ["lbg", "lbx", "ubg", "ubx", "x0"]:
            start = n
            R, S = st.targets[0].id, st.value.func.id
    if start is None:
        raise TranslationError("solver call `results = solver(x0=, lbx=, ubx=, lbg=, ubg=)` not found at the top level of optimize()")
    block = fn.body[start + 1:]
    if not block or not isinstance(block[-1], ast.Return):
        raise TranslationError("optimize() does not end with `return success`")
    rb = _Rb(R, S)
    rb.walk(block[:-1], False)
    if rb.ok is None or not _is_name(block[-1].value, rb.ok):
        raise TranslationError("the returned value `%s` is not the flag obtained from solver_success()" % _u(block[-1].value))
    for node in block[:-1]:
        for sub in ast.walk(node):
            if isinstance(sub, ast.Return):
                raise TranslationError("early `return` inside the read-back block")
    return sorted((a, s, g) for a, (s, g) in rb.rows.items())


GEN_TEMPLATE = """import RtcVerif.Props.C06
/-!
GENERATED on every run of the C06 check by harness/translate_c06.py from the read-back block of
`OptimizationProblem.optimize()` in /repo/src/rtctools/optimization/optimization_problem.py
(solver call .. `return success`).  Do not edit.
-/
namespace RtcVerif.Gen
open RtcVerif.C06

/-- (attribute, source, assigned under a condition?) for every assignment of the block -/
def readbackGen : List RbAssign :=
  [%s]

theorem readbackGen_eq_model : readbackGen = readbackModel := rfl

/-- the sequence theorem for the table read from the source: after any calls, successful or not,
    `solver_output` is the last returned point and `objective_value` the objective there -/
theorem readbackGen_current {X : Type} (f : X → Rat) (calls : List (X × Bool)) (st : RbState X)
    (last : X × Bool) :
    (rbRun readbackGen f st (calls ++ [last])).output = some last.1 ∧
    (rbRun readbackGen f st (calls ++ [last])).objective = some (f last.1) := by
  rw [readbackGen_eq_model]
  exact C06_readback_current f calls st last

end RtcVerif.Gen
"""

THEOREMS = ["readbackGen_eq_model", "readbackGen_current"]


def gen_readback(c):
    """(re)generate lean/RtcVerif/Gen/Readback.lean; returns the extra obligations for c.prove"""
    gdir = os.path.join(LEAN_DIR, "RtcVerif", "Gen")
    os.makedirs(gdir, exist_ok=True)
    path = os.path.join(gdir, "Readback.lean")
    try:
        rows = translate_readback()
    except TranslationError as e:
        c.broken.append(("translator: OptimizationProblem.optimize (read-back block)", str(e)))
        return []
    except (OSError, SyntaxError) as e:
        c.broken.append(("translator: OptimizationProblem.optimize (read-back block)", "cannot read the source: %s" % e))
        return []
    body = ",\n   ".join('⟨"%s", "%s", %s⟩' % (a, s, "true" if g else "false") for a, s, g in rows)
    text = GEN_TEMPLATE % body
    old = open(path).read() if os.path.exists(path) else None
    if old != text:
        tmp = path + ".tmp%d" % os.getpid()
        with open(tmp, "w") as f:
            f.write(text)
        os.replace(tmp, path)
    return [("RtcVerif.Gen.Readback", "RtcVerif.Gen", THEOREMS)]


# =================================================================================================
# second part: objective assembly, point-constraint block, path-constraint block of transcribe()

OPT = os.path.join("src", "rtctools", "optimization", "collocated_integrated_optimization_problem.py")
KINDS = ("scalar", "vec", "ts1", "ts2")
PAT = {"scalar": ".scalar %sv", "vec": ".vec %sv", "ts1": ".ts1 %st %sv", "ts2": ".ts2 %st %sv"}
USER_WHAT = "translator: transcribe (objective / point-constraint / path-constraint blocks)"


def _call(node, func=None, nargs=None):
    """node is a call `func(...)` (func given as dotted text)"""
    if not isinstance(node, ast.Call):
        return False
    if func is not None and _u(node.func, 200) != func:
        return False
    return nargs is None or len(node.args) == nargs


def _stores(node, names):
    return any(isinstance(n, ast.Name) and isinstance(n.ctx, ast.Store) and n.id in names for n in ast.walk(node))


def _is_logger(st):
    """`logger.x(..)` or an `if logger.getEffectiveLevel() == logging.DEBUG:` block of logger calls / loops over them"""
    if isinstance(st, ast.Expr) and isinstance(st.value, ast.Call) and isinstance(st.value.func, ast.Attribute) \
            and _is_name(st.value.func.value, "logger"):
        return True
    if isinstance(st, ast.Expr) and isinstance(st.value, ast.Constant):
        return True
    if isinstance(st, ast.If) and _u(st.test, 200).startswith("logger.getEffectiveLevel()") and not st.orelse:
        return all(_is_logger(x) or (isinstance(x, ast.For) and all(_is_logger(y) for y in x.body)) for x in st.body)
    return False


class _Roles:
    """names of transcribe() by role"""

    def __init__(self, fn):
        self.fn = fn
        top = fn.body
        ret = top[-1]
        if not (isinstance(ret, ast.Return) and isinstance(ret.value, ast.Tuple) and len(ret.value.elts) == 7
                and all(_is_name(e) for e in ret.value.elts)):
            raise TranslationError("transcribe() does not end with `return discrete, lbx, ubx, lbg, ubg, x0, nlp`")
        self.LBG, self.UBG, nlp = ret.value.elts[3].id, ret.value.elts[4].id, ret.value.elts[6].id
        self.F = self.G = None
        for st in top:
            if isinstance(st, ast.Assign) and len(st.targets) == 1 and _is_name(st.targets[0], nlp):
                d = st.value
                if not (isinstance(d, ast.Dict) and all(isinstance(k, ast.Constant) for k in d.keys)
                        and sorted(k.value for k in d.keys) == ["f", "g", "x"]):
                    raise TranslationError("nlp is not a dictionary with the keys x, f, g: `%s`" % _u(d))
                kv = {k.value: v for k, v in zip(d.keys, d.values)}
                fv, gv = kv["f"], kv["g"]
                if not (_call(fv, "ca.sum1", 1) and _call(fv.args[0], "ca.vertcat", 1) and isinstance(fv.args[0].args[0], ast.Starred)
                        and _is_name(fv.args[0].args[0].value)):
                    raise TranslationError("nlp['f'] is not `ca.sum1(ca.vertcat(*f))`: `%s`" % _u(fv))
                if not (_call(gv, "ca.vertcat", 1) and isinstance(gv.args[0], ast.Starred) and _is_name(gv.args[0].value)):
                    raise TranslationError("nlp['g'] is not `ca.vertcat(*g)`: `%s`" % _u(gv))
                self.F, self.G = fv.args[0].args[0].value.id, gv.args[0].value.id
        if self.F is None:
            raise TranslationError("assignment of the nlp dictionary not found at the top level of transcribe()")
        if len({self.F, self.G, self.LBG, self.UBG}) != 4:
            raise TranslationError("f, g, lbg, ubg are not four different lists")
        for acc in (self.F, self.G, self.LBG, self.UBG):
            asg = [n for n in ast.walk(fn) if isinstance(n, (ast.Assign, ast.AugAssign, ast.AnnAssign)) and _stores(n, {acc})]
            if len(asg) != 1 or not (isinstance(asg[0], ast.Assign) and asg[0] in top and isinstance(asg[0].value, ast.List)
                                     and not asg[0].value.elts and len(asg[0].targets) == 1):
                raise TranslationError("`%s` is not initialised exactly once as `[]` at the top level" % acc)
        self.PO = self._single(top, "self.path_objective", "path objective")
        self.PC = self._single(top, "self.path_constraints", "path constraints")
        self.CT = self.N = self.PCE = self.POF = self.PCF = self.ND = None
        for st in ast.walk(fn):
            if not (isinstance(st, ast.Assign) and len(st.targets) == 1):
                continue
            t, v = st.targets[0], st.value
            if _is_name(t) and _call(v, "self.times", 0) and not v.keywords and st in top:
                self.CT = t.id
            if _is_name(t) and _u(v, 200).endswith(".mx_out(0).size1()"):
                self.ND = t.id
        for st in top:
            if not (isinstance(st, ast.Assign) and len(st.targets) == 1 and _is_name(st.targets[0])):
                continue
            t, v = st.targets[0].id, st.value
            if self.CT and _call(v, "len", 1) and _is_name(v.args[0], self.CT):
                self.N = t
            if _call(v, "ca.vertcat", 1) and isinstance(v.args[0], ast.Starred) and isinstance(v.args[0].value, ast.ListComp):
                lc = v.args[0].value
                g = lc.generators
                if len(g) == 1 and _is_name(g[0].iter, self.PC) and not g[0].ifs and isinstance(g[0].target, ast.Tuple) \
                        and len(g[0].target.elts) == 3 and _is_name(g[0].target.elts[0]) and _is_name(lc.elt, g[0].target.elts[0].id):
                    self.PCE = t
            if _call(v, "ca.Function") and len(v.args) >= 3 and isinstance(v.args[2], ast.List) and len(v.args[2].elts) == 1 \
                    and _is_name(v.args[2].elts[0]):
                if v.args[2].elts[0].id == self.PO:
                    self.POF = t
                if self.PCE and v.args[2].elts[0].id == self.PCE:
                    self.PCF = t
        for what, val in (("collocation times `= self.times()`", self.CT), ("`n = len(collocation times)`", self.N),
                          ("path-constraint expression vector", self.PCE), ("path objective function", self.POF),
                          ("path constraints function", self.PCF), ("dae residual size `.mx_out(0).size1()`", self.ND)):
            if val is None:
                raise TranslationError("not found: " + what)
        # other assignments to these names: only the sanctioned ones
        for n in ast.walk(fn):
            if isinstance(n, (ast.Assign, ast.AugAssign)) and _stores(n, {self.PO, self.PCE, self.POF, self.PCF, self.N, self.CT}):
                txt = _u(n, 400)
                ok = isinstance(n, ast.Assign) and len(n.targets) == 1
                t = n.targets[0] if ok else None
                if ok and _is_name(t):
                    v = n.value
                    ok = (t.id == self.PO and _call(v, "self.path_objective")) or (t.id == self.PCE and _call(v, "ca.vertcat")) \
                        or (t.id in (self.POF, self.PCF) and (_call(v, "ca.Function") or _u(v) == t.id + ".expand()")) \
                        or (t.id == self.N and _call(v, "len", 1)) or (t.id == self.CT and _call(v, "self.times", 0))
                elif ok and isinstance(t, ast.Tuple):
                    v = n.value
                    ok = [_u(e) for e in t.elts] == [self.PO, self.PCE] and _call(v, "ca.substitute") and v.args \
                        and isinstance(v.args[0], ast.List) and [_u(e) for e in v.args[0].elts] == [self.PO, self.PCE]
                if not ok:
                    raise TranslationError("unexpected assignment `%s`" % txt)

    def _single(self, top, func, what):
        hits = [st for st in top if isinstance(st, ast.Assign) and len(st.targets) == 1 and _is_name(st.targets[0])
                and _call(st.value, func, 1)]
        if len(hits) != 1 or not (isinstance(hits[0].value.args[0], ast.Constant) and hits[0].value.args[0].value == 0):
            raise TranslationError("`<name> = %s(0)` not found exactly once at the top level (%s)" % (func, what))
        return hits[0].targets[0].id

    # -- sizes ----------------------------------------------------------------------------------
    def nat(self, node, extra=None):
        """row / column index expressions -> Lean Nat term"""
        if isinstance(node, ast.Constant) and isinstance(node.value, int) and not isinstance(node.value, bool) and node.value >= 0:
            return "%d" % node.value
        if _is_name(node):
            if extra and node.id in extra:
                return extra[node.id]
            if node.id == self.ND:
                return "nd"
            if node.id == self.N:
                return "n"
        if _call(node, None, 0) and isinstance(node.func, ast.Attribute) and node.func.attr == "size1" and _is_name(node.func.value):
            if node.func.value.id == self.PO:
                return "nj"
            if node.func.value.id == self.PCE:
                return "R"
        if isinstance(node, ast.BinOp) and isinstance(node.op, (ast.Add, ast.Sub)):
            return "(%s %s %s)" % (self.nat(node.left, extra), "+" if isinstance(node.op, ast.Add) else "-", self.nat(node.right, extra))
        raise TranslationError("size / index expression not in the table: `%s`" % _u(node))

    def member(self, node, M):
        if _is_name(node, M):
            return "m"
        if isinstance(node, ast.Constant) and isinstance(node.value, int) and not isinstance(node.value, bool) and node.value >= 0:
            return "%d" % node.value
        raise TranslationError("ensemble-member index not in the table: `%s`" % _u(node))

    def init_call(self, node, M):
        """F.call(self.__func_initial_inputs[k], False, True) -> (F, member term)"""
        if isinstance(node, ast.Call) and isinstance(node.func, ast.Attribute) and node.func.attr == "call" and _is_name(node.func.value) \
                and len(node.args) == 3 and isinstance(node.args[0], ast.Subscript) \
                and _u(node.args[0].value).endswith("func_initial_inputs") \
                and [_u(a) for a in node.args[1:]] == ["False", "True"]:
            return node.func.value.id, self.member(node.args[0].slice, M)
        return None


def _member_loop(ro):
    loops = [st for st in ro.fn.body if isinstance(st, ast.For) and _is_name(st.target) and _u(st.iter, 200) == "range(self.ensemble_size)"
             and any(_call(n, ro.F + ".append", 1) for n in ast.walk(st))]
    if len(loops) != 1:
        raise TranslationError("the member loop with `%s.append(..)` was not found exactly once" % ro.F)
    if loops[0].orelse:
        raise TranslationError("member loop has an else clause")
    for n in ast.walk(ro.fn):
        if _call(n, ro.F + ".append") or _call(n, ro.F + ".extend") or _call(n, ro.F + ".insert"):
            if not any(n is x for x in ast.walk(loops[0])):
                raise TranslationError("`%s` is also filled outside the member loop" % ro.F)
    return loops[0]


# -- mapped-output slices ----------------------------------------------------------------------

def _slices(ro, loop):
    """{name: (lo, hi, c0, c1, ACC)} for every `D = ca.vec(ACC[lo:hi, c0:c1])` of the loop"""
    out = {}
    for st in ast.walk(loop):
        if isinstance(st, ast.If):
            for a in st.body:
                if isinstance(a, ast.Assign) and len(a.targets) == 1 and _is_name(a.targets[0]) and _call(a.value, "ca.vec", 1) \
                        and isinstance(a.value.args[0], ast.Subscript):
                    name, sub = a.targets[0].id, a.value.args[0]
                    if not (_is_name(sub.value) and isinstance(sub.slice, ast.Tuple) and len(sub.slice.elts) == 2
                            and all(isinstance(e, ast.Slice) and e.step is None and e.upper is not None for e in sub.slice.elts)):
                        raise TranslationError("slice of the mapped output not in the table: `%s`" % _u(a))
                    r, c = sub.slice.elts
                    other = [b for b in st.orelse if isinstance(b, ast.Assign) and len(b.targets) == 1 and _is_name(b.targets[0], name)]
                    if len(other) != 1 or _u(other[0].value) != "ca.MX()":
                        raise TranslationError("`%s` is not `ca.MX()` in the branch without mapped output" % name)
                    if name in out:
                        raise TranslationError("`%s` is sliced twice" % name)
                    c0 = ro.nat(c.lower) if c.lower is not None else "0"
                    if c0 != "0":
                        raise TranslationError("column range of `%s` does not start at 0: `%s`" % (name, _u(a, 300)))
                    out[name] = {"lo": ro.nat(r.lower) if r.lower is not None else "0", "hi": ro.nat(r.upper),
                                 "c1": ro.nat(c.upper), "acc": sub.value.id, "lean": "slice%dGen" % len(out), "src": name}
    for name in out:
        n_asg = sum(1 for n in ast.walk(ro.fn) if isinstance(n, (ast.Assign, ast.AugAssign)) and _stores(n, {name}))
        if n_asg != 2:
            raise TranslationError("`%s` is assigned %d times (expected: the slice and `ca.MX()`)" % (name, n_asg))
    return out


# -- objective ------------------------------------------------------------------------------------

class _Obj:
    def __init__(self, ro, M, slices):
        self.ro, self.M, self.slices = ro, M, slices
        self.env = {}          # name -> ("vec"|"rat"|"init", term)
        self.used = []         # slices summed into the objective

    def rat(self, node):
        ro = self.ro
        if isinstance(node, ast.Constant) and isinstance(node.value, (int, float)) and not isinstance(node.value, bool):
            if float(node.value) != int(node.value) or node.value < 0:
                raise TranslationError("number literal not in the table: `%s`" % _u(node))
            return "(%d : Rat)" % int(node.value)
        if _is_name(node) and node.id in self.env:
            k, t = self.env[node.id]
            if k == "rat":
                return t
            raise TranslationError("`%s` is used as a number but is %s" % (node.id, {"vec": "the objective vector before the empty-vector guard", "init": "a list of function outputs"}[k]))
        if isinstance(node, ast.Subscript) and _is_name(node.value) and self.env.get(node.value.id, ("", ""))[0] == "init" \
                and isinstance(node.slice, ast.Constant) and isinstance(node.slice.value, int) and node.slice.value >= 0:
            return "(%s).getD %d 0" % (self.env[node.value.id][1], node.slice.value)
        if _call(node, "ca.sum1", 1) and _is_name(node.args[0]) and node.args[0].id in self.slices:
            self.used.append(node.args[0].id)
            return "sumList (%s nd nj R n (cols m))" % self.slices[node.args[0].id]["lean"]
        if _call(node, "self.ensemble_member_probability", 1):
            return "prob %s" % ro.member(node.args[0], self.M)
        if isinstance(node, ast.BinOp) and isinstance(node.op, (ast.Add, ast.Mult)):
            return "(%s %s %s)" % (self.rat(node.left), "+" if isinstance(node.op, ast.Add) else "*", self.rat(node.right))
        raise TranslationError("objective term not in the table: `%s`" % _u(node))

    def cond(self, node):
        """PO.size1() > 0 and friends"""
        if isinstance(node, ast.Compare) and len(node.ops) == 1:
            l, op, r = node.left, node.ops[0], node.comparators[0]
            try:
                lt, rt = self.ro.nat(l), self.ro.nat(r)
            except TranslationError:
                return None
            if lt == "nj" and rt == "0" and isinstance(op, ast.Gt):
                return "0 < nj"
            if lt == "0" and rt == "nj" and isinstance(op, ast.Lt):
                return "0 < nj"
            if lt == "nj" and rt == "0" and isinstance(op, ast.NotEq):
                return "nj ≠ 0"
            if lt == "nj" and rt == "1" and isinstance(op, ast.GtE):
                return "1 ≤ nj"
        return None

    def block(self, stmts):
        for st in stmts:
            self.stmt(st)

    def stmt(self, st):
        ro = self.ro
        if _is_logger(st):
            return
        if isinstance(st, ast.Assign) and len(st.targets) == 1 and _is_name(st.targets[0]):
            t, v = st.targets[0].id, st.value
            if _call(v, "self.objective", 1):
                self.env[t] = ("vec", "objective %s" % ro.member(v.args[0], self.M))
                return
            ic = ro.init_call(v, self.M)
            if ic is not None:
                if ic[0] != ro.POF:
                    raise TranslationError("the t0 term of the objective is not computed by the path objective function: `%s`" % _u(v))
                self.env[t] = ("init", "pobj0 %s" % ic[1])
                return
            self.env[t] = ("rat", self.rat(v))
            return
        if isinstance(st, ast.AugAssign) and _is_name(st.target) and isinstance(st.op, (ast.Add, ast.Mult)):
            cur = self.rat(ast.Name(id=st.target.id, ctx=ast.Load()))
            self.env[st.target.id] = ("rat", "(%s %s %s)" % (cur, "+" if isinstance(st.op, ast.Add) else "*", self.rat(st.value)))
            return
        if isinstance(st, ast.If):
            # the empty-vector guard
            t = st.test
            if isinstance(t, ast.Compare) and len(t.ops) == 1 and isinstance(t.ops[0], ast.Eq) and _call(t.left, None, 0) \
                    and isinstance(t.left.func, ast.Attribute) and t.left.func.attr == "size1" and _is_name(t.left.func.value) \
                    and self.env.get(t.left.func.value.id, ("", ""))[0] == "vec" and _u(t.comparators[0]) == "0":
                name = t.left.func.value.id
                if not (len(st.body) == 1 and not st.orelse and isinstance(st.body[0], ast.Assign) and _u(st.body[0].targets[0]) == name
                        and _u(st.body[0].value) in ("0", "0.0")):
                    raise TranslationError("empty-objective guard is not `%s = 0`: `%s`" % (name, _u(st, 200)))
                self.env[name] = ("rat", "objVal (%s)" % self.env[name][1])
                return
            c = self.cond(t)
            if c is None:
                raise TranslationError("condition of the objective block not in the table: `%s`" % _u(t))
            before = dict(self.env)
            self.block(st.body)
            then = self.env
            self.env = dict(before)
            self.block(st.orelse)
            els = self.env
            merged = {}
            for k in set(then) | set(els):
                a, b = then.get(k), els.get(k)
                if a == b:
                    merged[k] = a
                elif a is not None and b is not None and a[0] == b[0] == "rat":
                    merged[k] = ("rat", "(if %s then %s else %s)" % (c, a[1], b[1]))
                # names defined in one branch only are local to it
            self.env = merged
            return
        raise TranslationError("statement of the objective block not in the table: `%s`" % _u(st))


def _translate_objective(ro, loop, slices):
    M = loop.target.id
    body = loop.body
    start = [i for i, st in enumerate(body) if isinstance(st, ast.Assign) and _call(st.value, "self.objective")]
    end = [i for i, st in enumerate(body) if isinstance(st, ast.Expr) and _call(st.value, ro.F + ".append", 1)]
    if len(start) != 1 or len(end) != 1 or end[0] < start[0]:
        raise TranslationError("`.. = self.objective(m)` .. `%s.append(..)` not found once each, in this order, in the member loop" % ro.F)
    n_app = sum(1 for n in ast.walk(loop) if _call(n, ro.F + ".append"))
    if n_app != 1:
        raise TranslationError("`%s.append` occurs %d times" % (ro.F, n_app))
    ob = _Obj(ro, M, slices)
    ob.block(body[start[0]:end[0]])
    elem = ob.rat(body[end[0]].value.args[0])
    used = sorted(set(ob.used))
    if len(used) > 1:
        raise TranslationError("more than one slice of the mapped output is summed into the objective: %s" % used)
    return elem, used, end[0]


# -- kinds of bounds ------------------------------------------------------------------------------

class _Raise(Exception):
    pass


class _Bounds:
    """symbolic execution of bound code for one combination of kinds.
    values: ("in", side)            the bound as handed over (side = "lb" | "ub")
            ("arr", term, sides)    Option NArr term, set of input sides it was computed from
            ("list", term, sides)   Option (List XVal) term (np.full)
            ("nat", term)"""

    def __init__(self, ro, kinds, names, nat_env):
        self.ro, self.kinds, self.names, self.nat_env = ro, kinds, names, nat_env
        self.env = {}

    def side_of(self, node):
        if _is_name(node) and node.id in self.env and self.env[node.id][0] == "in":
            return self.env[node.id][1]
        return None

    def nat(self, node):
        if _is_name(node) and node.id in self.env and self.env[node.id][0] == "nat":
            return self.env[node.id][1]
        for pat, term in self.nat_env:
            if _u(node, 200) == pat:
                return term
        return self.ro.nat(node, {k: v[1] for k, v in self.env.items() if v[0] == "nat"})

    def inpat(self, side):
        return "(%s)" % (PAT[self.kinds[side]].replace("%s", side))

    def arr(self, node):
        """-> ("arr", term, sides)"""
        side = self.side_of(node)
        if side is not None:
            if self.kinds[side] in ("scalar", "vec"):
                return ("arr", "(UBound%s).arr" % PAT[self.kinds[side]].replace("%s", side), {side})
            raise TranslationError("a Timeseries bound is used as an array: `%s`" % _u(node))
        if _is_name(node) and node.id in self.env and self.env[node.id][0] == "arr":
            return self.env[node.id]
        if isinstance(node, ast.Call) and isinstance(node.func, ast.Attribute) and node.func.attr == "transpose" and not node.args:
            inner = node.func.value
            # self.interpolate(CT, b.times, b.values, f, f).transpose()
            if _call(inner, "self.interpolate", 5) and not inner.keywords:
                a = inner.args
                side = self.side_of(a[1].value) if isinstance(a[1], ast.Attribute) and a[1].attr == "times" else None
                side2 = self.side_of(a[2].value) if isinstance(a[2], ast.Attribute) and a[2].attr == "values" else None
                if not (_is_name(a[0], self.ro.CT) and side is not None and side == side2):
                    raise TranslationError("interpolation of a Timeseries bound not in the table: `%s`" % _u(inner, 200))
                if self.kinds[side] not in ("ts1", "ts2"):
                    raise TranslationError("`.times` of a bound that is no Timeseries: `%s`" % _u(inner, 200))
                fills = {"-np.inf": "XVal.ninf", "np.inf": "XVal.pinf"}
                f1, f2 = _u(a[3]), _u(a[4])
                if f1 not in fills or f1 != f2:
                    raise TranslationError("fill values of the bound interpolation not in the table: `%s`, `%s`" % (f1, f2))
                return ("arr", "npInterpT times %s %s" % (fills[f1], self.inpat(side)), {side})
            x = self.arr(inner)
            return ("arr", "npTranspose (%s)" % x[1], x[2])
        if _call(node, "np.broadcast_to", 2) and isinstance(node.args[1], ast.Tuple) and len(node.args[1].elts) == 2:
            x = self.arr(node.args[0])
            r, c = (self.nat(e) for e in node.args[1].elts)
            return ("arr", "npBroadcastTo %s %s (%s)" % (r, c, x[1]), x[2])
        if _call(node, "self.interpolate"):
            raise TranslationError("interpolated Timeseries bound is not transposed: `%s`" % _u(node, 200))
        raise TranslationError("bound expression not in the table: `%s`" % _u(node, 200))

    def cond(self, node):
        """-> True | False | Lean Prop text"""
        if isinstance(node, ast.UnaryOp) and isinstance(node.op, ast.Not):
            c = self.cond(node.operand)
            return (not c) if isinstance(c, bool) else "¬ (%s)" % c
        if isinstance(node, ast.BoolOp):
            is_or = isinstance(node.op, ast.Or)
            dyn = []
            for v in node.values:
                c = self.cond(v)
                if isinstance(c, bool):
                    if c == is_or:
                        # short circuit — only sound when no dynamic operand precedes
                        if dyn:
                            return "(%s)" % ((" ∨ " if is_or else " ∧ ").join(dyn + ["True" if c else "False"]))
                        return c
                    continue
                dyn.append(c)
            if not dyn:
                return not is_or
            return dyn[0] if len(dyn) == 1 else "(%s)" % (" ∨ " if is_or else " ∧ ").join(dyn)
        if _call(node, "isinstance", 2):
            side = self.side_of(node.args[0])
            if side is None:
                raise TranslationError("isinstance of something that is not a bound as handed over: `%s`" % _u(node))
            k = self.kinds[side]
            cls = _u(node.args[1])
            if cls == "np.ndarray":
                return k == "vec"
            if cls == "Timeseries":
                return k in ("ts1", "ts2")
            if cls in ("ca.MX", "MX"):
                return False
            raise TranslationError("isinstance class not in the table: `%s`" % cls)
        if isinstance(node, ast.Call) and isinstance(node.func, ast.Attribute) and node.func.attr == "is_constant":
            raise TranslationError("`is_constant()` reached for a non-symbolic bound: `%s`" % _u(node))
        if isinstance(node, ast.Compare) and len(node.ops) == 1:
            l, op, r = node.left, node.ops[0], node.comparators[0]
            ops = {ast.Eq: "=", ast.NotEq: "≠", ast.Gt: ">", ast.Lt: "<", ast.GtE: "≥", ast.LtE: "≤"}
            if type(op) not in ops:
                raise TranslationError("comparison not in the table: `%s`" % _u(node))
            return "%s %s %s" % (self.size(l), ops[type(op)], self.size(r))
        raise TranslationError("condition not in the table: `%s`" % _u(node))

    def size(self, node):
        # b.shape[0] of an ndarray bound
        if isinstance(node, ast.Subscript) and isinstance(node.value, ast.Attribute) and node.value.attr == "shape" \
                and isinstance(node.slice, ast.Constant) and node.slice.value == 0:
            side = self.side_of(node.value.value)
            if side is not None:
                if self.kinds[side] != "vec":
                    raise TranslationError("`.shape` of a bound that is no ndarray: `%s`" % _u(node))
                return "%sv.length" % side
        return self.nat(node)


def _tree(bx, stmts, on_stmt):
    """path enumeration: -> ("leaf", env) | ("raise",) | ("if", cond, then, else)"""
    if not stmts:
        return ("leaf", dict(bx.env))
    st, rest = stmts[0], stmts[1:]
    if _is_logger(st):
        return _tree(bx, rest, on_stmt)
    if isinstance(st, ast.Raise):
        return ("raise",)
    if isinstance(st, ast.If):
        c = bx.cond(st.test)
        if isinstance(c, bool):
            return _tree(bx, (st.body if c else st.orelse) + rest, on_stmt)
        saved = dict(bx.env)
        a = _tree(bx, st.body + rest, on_stmt)
        bx.env = dict(saved)
        b = _tree(bx, st.orelse + rest, on_stmt)
        bx.env = saved
        return ("if", c, a, b)
    on_stmt(bx, st)
    return _tree(bx, rest, on_stmt)


def _render(tree, leaf, ind):
    if tree[0] == "raise":
        return "none"
    if tree[0] == "leaf":
        return leaf(tree[1])
    pad = " " * ind
    return "(if %s then\n%s  %s\n%selse\n%s  %s)" % (tree[1], pad, _render(tree[2], leaf, ind + 2), pad, pad, _render(tree[3], leaf, ind + 2))


# -- point constraints ----------------------------------------------------------------------------

def _translate_points(ro, loop):
    M = loop.target.id
    body = loop.body
    cs = [i for i, st in enumerate(body) if isinstance(st, ast.Assign) and len(st.targets) == 1 and _is_name(st.targets[0])
          and _call(st.value, "self.constraints", 1)]
    if len(cs) != 1:
        raise TranslationError("`.. = self.constraints(m)` not found exactly once in the member loop")
    C = body[cs[0]].targets[0].id
    member = ro.member(body[cs[0]].value.args[0], M)
    blk = None
    for i in range(cs[0] + 1, len(body)):
        st = body[i]
        if _is_logger(st):
            continue
        if isinstance(st, ast.If) and _u(st.test) == "%s is None" % C and all(isinstance(x, ast.Raise) for x in st.body) and not st.orelse:
            continue
        if isinstance(st, ast.If) and _u(st.test) in (C, "len(%s) > 0" % C, "len(%s) != 0" % C) and not st.orelse:
            blk, pos = st.body, i
            break
        raise TranslationError("statement after `self.constraints(m)` not in the table: `%s`" % _u(st))
    if blk is None:
        raise TranslationError("`if constraints:` block not found")
    cols = None          # (GC, LC, UC)
    inner = None
    rows = {}
    for st in blk:
        if _is_logger(st):
            continue
        if isinstance(st, ast.Assign) and len(st.targets) == 1 and isinstance(st.targets[0], ast.Tuple) and cols is None:
            v = st.value
            if _call(v, "list", 1):
                v = v.args[0]
            if not (_call(v, "zip", 1) and isinstance(v.args[0], ast.Starred) and _is_name(v.args[0].value, C)
                    and len(st.targets[0].elts) == 3 and all(_is_name(e) for e in st.targets[0].elts)):
                raise TranslationError("columns of the constraint triples not in the table: `%s`" % _u(st))
            cols = [e.id for e in st.targets[0].elts]
            if len(set(cols)) != 3:
                raise TranslationError("columns of the constraint triples are not three names")
            continue
        if cols and isinstance(st, ast.Assign) and len(st.targets) == 1 and _is_name(st.targets[0]) and st.targets[0].id in cols[1:] \
                and _call(st.value, "list", 1) and _is_name(st.value.args[0], st.targets[0].id):
            continue
        if cols and isinstance(st, ast.For) and inner is None and not rows:
            t, it = st.target, st.iter
            if not (_call(it, "enumerate", 1) and _call(it.args[0], "zip", 3) and [_u(a) for a in it.args[0].args] == cols
                    and isinstance(t, ast.Tuple) and len(t.elts) == 2 and _is_name(t.elts[0]) and isinstance(t.elts[1], ast.Tuple)
                    and len(t.elts[1].elts) == 3 and all(_is_name(e) for e in t.elts[1].elts)) or st.orelse:
                raise TranslationError("broadcasting loop header not in the table: `%s`" % _u(st, 200))
            inner = (t.elts[0].id, [e.id for e in t.elts[1].elts], st.body)
            continue
        if cols and isinstance(st, ast.Expr) and isinstance(st.value, ast.Call) and isinstance(st.value.func, ast.Attribute) \
                and st.value.func.attr == "extend" and _is_name(st.value.func.value) and len(st.value.args) == 1 \
                and _is_name(st.value.args[0]) and st.value.args[0].id in cols and st.value.func.value.id in (ro.G, ro.LBG, ro.UBG):
            acc = st.value.func.value.id
            if acc in rows:
                raise TranslationError("`%s` is extended twice in the point-constraint block" % acc)
            rows[acc] = cols.index(st.value.args[0].id)
            continue
        raise TranslationError("statement of the point-constraint block not in the table: `%s`" % _u(st, 200))
    if cols is None or len(rows) != 3:
        raise TranslationError("point-constraint block: columns / the three `extend` calls not found")
    arms = []
    if inner is None:
        inner = ("i", ["g_i", "lb_i", "ub_i"], [])
    idx, (gi, li, ui), ibody = inner

    def on_stmt(bx, st):
        if isinstance(st, ast.Assign) and len(st.targets) == 1:
            t, v = st.targets[0], st.value
            if _is_name(t) and _u(v) in (gi + ".size1()", gi + ".shape[0]"):
                bx.env[t.id] = ("nat", "s")
                return
            if isinstance(t, ast.Subscript) and _is_name(t.value) and t.value.id in cols[1:] and _is_name(t.slice, idx):
                side = "lb" if t.value.id == cols[1] else "ub"
                if _call(v, "np.full", 2) and bx.nat(v.args[0]) == "s":
                    x = bx.arr(v.args[1])
                    bx.env["@" + side] = ("list", "npFull s (%s)" % x[1], x[2])
                    return
        raise TranslationError("statement of the broadcasting loop not in the table: `%s`" % _u(st, 200))

    for kl in ("scalar", "vec"):
        for ku in ("scalar", "vec"):
            bx = _Bounds(ro, {"lb": kl, "ub": ku}, None, [(gi + ".size1()", "s"), (gi + ".shape[0]", "s")])
            bx.env[li] = ("in", "lb")
            bx.env[ui] = ("in", "ub")
            tree = _tree(bx, list(ibody), on_stmt)

            def leaf(env, kl=kl, ku=ku):
                out = []
                for side, k in (("lb", kl), ("ub", ku)):
                    v = env.get("@" + side)
                    out.append("(%s)" % v[1] if v else "(npEntries (UBound%s).arr)" % PAT[k].replace("%s", side))
                return "optPair %s %s" % tuple(out)
            arms.append("  | %s, %s =>\n    %s" % (PAT[kl].replace("%s", "lb"), PAT[ku].replace("%s", "ub"), _render(tree, leaf, 4)))
    fields = ["(pts.map (·.g)).flatten", "(bs.map (·.1)).flatten", "(bs.map (·.2)).flatten"]
    return {"arms": "\n".join(arms), "member": member,
            "rows": ", ".join(fields[rows[a]] for a in (ro.G, ro.LBG, ro.UBG)), "pos": pos}


# -- path constraints -----------------------------------------------------------------------------

def _translate_paths(ro, loop, slices):
    M = loop.target.id
    body = loop.body
    # refresh of the member's path constraints, then the block
    paths_idx, blk, pos = "0", None, None
    for i, st in enumerate(body):
        if isinstance(st, ast.If) and not st.orelse and len(st.body) == 1 and isinstance(st.body[0], ast.Assign) \
                and _u(st.body[0].targets[0]) == ro.PC and _call(st.body[0].value, "self.path_constraints", 1):
            mt = ro.member(st.body[0].value.args[0], M)
            if _u(st.test) in ("%s > 0" % M, "%s != 0" % M, "%s >= 1" % M, "0 < %s" % M):
                paths_idx = "(if 0 < m then %s else 0)" % mt
            else:
                raise TranslationError("condition of the path-constraint refresh not in the table: `%s`" % _u(st.test))
            continue
        if isinstance(st, ast.Assign) and _u(st.targets[0]) == ro.PC and _call(st.value, "self.path_constraints", 1):
            paths_idx = ro.member(st.value.args[0], M)
            continue
        if isinstance(st, ast.If) and _u(st.test) in ("len(%s) > 0" % ro.PC, ro.PC, "len(%s) != 0" % ro.PC, "len(%s) >= 1" % ro.PC) \
                and not st.orelse and any(_call(n, "np.empty") for n in ast.walk(st)):
            if blk is not None:
                raise TranslationError("two path-constraint blocks")
            blk, pos = st.body, i
        elif _stores(st, {ro.PC}):
            raise TranslationError("unexpected assignment to the path constraints: `%s`" % _u(st, 200))
    if blk is None:
        raise TranslationError("`if len(path_constraints) > 0:` block not found in the member loop")
    gterms, arrays, ext, inner, jname, init_names = [], {}, {}, None, None, {}
    for st in blk:
        if _is_logger(st):
            continue
        if isinstance(st, ast.Assign) and len(st.targets) == 1:
            t, v = st.targets[0], st.value
            ic = ro.init_call(v, M)
            if ic is not None:
                if not ((isinstance(t, (ast.List, ast.Tuple)) and len(t.elts) == 1 and _is_name(t.elts[0]))):
                    raise TranslationError("t0 instance of the path constraints is not unpacked as `[x] = ..`: `%s`" % _u(st, 200))
                if ic[0] != ro.PCF:
                    raise TranslationError("the t0 rows are not computed by the path constraints function: `%s`" % _u(v, 200))
                init_names[t.elts[0].id] = "pcon0 %s" % ic[1]
                continue
            if _is_name(t) and _call(v, "np.empty", 1) and isinstance(v.args[0], ast.Tuple) and len(v.args[0].elts) == 2:
                if [ro.nat(e) for e in v.args[0].elts] != ["R", "n"]:
                    raise TranslationError("shape of the bound array is not (rows of the expression vector, n): `%s`" % _u(st, 200))
                arrays[t.id] = None
                continue
            if _is_name(t) and isinstance(v, ast.Constant) and v.value == 0 and jname is None and inner is None:
                jname = t.id
                continue
        if isinstance(st, ast.Expr) and isinstance(st.value, ast.Call) and isinstance(st.value.func, ast.Attribute) \
                and _is_name(st.value.func.value) and len(st.value.args) == 1:
            acc, meth, arg = st.value.func.value.id, st.value.func.attr, st.value.args[0]
            if acc == ro.G and meth == "append" and _is_name(arg):
                if arg.id in init_names:
                    gterms.append(init_names[arg.id])
                    continue
                if arg.id in slices:
                    gterms.append("%s nd nj R n (cols m)" % slices[arg.id]["lean"])
                    continue
            if acc in (ro.LBG, ro.UBG) and meth == "extend" and inner is not None:
                src = _u(arg, 200)
                hit = [a for a in arrays if src == "%s.transpose().ravel()" % a]
                if len(hit) == 1 and acc not in ext:
                    ext[acc] = hit[0]
                    continue
        if isinstance(st, ast.For) and inner is None and _is_name(st.iter, ro.PC) and _is_name(st.target) and not st.orelse \
                and jname is not None and len(arrays) == 2:
            inner = (st.target.id, st.body)
            continue
        raise TranslationError("statement of the path-constraint block not in the table: `%s`" % _u(st, 200))
    if inner is None or len(ext) != 2 or len(gterms) == 0:
        raise TranslationError("path-constraint block: bound loop / the two `extend` calls / the appended rows not found")
    c, ibody = inner
    if not ibody or _u(ibody[-1]) != "%s += s" % jname and not (
            isinstance(ibody[-1], ast.AugAssign) and _is_name(ibody[-1].target, jname) and isinstance(ibody[-1].op, ast.Add)):
        raise TranslationError("the bound loop does not end with `%s += <size>`" % jname)
    step = ibody[-1].value
    ibody = ibody[:-1]
    if any(_stores(x, {jname}) for x in ibody):
        raise TranslationError("`%s` is changed inside the bound loop" % jname)
    results = {}        # array -> {kind: (term, side)}

    def on_stmt(bx, st):
        if isinstance(st, ast.Assign) and len(st.targets) == 1:
            t, v = st.targets[0], st.value
            if _is_name(t):
                if _u(v) == "%s[0].size1()" % c:
                    bx.env[t.id] = ("nat", "s")
                    return
                if isinstance(v, ast.Subscript) and _is_name(v.value, c) and isinstance(v.slice, ast.Constant) and v.slice.value in (1, 2):
                    bx.env[t.id] = ("in", "lb" if v.slice.value == 1 else "ub")
                    return
                if _is_name(v) and v.id in bx.env:
                    bx.env[t.id] = bx.env[v.id]
                    return
                bx.env[t.id] = bx.arr(v)
                return
            if isinstance(t, (ast.List, ast.Tuple)):
                raise TranslationError("symbolic-bound substitution reached for a non-symbolic bound: `%s`" % _u(st, 200))
            if isinstance(t, ast.Subscript) and _is_name(t.value) and t.value.id in arrays:
                sl = t.slice
                ok = isinstance(sl, ast.Tuple) and len(sl.elts) == 2 and all(isinstance(e, ast.Slice) and e.step is None for e in sl.elts) \
                    and sl.elts[1].lower is None and sl.elts[1].upper is None and _is_name(sl.elts[0].lower, jname) \
                    and isinstance(sl.elts[0].upper, ast.BinOp) and isinstance(sl.elts[0].upper.op, ast.Add) \
                    and _is_name(sl.elts[0].upper.left, jname) and bx.nat(sl.elts[0].upper.right) == "s"
                if not ok:
                    raise TranslationError("block assignment is not `A[j : j + s, :] = ..`: `%s`" % _u(st, 200))
                if ("@" + t.value.id) in bx.env:
                    raise TranslationError("`%s` is written twice per constraint" % t.value.id)
                side = bx.side_of(v)
                if side is not None and bx.kinds[side] in ("ts1", "ts2"):
                    raise TranslationError("a Timeseries bound is written into the array without interpolation")
                x = bx.arr(v)
                bx.env["@" + t.value.id] = ("rows", "npAssignRows s times.length (%s)" % x[1], x[2])
                return
        raise TranslationError("statement of the bound loop not in the table: `%s`" % _u(st, 200))

    for kl in KINDS:
        for ku in KINDS:
            bx = _Bounds(ro, {"lb": kl, "ub": ku}, None, [(ro.N, "times.length")])
            bx.env[ro.N] = ("nat", "times.length")
            tree = _tree(bx, list(ibody), on_stmt)
            if tree[0] != "leaf":
                raise TranslationError("the bound loop branches on values (kinds %s / %s): not in the table" % (kl, ku))
            env = tree[1]
            if bx_nat_or_none(bx, env, step) != "s":
                raise TranslationError("the row offset is not advanced by the size of the constraint")
            for a in arrays:
                v = env.get("@" + a)
                if v is None:
                    raise TranslationError("`%s` is not written for bound kinds %s / %s" % (a, kl, ku))
                if len(v[2]) != 1:
                    raise TranslationError("block of `%s` is computed from both bounds" % a)
                side = next(iter(v[2]))
                kind = kl if side == "lb" else ku
                prev = results.setdefault(a, {}).get(kind)
                if prev is not None and prev != (v[1], side):
                    raise TranslationError("block of `%s` depends on the kind of the other bound" % a)
                results[a][kind] = (v[1], side)
    out = {}
    for acc, nm in ((ro.LBG, "Lb"), (ro.UBG, "Ub")):
        a = ext[acc]
        sides = {results[a][k][1] for k in KINDS}
        if len(sides) != 1:
            raise TranslationError("block of `%s` is taken from different sides for different kinds" % a)
        side = next(iter(sides))
        arms = "\n".join("  | %s => %s" % (PAT[k].replace("%s", side), results[a][k][0]) for k in KINDS)
        out[nm] = (arms, side)
    return {"idx": paths_idx, "g": " ++ ".join(gterms), "Lb": out["Lb"], "Ub": out["Ub"], "pos": pos}


def bx_nat_or_none(bx, env, node):
    saved = bx.env
    bx.env = env
    try:
        return bx.nat(node)
    except TranslationError:
        return None
    finally:
        bx.env = saved


def translate_user_rows():
    path = os.path.join(REPO, OPT)
    fn = _find_method(ast.parse(open(path).read()), "CollocatedIntegratedOptimizationProblem", "transcribe")
    ro = _Roles(fn)
    loop = _member_loop(ro)
    slices = _slices(ro, loop)
    elem, used, opos = _translate_objective(ro, loop, slices)
    if len(used) != 1:
        raise TranslationError("the mapped instances of the path objective are not summed into the objective")
    pts = _translate_points(ro, loop)
    pth = _translate_paths(ro, loop, slices)
    gs = [k for k in slices if ("%s nd nj R n (cols m)" % slices[k]["lean"]) in pth["g"]]
    if len(gs) != 1:
        raise TranslationError("the path-constraint rows appended to g are not: t0 instance, mapped instances")
    return {"slices": slices, "elem": elem, "oslice": slices[used[0]], "pts": pts, "pth": pth, "gslice": slices[gs[0]]}


USER_TEMPLATE = """import RtcVerif.Props.C06
import RtcVerif.Proofs.C06Gen
/-!
GENERATED on every run of the C06 check by harness/translate_c06.py (`gen_user_rows`) from
`CollocatedIntegratedOptimizationProblem.transcribe()` in
/repo/src/rtctools/optimization/collocated_integrated_optimization_problem.py: the slices of the
mapped output, the objective assembly, the point-constraint block and the path-constraint block.
Do not edit.  Parameters: `objective m`, `pobj0 m` / `pcon0 m` (path objective / path constraint
functions at the t0 inputs of member `m`), `cols m` (columns of the mapped output of member `m`),
`points m`, `paths m` (what `constraints(m)` / `path_constraints(m)` return), `prob m`.
-/
set_option linter.unusedVariables false
namespace RtcVerif.Gen
open RtcVerif RtcVerif.C06 RtcVerif.Interp

/-! ## slices of the mapped output -/
%(slice_defs)s
/-! ## objective -/

/-- the entry appended to `f` for member `m` -/
def objectiveElemGen (prob : Nat → Rat) (objective pobj0 : Nat → List Rat)
    (cols : Nat → List (List Rat)) (nd nj R n : Nat) (m : Nat) : Rat :=
  %(elem)s

/-- `nlp["f"]`: member loop, `f.append`, `ca.sum1(ca.vertcat(*f))` -/
def objectiveGen (E : Nat) (prob : Nat → Rat) (objective pobj0 : Nat → List Rat)
    (cols : Nat → List (List Rat)) (nd nj R n : Nat) : Rat :=
  sumList ((List.range E).map (fun m => objectiveElemGen prob objective pobj0 cols nd nj R n m))

theorem objectiveElemGen_eq_model (prob : Nat → Rat) (objective pobj0 : Nat → List Rat)
    (cols : Nat → List (List Rat)) (nd nj R n m : Nat) (hc : (cols m).length ≤ n - 1) :
    objectiveElemGen prob objective pobj0 cols nd nj R n m
      = prob m * fMember (objVal (objective m)) nd nj (pobj0 m) (cols m) := by
  have hs := vecRange_eq_vecSlice %(o_lo)s %(o_hi)s %(o_c1)s nd nj (cols m) (by omega) (by omega) (by omega)
  unfold objectiveElemGen fMember %(o_lean)s
  rw [hs]
  all_goals (split_ifs <;> first | ring1 | omega)

theorem objectiveGen_eq_model (E : Nat) (prob : Nat → Rat) (objective pobj0 : Nat → List Rat)
    (cols : Nat → List (List Rat)) (nd nj R n : Nat) (hc : ∀ m, (cols m).length ≤ n - 1) :
    objectiveGen E prob objective pobj0 cols nd nj R n
      = objectiveCode ((List.range E).map prob)
          ((List.range E).map (fun m => fMember (objVal (objective m)) nd nj (pobj0 m) (cols m))) := by
  unfold objectiveGen objectiveCode
  rw [List.zipWith_map, List.zipWith_self]
  congr 1
  apply List.map_congr_left
  intro m _
  exact objectiveElemGen_eq_model prob objective pobj0 cols nd nj R n m (hc m)

/-- the objective assembled by the source is the documented one: every member weighted by its
    probability, the path objective at every collocation time including t0 -/
theorem objectiveGen_documented {Env : Type} (E n nd R : Nat) (hn : 1 ≤ n) (prob J : Nat → Rat)
    (Jpath : Env → Rat) (G : Env → List Rat) (env : Nat → Nat → Env)
    (dae delay : Nat → Nat → List Rat) (hdae : ∀ m i, (dae m i).length = nd) :
    objectiveGen E prob (fun m => [J m]) (fun m => [Jpath (env m 0)])
      (fun m => (List.range (n - 1)).map (fun i =>
        stepColumn (dae m i) [Jpath (env m (i + 1))] (G (env m (i + 1))) (delay m i))) nd 1 R n
      = objectiveSpec E n prob J Jpath env := by
  rw [objectiveGen_eq_model _ _ _ _ _ _ _ _ _ (fun m => by simp)]
  exact C06_objective E n nd hn prob J Jpath G env dae delay hdae

/-! ## point constraints -/

/-- the broadcasting loop for one constraint of `s` rows, per kind of its two bounds -/
def pointBoundsGen (s : Nat) (lb ub : UBound) : Option (List XVal × List XVal) :=
  match lb, ub with
%(pt_arms)s
  | _, _ => none

theorem pointBoundsGen_eq_model (s : Nat) (lb ub : UBound) :
    pointBoundsGen s lb ub = optPair (pointBound s lb) (pointBound s ub) := by
  cases lb <;> cases ub <;>
    simp only [pointBoundsGen, pointBound, npFull, npEntries, UBound.arr] <;>
    (repeat' split) <;> simp_all [optPair] <;> omega

/-- `g.extend(..); lbg.extend(..); ubg.extend(..)` -/
def pointRowsGen (pts : List PointCon) : Option Rows :=
  (mapMOpt (fun p => pointBoundsGen p.g.length p.lb p.ub) pts).map
    (fun bs => ⟨%(pt_rows)s⟩)

theorem pointRowsGen_eq_model (pts : List PointCon) : pointRowsGen pts = pointRows pts :=
  pointRows_of_pairs _ (fun p => pointBoundsGen_eq_model p.g.length p.lb p.ub) pts

/-- the point-constraint rows of member `m` -/
def memberPointRowsGen (points : Nat → List PointCon) (m : Nat) : Option Rows :=
  pointRowsGen (points %(pt_member)s)

/-- every point constraint of member `m` once, with its own bounds -/
theorem pointRowsGen_documented (points : Nat → List PointCon) (m : Nat)
    (hok : ∀ p ∈ points m, 1 ≤ p.g.length ∧ p.lb.pointOk p.g.length ∧ p.ub.pointOk p.g.length)
    (rows : Rows) (h : memberPointRowsGen points m = some rows) :
    rows.g = (points m).flatMap (·.g) ∧
    rows.lb = (points m).flatMap (fun p => (List.range p.g.length).map (pointBoundAt p.lb)) ∧
    rows.ub = (points m).flatMap (fun p => (List.range p.g.length).map (pointBoundAt p.ub)) := by
  unfold memberPointRowsGen at h
  rw [pointRowsGen_eq_model] at h
  exact C06_point_constraints_once (points m) hok rows h

/-! ## path constraints -/

/-- the block written into the array that is extended into `lbg`, per kind of bound -/
def pathLbBlockGen (s : Nat) (times : List Rat) : UBound → Option (List (List XVal))
%(lb_arms)s

/-- the block written into the array that is extended into `ubg`, per kind of bound -/
def pathUbBlockGen (s : Nat) (times : List Rat) : UBound → Option (List (List XVal))
%(ub_arms)s

theorem pathLbBlockGen_eq_model (s : Nat) (times : List Rat) (b : UBound) :
    pathLbBlockGen s times b = pathBlock s times .ninf b := by
  cases b with
  | scalar v => exact gen_block_scalar s times _ v
  | vec vs => exact gen_block_vec s times _ vs
  | ts1 ts vals => exact gen_block_ts1 s times _ ts vals
  | ts2 ts cs => exact gen_block_ts2 s times _ ts cs

theorem pathUbBlockGen_eq_model (s : Nat) (times : List Rat) (b : UBound) :
    pathUbBlockGen s times b = pathBlock s times .pinf b := by
  cases b with
  | scalar v => exact gen_block_scalar s times _ v
  | vec vs => exact gen_block_vec s times _ vs
  | ts1 ts vals => exact gen_block_ts1 s times _ ts vals
  | ts2 ts cs => exact gen_block_ts2 s times _ ts cs

/-- the path-constraint rows of member `m`: t0 instance and mapped instances, bound arrays
    stacked constraint by constraint and flattened time-major -/
def pathRowsGen (nd nj R n : Nat) (times : List Rat) (pcon0 : Nat → List Rat)
    (paths : Nat → List PathCon) (cols : Nat → List (List Rat)) (m : Nat) : Option Rows :=
  if (paths %(p_idx)s).isEmpty then some ⟨[], [], []⟩ else
  match stackRavel n (mapMOpt (fun c => pathLbBlockGen c.size times c.%(lb_side)s) (paths %(p_idx)s)),
        stackRavel n (mapMOpt (fun c => pathUbBlockGen c.size times c.%(ub_side)s) (paths %(p_idx)s)) with
  | some l, some u => some ⟨%(p_g)s, l, u⟩
  | _, _ => none

theorem pathRowsGen_eq_model (nd nj R n : Nat) (times : List Rat) (pcon0 : Nat → List Rat)
    (paths : Nat → List PathCon) (cols : Nat → List (List Rat)) (m : Nat)
    (hn : n = times.length) (hc : (cols m).length ≤ n - 1)
    (J : Rat) (init : List Rat) (points : List PointCon) :
    pathRowsGen nd nj R n times pcon0 paths cols m
      = pathRows nd nj R times ⟨J, init, pcon0 m, cols m, points, paths m⟩ := by
  have hm : %(p_idx)s = m := by first | rfl | (split <;> omega)
  unfold pathRowsGen
  try simp only [hm]
  exact pathRows_of_blocks nd nj R n times ⟨J, init, pcon0 m, cols m, points, paths m⟩ _ _
    (fun c => pathLbBlockGen_eq_model c.size times c.lb)
    (fun c => pathUbBlockGen_eq_model c.size times c.ub) (%(p_g)s)
    (by
      have hs := vecRange_eq_vecSlice %(g_lo)s %(g_hi)s %(g_c1)s (nd + nj) R (cols m) (by omega) (by omega) (by omega)
      unfold %(g_lean)s
      rw [hs])
    hn

/-- every path constraint of member `m` at every collocation time including t0, once, in
    time-major order, with the bounds `path_constraints(m)` returned for this member -/
theorem pathRowsGen_documented {Env : Type} (nd nj R : Nat) (times : List Rat) (hn : 1 ≤ times.length)
    (env : Nat → Nat → Env) (G : Env → List Rat) (hG : ∀ e, (G e).length = R)
    (dae jp dl : Nat → Nat → List Rat) (hdae : ∀ m i, (dae m i).length = nd)
    (hjp : ∀ m i, (jp m i).length = nj) (paths : Nat → List PathCon) (m : Nat)
    (hne : paths m ≠ []) (hwf : ∀ c ∈ paths m, c.lb.WF ∧ c.ub.WF) (rows : Rows)
    (h : pathRowsGen nd nj R times.length times (fun m => G (env m 0)) paths
          (fun m => (List.range (times.length - 1)).map (fun i =>
            stepColumn (dae m i) (jp m i) (G (env m (i + 1))) (dl m i))) m = some rows) :
    rows.g = (List.range times.length).flatMap (fun i => G (env m i)) ∧
    rows.lb = (List.range times.length).flatMap (pathBoundCol times true (paths m)) ∧
    rows.ub = (List.range times.length).flatMap (pathBoundCol times false (paths m)) := by
  rw [pathRowsGen_eq_model nd nj R times.length times _ paths _ m rfl (by simp) 0 [] []] at h
  exact C06_path_constraints_everywhere nd nj R times hn (env m) G hG (dae m) (jp m) (dl m) (hdae m)
    (hjp m) 0 [] [] (paths m) hne hwf rows h

/-! ## the user rows of a member, in the order of the source -/

def memberRowsGen (nd nj R n : Nat) (times : List Rat) (pcon0 : Nat → List Rat)
    (points : Nat → List PointCon) (paths : Nat → List PathCon) (cols : Nat → List (List Rat))
    (m : Nat) : Option Rows :=
  match memberPointRowsGen points m, pathRowsGen nd nj R n times pcon0 paths cols m with
  | some a, some b => some (%(order)s)
  | _, _ => none

theorem memberRowsGen_eq_model (nd nj R n : Nat) (times : List Rat) (pcon0 : Nat → List Rat)
    (points : Nat → List PointCon) (paths : Nat → List PathCon) (cols : Nat → List (List Rat))
    (m : Nat) (hn : n = times.length) (hc : (cols m).length ≤ n - 1) (J : Rat) (init : List Rat) :
    memberRowsGen nd nj R n times pcon0 points paths cols m
      = memberRows nd nj R times ⟨J, init, pcon0 m, cols m, points m, paths m⟩ := by
  unfold memberRowsGen memberRows memberPointRowsGen
  rw [pointRowsGen_eq_model, pathRowsGen_eq_model nd nj R n times pcon0 paths cols m hn hc J init (points m)]
  all_goals rfl

/-! ## shape mismatch is rejected by the code read from the source -/

/-- a vector point constraint with an array bound of a length that is neither 1 nor its size makes
    the assembled block raise, on either side, wherever the constraint stands -/
theorem pointRowsGen_shape_mismatch_rejected (pts : List PointCon) (p : PointCon) (hp : p ∈ pts)
    (vs : List XVal) (hs : 1 < p.g.length) (h1 : vs.length ≠ 1) (h2 : vs.length ≠ p.g.length)
    (hb : p.lb = .vec vs ∨ p.ub = .vec vs) : pointRowsGen pts = none := by
  rw [pointRowsGen_eq_model]
  exact C06_point_shape_mismatch_rejected pts p hp vs hs h1 h2 hb

/-- a path-constraint array bound that cannot be broadcast over the rows is rejected on both sides -/
theorem pathBlockGen_shape_mismatch_rejected (s : Nat) (times : List Rat) (vs : List XVal)
    (h1 : vs.length ≠ 1) (h2 : vs.length ≠ s) :
    pathLbBlockGen s times (.vec vs) = none ∧ pathUbBlockGen s times (.vec vs) = none := by
  rw [pathLbBlockGen_eq_model, pathUbBlockGen_eq_model]
  exact ⟨C06_path_shape_mismatch_rejected s times _ vs h1 h2,
         C06_path_shape_mismatch_rejected s times _ vs h1 h2⟩

/-! ## non-vacuity: concrete instances of the functions read from the source -/

-- two members, three time stamps, one DAE row per step: f = 1/2 (1 + 10+20+30) + 1/4 (2 + 1+2+3)
example : objectiveGen 2 (fun m => if m = 0 then 1/2 else 1/4) (fun m => if m = 0 then [1] else [2])
    (fun m => if m = 0 then [10] else [1])
    (fun m => if m = 0 then [stepColumn [0] [20] [101, 201] [], stepColumn [0] [30] [102, 202] []]
              else [stepColumn [0] [2] [3, 4] [], stepColumn [0] [3] [5, 6] []]) 1 1 2 3 = 65/2 := by
  decide +kernel

-- member 1 gets its own bounds (member 0 has none): Timeseries upper bound on a sub-range, +inf outside
example : pathRowsGen 1 1 2 3 [0, 1, 2] (fun _ => [100, 200])
    (fun m => if m = 0 then [] else
      [⟨1, .scalar .ninf, .ts1 [0, 1] [1, 3]⟩, ⟨1, .vec [.fin (-1)], .scalar (.fin 5)⟩])
    (fun _ => [stepColumn [0] [20] [101, 201] [], stepColumn [0] [30] [102, 202] []]) 1
    = some ⟨[100, 200, 101, 201, 102, 202],
            [.ninf, .fin (-1), .ninf, .fin (-1), .ninf, .fin (-1)],
            [.fin 1, .fin 5, .fin 3, .fin 5, .pinf, .fin 5]⟩ := by
  decide +kernel

example : memberPointRowsGen (fun m => if m = 2 then
      [⟨[7, 8], .scalar (.fin 0), .vec [.fin 1, .fin 2]⟩, ⟨[9], .vec [.fin 3], .scalar .pinf⟩] else []) 2
    = some ⟨[7, 8, 9], [.fin 0, .fin 0, .fin 3], [.fin 1, .fin 2, .pinf]⟩ := by
  decide +kernel

-- shape mismatch on either side is the exception
example : pointRowsGen [⟨[7, 8], .scalar (.fin 0), .vec [.fin 1, .fin 2, .fin 3]⟩] = none := by
  decide +kernel

example : pathLbBlockGen 2 [0, 1, 2] (.vec [.fin 1, .fin 2, .fin 3]) = none := by decide +kernel

end RtcVerif.Gen
"""

USER_THEOREMS = ["objectiveElemGen_eq_model", "objectiveGen_eq_model", "objectiveGen_documented",
                 "pointBoundsGen_eq_model", "pointRowsGen_eq_model", "pointRowsGen_documented",
                 "pathLbBlockGen_eq_model", "pathUbBlockGen_eq_model", "pathRowsGen_eq_model",
                 "pathRowsGen_documented", "memberRowsGen_eq_model",
                 "pointRowsGen_shape_mismatch_rejected", "pathBlockGen_shape_mismatch_rejected"]


def user_rows_text():
    """the text of lean/RtcVerif/Gen/UserRows.lean for the current source"""
    t = translate_user_rows()
    sd = ""
    for k, sl in t["slices"].items():
        sd += "\n/-- `%s = ca.vec(%s[%s : %s, 0 : %s])` -/\ndef %s (nd nj R n : Nat) (cols : List (List Rat)) : List Rat :=\n" \
              "  vecRange %s %s 0 %s cols\n" % (k, sl["acc"], sl["lo"], sl["hi"], sl["c1"], sl["lean"], _par(sl["lo"]), _par(sl["hi"]), _par(sl["c1"]))
    o, g, pts, pth = t["oslice"], t["gslice"], t["pts"], t["pth"]
    return USER_TEMPLATE % {
        "slice_defs": sd, "elem": t["elem"],
        "o_lo": _par(o["lo"]), "o_hi": _par(o["hi"]), "o_c1": _par(o["c1"]), "o_lean": o["lean"],
        "pt_arms": pts["arms"], "pt_rows": pts["rows"], "pt_member": pts["member"],
        "lb_arms": pth["Lb"][0], "ub_arms": pth["Ub"][0], "lb_side": pth["Lb"][1], "ub_side": pth["Ub"][1],
        "p_idx": pth["idx"], "p_g": pth["g"],
        "g_lo": _par(g["lo"]), "g_hi": _par(g["hi"]), "g_c1": _par(g["c1"]), "g_lean": g["lean"],
        "order": "a.append b" if pts["pos"] < pth["pos"] else "b.append a",
    }


def gen_user_rows(c):
    """(re)generate lean/RtcVerif/Gen/UserRows.lean; returns the extra obligations for c.prove"""
    gdir = os.path.join(LEAN_DIR, "RtcVerif", "Gen")
    os.makedirs(gdir, exist_ok=True)
    path = os.path.join(gdir, "UserRows.lean")
    try:
        text = user_rows_text()
    except TranslationError as e:
        c.broken.append((USER_WHAT, str(e)))
        return []
    except (OSError, SyntaxError) as e:
        c.broken.append((USER_WHAT, "cannot read the source: %s" % e))
        return []
    old = open(path).read() if os.path.exists(path) else None
    if old != text:
        tmp = path + ".tmp%d" % os.getpid()
        with open(tmp, "w") as f:
            f.write(text)
        os.replace(tmp, path)
    return [("RtcVerif.Gen.UserRows", "RtcVerif.Gen", USER_THEOREMS)]


def _par(t):
    return t if t.startswith("(") or " " not in t else "(%s)" % t
