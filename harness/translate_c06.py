"""
Source-to-Lean translation of the read-back block of `OptimizationProblem.optimize()` (second tie
for C06, besides the correspondence check).  On every run of the C06 check the method is parsed from
`$RTC_REPO/src/rtctools/optimization/optimization_problem.py`; the statements from the solver call
`results = solver(x0=..., lbx=..., ...)` to `return success` are walked against the CLOSED table
below and `lean/RtcVerif/Gen/Readback.lean` is (re)generated with

  readbackGen            the list of (attribute, source, under-a-condition?) triples, sorted by attribute
  readbackGen_eq_model   = C06.readbackModel                                   (rfl)
  readbackGen_current    the sequence theorem C06_readback_current for the generated table

so moving an assignment under `if success:` (seeded change c06g), reading another result key, or
any statement outside the table breaks a proof obligation / is rejected; the check then goes on to
its failing-input search as usual.

Table "Python construct -> model term" (locals are recognised by ROLE, not by spelling):

  R = S(x0=.., lbx=.., ubx=.., lbg=.., ubg=..)          start of the block; R = results, S = solver
  self.__a = float(R["k"]) | np.array(R["k"]).ravel() | R["k"]     (a, "results[k]", guarded?)
  self.__a = R.get("k")                                   (a, "results.get(k)", guarded?)
  self.__a = S.stats()                                    (a, "solver.stats()", guarded?)
  self.__a = {"k1": n1, ...}  (names only)                (a, "dict(k1=n1,...)" keys sorted, guarded?)
  ok, lvl = self.solver_success(self.__solver_stats, ..)  ("@success", "solver_success(solver_stats)", guarded?)
                                                          (solver_stats must have been assigned from S.stats() before)
  guarded? = the statement sits inside any if / else / try / except / loop of the block
  <local> = <expression without R, S>                     nothing (message strings, log levels, loop indices)
  logger.*(...), self.post()                              nothing
  if / else / try / except                                walked, contents are "guarded"
  return ok                                               must be the last statement, unconditional, ok = the success flag
  anything else (del, augmented assignment to self.*, assignment to R / S / ok, other calls)   REJECTED
"""
import ast
import os

from .common import LEAN_DIR, REPO
from .translate import TranslationError, _find_method


def _u(node, n=90):
    try:
        return ast.unparse(node)[:n]
    except Exception:
        return ast.dump(node)[:n]


def _is_name(node, name=None):
    return isinstance(node, ast.Name) and (name is None or node.id == name)


def _self_attr(node):
    if isinstance(node, ast.Attribute) and _is_name(node.value, "self"):
        return node.attr.lstrip("_")
    return None


def _mentions(node, names):
    return any(isinstance(n, ast.Name) and n.id in names for n in ast.walk(node))


class _Rb:
    def __init__(self, R, S):
        self.R, self.S = R, S
        self.ok = None
        self.rows = {}

    def key(self, node):
        """R["k"] -> k"""
        if isinstance(node, ast.Subscript) and _is_name(node.value, self.R) and isinstance(node.slice, ast.Constant) \
                and isinstance(node.slice.value, str):
            return node.slice.value
        return None

    def source(self, v):
        k = self.key(v)
        if k is None and isinstance(v, ast.Call) and _is_name(v.func, "float") and len(v.args) == 1:
            k = self.key(v.args[0])
        if k is None and isinstance(v, ast.Call) and isinstance(v.func, ast.Attribute) and v.func.attr == "ravel" \
                and not v.args and isinstance(v.func.value, ast.Call) and isinstance(v.func.value.func, ast.Attribute) \
                and _is_name(v.func.value.func.value, "np") and v.func.value.func.attr == "array" \
                and len(v.func.value.args) == 1:
            k = self.key(v.func.value.args[0])
        if k is not None:
            return "results[%s]" % k
        if isinstance(v, ast.Call) and isinstance(v.func, ast.Attribute) and _is_name(v.func.value, self.R) \
                and v.func.attr == "get" and len(v.args) == 1 and isinstance(v.args[0], ast.Constant):
            return "results.get(%s)" % v.args[0].value
        if isinstance(v, ast.Call) and isinstance(v.func, ast.Attribute) and _is_name(v.func.value, self.S) \
                and v.func.attr == "stats" and not v.args:
            return "solver.stats()"
        if isinstance(v, ast.Dict) and all(isinstance(k, ast.Constant) and isinstance(k.value, str) for k in v.keys) \
                and all(_is_name(x) for x in v.values) and not _mentions(v, {self.R, self.S}):
            return "dict(%s)" % ",".join("%s=%s" % (k.value, x.id) for k, x in sorted(zip(v.keys, v.values), key=lambda p: p[0].value))
        raise TranslationError("unsupported right-hand side `%s`" % _u(v))

    def record(self, attr, src, guarded):
        if attr in self.rows:
            raise TranslationError("`%s` is assigned more than once in the read-back block" % attr)
        self.rows[attr] = (src, guarded)

    def walk(self, stmts, guarded):
        for st in stmts:
            self.stmt(st, guarded)

    def stmt(self, st, guarded):
        if isinstance(st, ast.Expr):
            v = st.value
            if isinstance(v, ast.Constant):
                return
            if isinstance(v, ast.Call) and isinstance(v.func, ast.Attribute):
                if _is_name(v.func.value, "logger"):
                    return
                if _is_name(v.func.value, "self") and v.func.attr == "post" and not v.args:
                    return
            raise TranslationError("unsupported statement `%s`" % _u(st))
        if isinstance(st, ast.Assign) and len(st.targets) == 1:
            t, v = st.targets[0], st.value
            a = _self_attr(t)
            if a is not None:
                return self.record(a, self.source(v), guarded)
            if isinstance(t, ast.Tuple) and len(t.elts) == 2 and all(_is_name(e) for e in t.elts) \
                    and isinstance(v, ast.Call) and isinstance(v.func, ast.Attribute) and _is_name(v.func.value, "self") \
                    and v.func.attr == "solver_success" and v.args and _self_attr(v.args[0]) == "solver_stats":
                if self.rows.get("solver_stats", (None,))[0] != "solver.stats()":
                    raise TranslationError("solver_success() is called before solver_stats is read from the solver")
                if self.ok is not None:
                    raise TranslationError("the success flag is assigned twice")
                self.ok = t.elts[0].id
                return self.record("@success", "solver_success(solver_stats)", guarded)
            if _is_name(t):
                if t.id in (self.R, self.S) or t.id == self.ok:
                    raise TranslationError("`%s` is re-assigned in the read-back block" % t.id)
                if _mentions(v, {self.R, self.S}):
                    raise TranslationError("local `%s` is computed from the solver results: `%s`" % (t.id, _u(v)))
                return
            raise TranslationError("unsupported assignment `%s`" % _u(st))
        if isinstance(st, ast.If):
            self.walk(st.body, True)
            self.walk(st.orelse, True)
            return
        if isinstance(st, ast.Try):
            self.walk(st.body, True)
            for h in st.handlers:
                self.walk(h.body, True)
            self.walk(st.orelse, True)
            self.walk(st.finalbody, True)
            return
        raise TranslationError("unsupported statement `%s`" % _u(st))


def translate_readback():
    path = os.path.join(REPO, "src", "rtctools", "optimization", "optimization_problem.py")
    fn = _find_method(ast.parse(open(path).read()), "OptimizationProblem", "optimize")
    start = None
    for n, st in enumerate(fn.body):
        if isinstance(st, ast.Assign) and len(st.targets) == 1 and _is_name(st.targets[0]) and isinstance(st.value, ast.Call) \
                and _is_name(st.value.func) and not st.value.args \
                and sorted(k.arg for k in st.value.keywords) == ["lbg", "lbx", "ubg", "ubx", "x0"]:
            start = n
            R, S = st.targets[0].id, st.value.func.id
    if start is None:
        raise TranslationError("solver call `results = solver(x0=, lbx=, ubx=, lbg=, ubg=)` not found at the top level of optimize()")
    block = fn.body[start + 1:]
    if not block or not isinstance(block[-1], ast.Return):
        raise TranslationError("optimize() does not end with `return success`")
    rb = _Rb(R, S)
    rb.walk(block[:-1], False)
    if rb.ok is None or not _is_name(block[-1].value, rb.ok):
        raise TranslationError("the returned value `%s` is not the flag obtained from solver_success()" % _u(block[-1].value))
    for node in block[:-1]:
        for sub in ast.walk(node):
            if isinstance(sub, ast.Return):
                raise TranslationError("early `return` inside the read-back block")
    return sorted((a, s, g) for a, (s, g) in rb.rows.items())


GEN_TEMPLATE = """import RtcVerif.Props.C06
/-!
GENERATED on every run of the C06 check by harness/translate_c06.py from the read-back block of
`OptimizationProblem.optimize()` in /repo/src/rtctools/optimization/optimization_problem.py
(solver call .. `return success`).  Do not edit.
-/
namespace RtcVerif.Gen
open RtcVerif.C06

/-- (attribute, source, assigned under a condition?) for every assignment of the block -/
def readbackGen : List RbAssign :=
  [%s]

theorem readbackGen_eq_model : readbackGen = readbackModel := rfl

/-- the sequence theorem for the table read from the source: after any calls, successful or not,
    `solver_output` is the last returned point and `objective_value` the objective there -/
theorem readbackGen_current {X : Type} (f : X → Rat) (calls : List (X × Bool)) (st : RbState X)
    (last : X × Bool) :
    (rbRun readbackGen f st (calls ++ [last])).output = some last.1 ∧
    (rbRun readbackGen f st (calls ++ [last])).objective = some (f last.1) := by
  rw [readbackGen_eq_model]
  exact C06_readback_current f calls st last

end RtcVerif.Gen
"""

THEOREMS = ["readbackGen_eq_model", "readbackGen_current"]


def gen_readback(c):
    """(re)generate lean/RtcVerif/Gen/Readback.lean; returns the extra obligations for c.prove"""
    gdir = os.path.join(LEAN_DIR, "RtcVerif", "Gen")
    os.makedirs(gdir, exist_ok=True)
    path = os.path.join(gdir, "Readback.lean")
    try:
        rows = translate_readback()
    except TranslationError as e:
        c.broken.append(("translator: OptimizationProblem.optimize (read-back block)", str(e)))
        return []
    except (OSError, SyntaxError) as e:
        c.broken.append(("translator: OptimizationProblem.optimize (read-back block)", "cannot read the source: %s" % e))
        return []
    body = ",\n   ".join('⟨"%s", "%s", %s⟩' % (a, s, "true" if g else "false") for a, s, g in rows)
    text = GEN_TEMPLATE % body
    old = open(path).read() if os.path.exists(path) else None
    if old != text:
        tmp = path + ".tmp%d" % os.getpid()
        with open(tmp, "w") as f:
            f.write(text)
        os.replace(tmp, path)
    return [("RtcVerif.Gen.Readback", "RtcVerif.Gen", THEOREMS)]
