"""
Source-to-Lean translation of the clustering kernels of `ControlTreeMixin.discretize_controls`
(second tie for C07, besides the correspondence check).  On every run of the C07 check the nested
function `branch()` is parsed from `$RTC_REPO/src/rtctools/optimization/control_tree_mixin.py`,
its clustering part (everything after the distance table has been filled) is executed symbolically
against the CLOSED table below, and `lean/RtcVerif/Gen/ControlTreeCluster.lean` is (re)generated with

  firstSeedGen   the first representative                    + theorem firstSeedGen_eq_model  (= selectReps' first pick)
  seedScoreGen   the score array `min_distances`             }
  nextSeedGen    argmax + stop rule of the seed loop         } + theorem nextSeedGen_eq_model  (= one step of C07.moreReps)
  scanStepGen    body of `for i in range(k)` of the allocation
  scanGen        the whole scan for one member               + theorem scanGen_eq_model      (= C07.nearestRep)

The loop SKELETON around these kernels (which list is created / appended to, what is removed from
`available`, the recursion) is matched structurally, statement by statement, and anything that is
not in the table is rejected; its equivalence with `C07.children` is the correspondence check's
business, not a Lean theorem (stated limit).

Table "Python construct -> model term" (names are recognised by ROLE, not by spelling):

  D = np.zeros((n, n)) ... filled before the kernels     the distance table `d` (data of the model)
  B[cb]  (cb = the parameter of branch())                 `ms`, the members of the branch, in list order
  for p, m in enumerate(B[cb])                            position p <-> member m (positions only index D and B[cb])
  D[p, q]                                                 `d m_p m_q`        (row, column as written)
  R[m] (R filled by `for i, m in enumerate(B[cb]): R[m] = i`)   the position of member m;  D[R[x], R[y]] = `d x y`
  A = set(B[cb])                                          `avail` (list of members), initially all
  np.argmax(np.amax(D, axis=0))                           `argmaxFirst (colMax d ms) ms`   (NumPy: first maximum)
  for i in range(options["k"])                            i = 0 .. k-1
  if idx >= 0: ... else: ...                              seed present / absent (idx = -1 is `none`)
  B[cb + (i,)] = [B[cb][idx]]                             child i := [seed]
  A.remove(B[cb][idx])                                    avail := avail without the seed
  B[cb + (i,)] = []                                       child i := []
  S = np.array([min([np.inf] + [D[..] for p, m in enumerate(B[cb]) if <c1> and <c2>])
                for q, m' in enumerate(B[cb])], dtype=np.float64)
                                                          `seedScoreGen d ms avail c := minOver (fun j => D..) (ms.filter (fun j => c1 && c2))`
                                                          (`min` with the `np.inf` seed = `minOver`, `none` = +inf)
  m in A / m not in A                                     `avail.contains m` / `!avail.contains m` (conjuncts in canonical order)
  S[np.where(S == np.inf)] = -np.inf                      `none` now reads -inf (`leNI` / `ltNI` / `argmaxNI` order)
  idx = np.argmax(S)                                      `argmaxNI (seedScoreGen d ms avail) ms`
  if S[idx] <= q: idx = -1   (also `<`)                   `if leNI (score c) (some q) then none else some c`  (`ltNI` for `<`)
  for a in A:                                             the remaining members (ascending: CPython set of small ints)
  min_i = 0 ; min_distance = np.inf                       scan state `(0, none)`
  b2 = B[cb + (i,)] ; if len(b2) > 0:                     head of child i: `some r` with r = b2[0], else `none`
  dist = D[R[a], R[b2[0]]]                                `d a r`   (as written)
  if dist < min_distance: min_distance = dist; min_i = i  `if ltInf (d a r) st.2 then (i, some (d a r)) else st`  (`leInf` for `<=`)
  B[cb + (min_i,)].append(a)                              child min_i := child min_i ++ [a]
  for i in range(options["k"]): branch(cb + (i,))         recursion over the children
  logger.*(...)                                           nothing

SECOND MODULE (`gen_alloc`, Gen/ControlTreeAlloc.lean): the distance fill of `branch()`, the tree's
`discretize_control`, the base `discretize_control` + member loop of `discretize_controls`, the member loops of
`transcribe()` and the symbol-cache key of `state_at()`; its closed table "Python construct -> model term" is the
docstring that precedes `_attr_self` further down in this file (reference definitions: Model/C07Code.lean, bridging
proofs: Proofs/C07Code.lean).
"""
import ast
import os

from .common import LEAN_DIR, REPO
from .translate import TranslationError, _find_method


def _u(node, n=90):
    try:
        return ast.unparse(node)[:n]
    except Exception:
        return ast.dump(node)[:n]


def _is_name(node, name=None):
    return isinstance(node, ast.Name) and (name is None or node.id == name)


def _np_call(node, fn):
    return isinstance(node, ast.Call) and isinstance(node.func, ast.Attribute) and _is_name(node.func.value, "np") \
        and node.func.attr == fn


def _np_attr(node, attr):
    return isinstance(node, ast.Attribute) and _is_name(node.value, "np") and node.attr == attr


def _const(node, value=None):
    if isinstance(node, ast.UnaryOp) and isinstance(node.op, ast.USub) and isinstance(node.operand, ast.Constant):
        v = -node.operand.value
    elif isinstance(node, ast.Constant):
        v = node.value
    else:
        return None
    if isinstance(v, bool) or not isinstance(v, (int, float)):
        return None
    return v if value is None or v == value else None


def _is_logging(st):
    return isinstance(st, ast.Expr) and isinstance(st.value, ast.Call) and isinstance(st.value.func, ast.Attribute) \
        and _is_name(st.value.func.value, "logger")


def _is_doc(st):
    return isinstance(st, ast.Expr) and isinstance(st.value, ast.Constant) and isinstance(st.value.value, str)


class _Tr:
    def __init__(self, fn):
        self.fn = fn
        if len(fn.args.args) != 1:
            raise TranslationError("branch() is expected to take the branch id only")
        self.cb = fn.args.args[0].arg
        self.B = None  # dictionary of branches
        self.D = None  # distance table
        self.R = None  # member -> position
        self.A = None  # available set
        self.idx = None
        self.out = {}

    # -- recognisers -----------------------------------------------------------------------------
    def is_ms(self, node):
        """B[cb]"""
        return isinstance(node, ast.Subscript) and _is_name(node.value) and _is_name(node.slice, self.cb) \
            and (self.B is None or node.value.id == self.B)

    def child(self, node):
        """B[cb + (x,)] -> the index expression x, else None"""
        if isinstance(node, ast.Subscript) and _is_name(node.value, self.B) and isinstance(node.slice, ast.BinOp) \
                and isinstance(node.slice.op, ast.Add) and _is_name(node.slice.left, self.cb) \
                and isinstance(node.slice.right, ast.Tuple) and len(node.slice.right.elts) == 1:
            return node.slice.right.elts[0]
        return None

    def range_k(self, node):
        return isinstance(node, ast.Call) and _is_name(node.func, "range") and len(node.args) == 1 \
            and isinstance(node.args[0], ast.Subscript) and _is_name(node.args[0].value, "options") \
            and _const_str(node.args[0].slice) == "k"

    def enum_ms(self, gen_or_for):
        """`for p, m in enumerate(B[cb])` -> (p, m)"""
        it, tgt = gen_or_for.iter, gen_or_for.target
        if isinstance(it, ast.Call) and _is_name(it.func, "enumerate") and len(it.args) == 1 and self.is_ms(it.args[0]) \
                and isinstance(tgt, ast.Tuple) and len(tgt.elts) == 2 and all(_is_name(e) for e in tgt.elts):
            return tgt.elts[0].id, tgt.elts[1].id
        raise TranslationError("unsupported iteration `%s`" % _u(it))

    # -- the function body -------------------------------------------------------------------------
    def run(self):
        body = [st for st in self.fn.body if not (_is_logging(st) or _is_doc(st))]
        # find the start of the clustering part: `A = set(B[cb])`
        start = None
        for n, st in enumerate(body):
            if isinstance(st, ast.Assign) and len(st.targets) == 1 and _is_name(st.targets[0]) \
                    and isinstance(st.value, ast.Call) and _is_name(st.value.func, "set") and len(st.value.args) == 1 \
                    and isinstance(st.value.args[0], ast.Subscript) and _is_name(st.value.args[0].slice, self.cb):
                start = n
                self.A = st.targets[0].id
                self.B = st.value.args[0].value.id
                break
        if start is None:
            raise TranslationError("`available = set(branches[current_branch])` not found")
        self.prelude(body[:start])
        rest = body[start + 1:]
        if len(rest) != 4:
            raise TranslationError("clustering part: expected first seed, seed loop, allocation loop, recursion; got %d "
                                   "statements (`%s` ...)" % (len(rest), _u(rest[min(4, len(rest) - 1)]) if rest else ""))
        self.first_seed(rest[0])
        self.seed_loop(rest[1])
        self.alloc_loop(rest[2])
        self.recursion(rest[3])
        return self.out

    def prelude(self, stmts):
        """distance table and reverse map are recognised by role; the distance computation itself is data"""
        for st in stmts:
            for node in ast.walk(st):
                if isinstance(node, ast.Assign) and len(node.targets) == 1 and _is_name(node.targets[0]) \
                        and _np_call(node.value, "zeros") and self.D is None:
                    self.D = node.targets[0].id
                if isinstance(node, ast.For) and isinstance(node.iter, ast.Call) and _is_name(node.iter.func, "enumerate") \
                        and len(node.body) == 1 and isinstance(node.body[0], ast.Assign) \
                        and isinstance(node.body[0].targets[0], ast.Subscript) \
                        and isinstance(node.target, ast.Tuple) and len(node.target.elts) == 2:
                    tgt = node.body[0].targets[0]
                    p, m = node.target.elts
                    if _is_name(tgt.value) and _is_name(tgt.slice, m.id) and _is_name(node.body[0].value, p.id) \
                            and isinstance(node.iter.args[0], ast.Subscript) and _is_name(node.iter.args[0].slice, self.cb):
                        self.R = tgt.value.id
        if self.D is None:
            raise TranslationError("distance table `distances = np.zeros(...)` not found")
        if self.R is None:
            raise TranslationError("reverse map `for i, m in enumerate(branches[cb]): reverse[m] = i` not found")

    def first_seed(self, st):
        if not (isinstance(st, ast.Assign) and len(st.targets) == 1 and _is_name(st.targets[0])):
            raise TranslationError("first seed: unsupported statement `%s`" % _u(st))
        self.idx = st.targets[0].id
        v = st.value
        if _np_call(v, "argmax") and len(v.args) == 1 and not v.keywords and _np_call(v.args[0], "amax") \
                and len(v.args[0].args) == 1 and _is_name(v.args[0].args[0], self.D) \
                and len(v.args[0].keywords) == 1 and v.args[0].keywords[0].arg == "axis" \
                and _const(v.args[0].keywords[0].value, 0) is not None:
            self.out["first"] = "argmaxFirst (colMax d ms) ms"
            return
        raise TranslationError("first seed: `%s` is not np.argmax(np.amax(distances, axis=0))" % _u(v))

    # -- seed loop ---------------------------------------------------------------------------------
    def seed_loop(self, st):
        if not (isinstance(st, ast.For) and _is_name(st.target) and self.range_k(st.iter) and not st.orelse):
            raise TranslationError("seed loop: expected `for i in range(options['k'])`, got `%s`" % _u(st))
        i = st.target.id
        body = [s for s in st.body if not _is_logging(s)]
        if len(body) != 1 or not isinstance(body[0], ast.If):
            raise TranslationError("seed loop body: expected one `if idx >= 0: ... else: ...`")
        iff = body[0]
        t = iff.test
        if not (isinstance(t, ast.Compare) and _is_name(t.left, self.idx) and len(t.ops) == 1
                and isinstance(t.ops[0], ast.GtE) and _const(t.comparators[0], 0) is not None):
            raise TranslationError("seed loop: unsupported test `%s`" % _u(t))
        # else: child i := []
        els = [s for s in iff.orelse if not _is_logging(s)]
        if not (len(els) == 1 and isinstance(els[0], ast.Assign) and _is_name(self.child(els[0].targets[0]), i)
                and isinstance(els[0].value, ast.List) and not els[0].value.elts):
            raise TranslationError("seed loop, no seed: expected `branches[cb + (i,)] = []`")
        then = [s for s in iff.body if not _is_logging(s)]
        if len(then) != 6:
            raise TranslationError("seed loop, seed present: expected 6 statements (child, remove, scores, -inf, argmax, "
                                   "stop rule), got %d" % len(then))
        seed = lambda n: isinstance(n, ast.Subscript) and self.is_ms(n.value) and _is_name(n.slice, self.idx)  # noqa: E731
        a0, a1 = then[0], then[1]
        if not (isinstance(a0, ast.Assign) and _is_name(self.child(a0.targets[0]), i) and isinstance(a0.value, ast.List)
                and len(a0.value.elts) == 1 and seed(a0.value.elts[0])):
            raise TranslationError("seed loop: expected `branches[cb + (i,)] = [branches[cb][idx]]`, got `%s`" % _u(a0))
        if not (isinstance(a1, ast.Expr) and isinstance(a1.value, ast.Call) and isinstance(a1.value.func, ast.Attribute)
                and _is_name(a1.value.func.value, self.A) and a1.value.func.attr == "remove"
                and len(a1.value.args) == 1 and seed(a1.value.args[0])):
            raise TranslationError("seed loop: expected `available.remove(branches[cb][idx])`, got `%s`" % _u(a1))
        S = self.scores(then[2])
        self.neg_inf(then[3], S)
        a4 = then[4]
        if not (isinstance(a4, ast.Assign) and _is_name(a4.targets[0], self.idx) and _np_call(a4.value, "argmax")
                and len(a4.value.args) == 1 and _is_name(a4.value.args[0], S) and not a4.value.keywords):
            raise TranslationError("seed loop: expected `idx = np.argmax(min_distances)`, got `%s`" % _u(a4))
        self.stop_rule(then[5], S)

    def member_of(self, pos, env):
        if _is_name(pos) and pos.id in env:
            return env[pos.id]
        raise TranslationError("`%s` is not a position of an enumerated member" % _u(pos))

    def scores(self, st):
        if not (isinstance(st, ast.Assign) and len(st.targets) == 1 and _is_name(st.targets[0])
                and _np_call(st.value, "array") and len(st.value.args) == 1 and isinstance(st.value.args[0], ast.ListComp)):
            raise TranslationError("scores: expected `min_distances = np.array([...])`, got `%s`" % _u(st))
        S = st.targets[0].id
        outer = st.value.args[0]
        if len(outer.generators) != 1 or outer.generators[0].ifs:
            raise TranslationError("scores: unsupported outer comprehension")
        q, mq = self.enum_ms(outer.generators[0])
        e = outer.elt
        if not (isinstance(e, ast.Call) and _is_name(e.func, "min") and len(e.args) == 1 and isinstance(e.args[0], ast.BinOp)
                and isinstance(e.args[0].op, ast.Add) and isinstance(e.args[0].left, ast.List)
                and len(e.args[0].left.elts) == 1 and _np_attr(e.args[0].left.elts[0], "inf")
                and isinstance(e.args[0].right, ast.ListComp)):
            raise TranslationError("scores: element is not `min([np.inf] + [...])`: `%s`" % _u(e))
        inner = e.args[0].right
        if len(inner.generators) != 1:
            raise TranslationError("scores: unsupported inner comprehension")
        p, mp = self.enum_ms(inner.generators[0])
        pos = {p: "j", q: "c"}
        mem = {mp: "j", mq: "c"}
        el = inner.elt
        if not (isinstance(el, ast.Subscript) and _is_name(el.value, self.D) and isinstance(el.slice, ast.Tuple)
                and len(el.slice.elts) == 2):
            raise TranslationError("scores: element `%s` is not distances[., .]" % _u(el))
        row, col = (self.member_of(x, pos) for x in el.slice.elts)
        conds = []
        for cnd in inner.generators[0].ifs:
            parts = cnd.values if isinstance(cnd, ast.BoolOp) and isinstance(cnd.op, ast.And) else [cnd]
            for c in parts:
                if isinstance(c, ast.Compare) and len(c.ops) == 1 and isinstance(c.ops[0], (ast.In, ast.NotIn)) \
                        and _is_name(c.left) and c.left.id in mem and _is_name(c.comparators[0], self.A):
                    conds.append(("!" if isinstance(c.ops[0], ast.NotIn) else "") + "avail.contains " + mem[c.left.id])
                else:
                    raise TranslationError("scores: unsupported condition `%s`" % _u(c))
        conds.sort(key=lambda s: (s[-1] != "j", s))  # canonical order: the conjuncts about j first
        flt = " && ".join(conds) if conds else "true"
        self.out["score"] = "minOver (fun j => d %s %s) (ms.filter (fun j => %s))" % (row, col, flt)
        return S

    def neg_inf(self, st, S):
        ok = isinstance(st, ast.Assign) and len(st.targets) == 1 and isinstance(st.targets[0], ast.Subscript) \
            and _is_name(st.targets[0].value, S) and _np_call(st.targets[0].slice, "where") \
            and len(st.targets[0].slice.args) == 1 and isinstance(st.targets[0].slice.args[0], ast.Compare) \
            and _is_name(st.targets[0].slice.args[0].left, S) and isinstance(st.targets[0].slice.args[0].ops[0], ast.Eq) \
            and _np_attr(st.targets[0].slice.args[0].comparators[0], "inf") \
            and isinstance(st.value, ast.UnaryOp) and isinstance(st.value.op, ast.USub) and _np_attr(st.value.operand, "inf")
        if not ok:
            raise TranslationError("scores: expected `min_distances[np.where(min_distances == np.inf)] = -np.inf`, got `%s`" % _u(st))

    def stop_rule(self, st, S):
        if not (isinstance(st, ast.If) and not st.orelse and len(st.body) == 1 and isinstance(st.body[0], ast.Assign)
                and _is_name(st.body[0].targets[0], self.idx) and _const(st.body[0].value, -1) is not None):
            raise TranslationError("stop rule: expected `if min_distances[idx] <= 0: idx = -1`, got `%s`" % _u(st))
        t = st.test
        if not (isinstance(t, ast.Compare) and len(t.ops) == 1 and isinstance(t.left, ast.Subscript)
                and _is_name(t.left.value, S) and _is_name(t.left.slice, self.idx)):
            raise TranslationError("stop rule: unsupported test `%s`" % _u(t))
        q = _const(t.comparators[0])
        if q is None or q != int(q):
            raise TranslationError("stop rule: unsupported threshold `%s`" % _u(t.comparators[0]))
        qs = "%d" % int(q) if q >= 0 else "(%d)" % int(q)
        if isinstance(t.ops[0], ast.LtE):
            self.out["stop"] = "leNI (seedScoreGen d ms avail c) (some %s)" % qs
        elif isinstance(t.ops[0], ast.Lt):
            self.out["stop"] = "ltNI (seedScoreGen d ms avail c) (some %s)" % qs
        else:
            raise TranslationError("stop rule: unsupported comparison `%s`" % _u(t))

    # -- allocation loop ---------------------------------------------------------------------------
    def alloc_loop(self, st):
        if not (isinstance(st, ast.For) and _is_name(st.target) and _is_name(st.iter, self.A) and not st.orelse):
            raise TranslationError("allocation loop: expected `for member in available`, got `%s`" % _u(st))
        a = st.target.id
        body = [s for s in st.body if not _is_logging(s)]
        if len(body) != 4:
            raise TranslationError("allocation loop: expected 4 statements (two initialisations, scan, append), got %d: "
                                   "`%s`" % (len(body), _u(body[-1])))
        inits = {}
        for s in body[:2]:
            if isinstance(s, ast.Assign) and len(s.targets) == 1 and _is_name(s.targets[0]):
                if _const(s.value, 0) is not None:
                    inits["min_i"] = s.targets[0].id
                elif _np_attr(s.value, "inf"):
                    inits["min_d"] = s.targets[0].id
        if set(inits) != {"min_i", "min_d"}:
            raise TranslationError("allocation loop: expected `min_i = 0` and `min_distance = np.inf`")
        mi, md = inits["min_i"], inits["min_d"]
        scan = body[2]
        if not (isinstance(scan, ast.For) and _is_name(scan.target) and self.range_k(scan.iter) and not scan.orelse):
            raise TranslationError("scan: expected `for i in range(options['k'])`, got `%s`" % _u(scan))
        i = scan.target.id
        sb = [s for s in scan.body if not _is_logging(s)]
        if not (len(sb) == 2 and isinstance(sb[0], ast.Assign) and _is_name(sb[0].targets[0])
                and _is_name(self.child(sb[0].value), i) and isinstance(sb[1], ast.If) and not sb[1].orelse):
            raise TranslationError("scan body: expected `branch2 = branches[cb + (i,)]` and `if len(branch2) > 0:`")
        b2 = sb[0].targets[0].id
        t = sb[1].test
        if not (isinstance(t, ast.Compare) and len(t.ops) == 1 and isinstance(t.ops[0], ast.Gt)
                and isinstance(t.left, ast.Call) and _is_name(t.left.func, "len") and _is_name(t.left.args[0], b2)
                and _const(t.comparators[0], 0) is not None):
            raise TranslationError("scan: unsupported guard `%s`" % _u(t))
        ib = [s for s in sb[1].body if not _is_logging(s)]
        if not (len(ib) == 2 and isinstance(ib[0], ast.Assign) and _is_name(ib[0].targets[0]) and isinstance(ib[1], ast.If)
                and not ib[1].orelse):
            raise TranslationError("scan: expected `distance = ...` and `if distance < min_distance:`")
        dist = ib[0].targets[0].id
        dv = ib[0].value

        def who(n):
            if isinstance(n, ast.Subscript) and _is_name(n.value, self.R):
                if _is_name(n.slice, a):
                    return "a"
                if isinstance(n.slice, ast.Subscript) and _is_name(n.slice.value, b2) and _const(n.slice.slice, 0) is not None:
                    return "r"
            raise TranslationError("scan: `%s` is neither reverse[member] nor reverse[branch2[0]]" % _u(n))

        if not (isinstance(dv, ast.Subscript) and _is_name(dv.value, self.D) and isinstance(dv.slice, ast.Tuple)
                and len(dv.slice.elts) == 2):
            raise TranslationError("scan: `%s` is not distances[., .]" % _u(dv))
        dterm = "d %s %s" % (who(dv.slice.elts[0]), who(dv.slice.elts[1]))
        t2 = ib[1].test
        if not (isinstance(t2, ast.Compare) and len(t2.ops) == 1 and _is_name(t2.left, dist)
                and _is_name(t2.comparators[0], md) and isinstance(t2.ops[0], (ast.Lt, ast.LtE))):
            raise TranslationError("scan: unsupported comparison `%s`" % _u(t2))
        cmp = "ltInf" if isinstance(t2.ops[0], ast.Lt) else "leInf"
        upd = {}
        for s in ib[1].body:
            if isinstance(s, ast.Assign) and len(s.targets) == 1 and _is_name(s.targets[0], md) and _is_name(s.value, dist):
                upd["d"] = True
            elif isinstance(s, ast.Assign) and len(s.targets) == 1 and _is_name(s.targets[0], mi) and _is_name(s.value, i):
                upd["i"] = True
            elif not _is_logging(s):
                raise TranslationError("scan: unsupported update `%s`" % _u(s))
        if set(upd) != {"d", "i"}:
            raise TranslationError("scan: both `min_distance = distance` and `min_i = i` are expected")
        self.out["step"] = "if %s (%s) st.2 then (i, some (%s)) else st" % (cmp, dterm, dterm)
        app = body[3]
        if not (isinstance(app, ast.Expr) and isinstance(app.value, ast.Call) and isinstance(app.value.func, ast.Attribute)
                and app.value.func.attr == "append" and _is_name(self.child(app.value.func.value), mi)
                and len(app.value.args) == 1 and _is_name(app.value.args[0], a)):
            raise TranslationError("allocation: expected `branches[cb + (min_i,)].append(member)`, got `%s`" % _u(app))

    def recursion(self, st):
        ok = isinstance(st, ast.For) and _is_name(st.target) and self.range_k(st.iter) and len(st.body) == 1 \
            and isinstance(st.body[0], ast.Expr) and isinstance(st.body[0].value, ast.Call) \
            and _is_name(st.body[0].value.func, self.fn.name) and len(st.body[0].value.args) == 1 \
            and isinstance(st.body[0].value.args[0], ast.BinOp) and _is_name(st.body[0].value.args[0].left, self.cb) \
            and isinstance(st.body[0].value.args[0].right, ast.Tuple) and len(st.body[0].value.args[0].right.elts) == 1 \
            and _is_name(st.body[0].value.args[0].right.elts[0], st.target.id)
        if not ok:
            raise TranslationError("recursion: expected `for i in range(options['k']): branch(cb + (i,))`, got `%s`" % _u(st))


def _const_str(node):
    return node.value if isinstance(node, ast.Constant) and isinstance(node.value, str) else None


def translate_cluster():
    path = os.path.join(REPO, "src", "rtctools", "optimization", "control_tree_mixin.py")
    outer = _find_method(ast.parse(open(path).read()), "ControlTreeMixin", "discretize_controls")
    inner = [n for n in outer.body if isinstance(n, ast.FunctionDef)]
    if len(inner) != 1:
        raise TranslationError("expected exactly one nested function in discretize_controls")
    return _Tr(inner[0]).run()


GEN_TEMPLATE = """import RtcVerif.Model.C07Ref
import RtcVerif.Proofs.C07Ref
/-!
GENERATED on every run of the C07 check by harness/translate_c07.py from the nested function
`branch()` of `ControlTreeMixin.discretize_controls` in
/repo/src/rtctools/optimization/control_tree_mixin.py.  Do not edit.
The `…Gen` definitions are the source statements read through the table in the translator's header;
the theorems tie them to the functions the C07 property theorems are about.
-/
namespace RtcVerif.Gen
open RtcVerif.C07

/-- `idx = np.argmax(np.amax(distances, axis=0))` -/
def firstSeedGen (d : Dist) (ms : List Nat) : Option Nat :=
  %(first)s

/-- entry of `min_distances` for member `c` -/
def seedScoreGen (d : Dist) (ms avail : List Nat) (c : Nat) : Option Rat :=
  %(score)s

/-- `idx = np.argmax(min_distances)` and the stop rule -/
def nextSeedGen (d : Dist) (ms avail : List Nat) : Option Nat :=
  match argmaxNI (seedScoreGen d ms avail) ms with
  | none => none
  | some c => if %(stop)s then none else some c

/-- body of the scan `for i in range(k)` for child `i` with head `h` -/
def scanStepGen (d : Dist) (a : Nat) (i : Nat) (h : Option Nat) (st : Nat × Option Rat) : Nat × Option Rat :=
  match h with
  | none => st
  | some r => %(step)s

def scanFromGen (d : Dist) (a : Nat) : List (Option Nat) → Nat → Nat × Option Rat → Nat × Option Rat
  | [], _, st => st
  | h :: t, i, st => scanFromGen d a t (i + 1) (scanStepGen d a i h st)

/-- `min_i` after the scan (from `min_i = 0`, `min_distance = np.inf`) -/
def scanGen (d : Dist) (a : Nat) (heads : List (Option Nat)) : Nat := (scanFromGen d a heads 0 (0, none)).1

/-- the first representative is the model's: `selectReps` starts from it -/
theorem firstSeedGen_eq_model (d : Dist) (ms : List Nat) (k : Nat) :
    firstSeedGen d ms = firstSeedRef d ms ∧
    selectReps d ms (k + 1) = (match firstSeedGen d ms with
                               | none => []
                               | some r => moreReps d ms k [r]) :=
  ⟨rfl, selectReps_eq_firstSeed d ms k⟩

/-- the seed loop continues exactly as the model's `moreReps` does (`available` = the members of
    the branch that are not representatives yet) -/
theorem nextSeedGen_eq_model (d : Dist) (ms reps : List Nat) (n : Nat) (hms : ms.Nodup)
    (hnd : reps.Nodup) (hsub : ∀ r ∈ reps, r ∈ ms) (hne : reps ≠ []) :
    moreReps d ms (n + 1) reps =
      match nextSeedGen d ms (ms.filter (fun a => !reps.contains a)) with
      | none => reps
      | some c => moreReps d ms n (reps ++ [c]) := by
  have h : nextSeedGen d ms (ms.filter (fun a => !reps.contains a)) = nextSeed d ms reps :=
    nextSeedRef_eq_model d ms reps hms hnd hsub hne
  rw [h]
  exact moreReps_succ_eq d ms n reps

/-- the allocation scan picks the model's nearest representative (children heads = the
    representatives, then empty children) -/
theorem scanGen_eq_model (d : Dist) (a : Nat) (reps : List Nat) (m : Nat) :
    scanGen d a (reps.map some ++ List.replicate m none) = nearestRep d reps a := by
  have hstep : ∀ i h st, scanStepGen d a i h st = scanStep d a i h st := by
    intro i h st
    cases h <;> rfl
  have hfrom : ∀ (l : List (Option Nat)) i st, scanFromGen d a l i st = scanFrom d a l i st := by
    intro l
    induction l with
    | nil => intro i st; rfl
    | cons h t ih =>
      intro i st
      rw [scanFromGen, scanFrom_cons, hstep, ih]
  unfold scanGen
  rw [hfrom]
  exact scanRef_eq_nearestRep d a reps m

end RtcVerif.Gen
"""

THEOREMS = ["firstSeedGen_eq_model", "nextSeedGen_eq_model", "scanGen_eq_model"]


def gen_cluster(c):
    """(re)generate lean/RtcVerif/Gen/ControlTreeCluster.lean; returns the extra obligations for c.prove"""
    gdir = os.path.join(LEAN_DIR, "RtcVerif", "Gen")
    os.makedirs(gdir, exist_ok=True)
    path = os.path.join(gdir, "ControlTreeCluster.lean")
    try:
        out = translate_cluster()
    except TranslationError as e:
        c.broken.append(("translator: ControlTreeMixin.discretize_controls.branch", str(e)))
        return []
    except (OSError, SyntaxError) as e:
        c.broken.append(("translator: ControlTreeMixin.discretize_controls.branch", "cannot read the source: %s" % e))
        return []
    text = GEN_TEMPLATE % out
    old = open(path).read() if os.path.exists(path) else None
    if old != text:
        tmp = path + ".tmp%d" % os.getpid()
        with open(tmp, "w") as f:
            f.write(text)
        os.replace(tmp, path)
    return [("RtcVerif.Gen.ControlTreeCluster", "RtcVerif.Gen", THEOREMS)]


# =================================================================================================
# distance fill + control-index allocation  (Gen/ControlTreeAlloc.lean)
# =================================================================================================
"""
Second generated module: `gen_alloc(c)` reads

  (1) the distance fill of `branch()` (everything before `available = set(branches[cb])`),
  (2) `ControlTreeMixin.discretize_control`,
  (3) `CollocatedIntegratedOptimizationProblem.discretize_control` and the member loop of its
      `discretize_controls`,
  (4) the member loops of `CollocatedIntegratedOptimizationProblem.transcribe()` (uses of per-member data),
  (5) the symbol-cache key of `CollocatedIntegratedOptimizationProblem.state_at()`

and writes `lean/RtcVerif/Gen/ControlTreeAlloc.lean`.  Statements are executed SYMBOLICALLY: local names
are bound to Lean terms, so renamed locals, re-ordered independent assignments and commuted `c + x`
give the same output; anything outside the table raises TranslationError.

Table "Python construct -> model term" (reference definitions: Model/C07Code.lean):

  self.__branching_times[e]                      `btAt t0 bts e`        (BT = [t0] ++ branching_times ++ [inf]; none = inf)
  len(current_branch) / len(branch)              `L` / `br.1.length`
  e + c, c + e (c a literal)                     `(e + c)`
  X >= b, X > b, X < b, X <= b (X a stamp array) `geBT t b`, `gtBT t b`, `ltBT t b`, `leBT t b`   per stamp t
  np.logical_and(A, B)                           `fun t => A && B` (lower-bound conjunct first), mapped over the stamps of X
  self.constant_inputs(ensemble_member=e)[fv]    the series of forecast variable `v` as member e has it
  S.times / S.values                             `fc.T v e` / `fc.F v e`
  V[els]                                         `selMask V els`
  V - W                                          `subVec V W`
  np.linalg.norm(V)                              `fc.norm2 V`           (external numerics: a parameter)
  for fv in options["forecast_variables"]        `v` in `List.range nv`
  for i, member_i in enumerate(branches[cb])     position i, member `ms.getD i 0`; the position used as ROW index of
                                                 `distances[., .]` is `p`, the COLUMN index is `q`
  distances = np.zeros((n, n))                   initial value 0 of the accumulation
  distances[i, j] += e  / = e / -= e             `acc + e` / `e` / `acc - e`  folded over the forecast variables
  np.zeros(len(times), dtype=np.intNN)           `List.replicate ts.length 0`; index width NN-1 bits (`indexBitsGen`)
  for branch, members in self.__branches.items() fold over the dictionary entries `br = (branch, members)` in dictionary order
  if ensemble_member not in members: continue    `if !(br.2.contains m) then st`
  np.count_nonzero(els)                          `els.count true`
  try: A[els] = CACHE[(variable, branch)]        `match lookupB st.cache br.1 with | some blk => writeMask A els blk`
  except KeyError: ...                           `| none => ...`
  list(range(a, a + n))                          `List.range' a n`
  A[els] = V                                     `writeMask A els V`
  CACHE[(variable, branch)] = A[els]             `(br.1, readMask A els) :: st.cache`
  offset += n                                    `offset + n`
  return control_indices                         the array (and the cache)
  base class: try: return CACHE[variable]        `match cache with | some s => (s, some s)`
  slice(a, b)                                    the pair `(a, b)`
  CACHE[variable] = s ; return s                 `(s, some s)`
  for ensemble_member in range(self.ensemble_size):           one step `ctrlStepGen` on `(count, cache, indices)`
  ci = self.discretize_control(variable, ensemble_member, times, count)     `dc m count cache`
  indices[ensemble_member][variable] = ci        `out ++ [ci]`  (index must be the loop member)
  ci.stop if isinstance(ci, slice) else int(np.max(ci)) + c     `stopSliceGen` = `s.2`, `stopArrGen` = `arr.foldl max 0 + c`
  count = max(count, stop)  /  count = stop      `max count (stop ci)` / `stop ci`
  transcribe(): inside `for ensemble_member in range(self.ensemble_size)` every per-member accessor
  (`self.parameters(e)`, `self.constant_inputs(e)`, `self.history(e)`, `self.seed(e)`, `self.objective(e)`,
  `self.constraints(e)`, `self.path_constraints(e)`, `self.ensemble_member_probability(e)`,
  `self.extra_variable(_, e)`, `self.state_vector(_, ensemble_member=e)`, `ensemble_store[e]`,
  `ensemble_aggregate[_][:, e]`, `self.__indices[e]`, `self.__indices_as_lists[e]`, `self.__integrators[e]`,
  `self.__func_initial_inputs[e]`, `self.__func_map_args[e]`, `ensemble_parameter_values[e]`)
                                                 one entry `(accessor, own)` of `memberUsesGen`, own = (e is the loop member)
  state_at(): name = "..{}..".format(a1, .., an) ; if extrapolate: name += "E"       the cache key `symbolKeyGen a` = the tuple
                                                 of the format arguments: `variable` -> `a.var`, `ensemble_member` ->
                                                 `a.member`, `t - self.initial_time` -> `a.dt`, `"S" if scaled else ""` ->
                                                 `a.scaled`, the suffix under `if extrapolate` -> `a.extrapolate`
  try: return self.__symbol_cache[name] except KeyError: ... self.__symbol_cache[name] = sym ; return sym
                                                 `memoGet symbolKeyGen build` (the body that builds `sym` is `build`)
"""


def _attr_self(node, suffix):
    """self.<...suffix> (private names are written unmangled in the source)"""
    return isinstance(node, ast.Attribute) and _is_name(node.value, "self") and node.attr == suffix


def _plus(node):
    """e + c / c + e with an int literal c -> (e, c); else None"""
    if isinstance(node, ast.BinOp) and isinstance(node.op, ast.Add):
        cl, cr = _const(node.left), _const(node.right)
        if cr is not None and cl is None and cr == int(cr) and cr >= 0:
            return node.left, int(cr)
        if cl is not None and cr is None and cl == int(cl) and cl >= 0:
            return node.right, int(cl)
    return None


class _Sym:
    """expressions shared by the fill and by discretize_control"""

    def __init__(self, depth_name, depth_term):
        self.depth_name = depth_name   # python name whose len() is the depth
        self.depth_term = depth_term   # Lean term of that depth
        self.env = {}                  # python local -> ("nat"|"bt"|"mask"|"series"|"vec"|"rat", lean term[, extra])

    def nat(self, node):
        pl = _plus(node)
        if pl:
            return "(%s + %d)" % (self.nat(pl[0]), pl[1])
        if isinstance(node, ast.Call) and _is_name(node.func, "len") and len(node.args) == 1 \
                and _is_name(node.args[0], self.depth_name):
            return self.depth_term
        if _is_name(node) and node.id in self.env and self.env[node.id][0] == "nat":
            return self.env[node.id][1]
        raise TranslationError("unsupported index expression `%s`" % _u(node))

    def bt(self, node):
        if _is_name(node) and node.id in self.env and self.env[node.id][0] == "bt":
            return self.env[node.id][1]
        if isinstance(node, ast.Subscript) and _attr_self(node.value, "__branching_times"):
            return "(btAt t0 bts %s)" % self.nat(node.slice)
        raise TranslationError("`%s` is not an entry of self.__branching_times" % _u(node))

    def mask(self, node, stamps_of):
        """np.logical_and(X >= b0, X < b1) -> (lean term of the per-stamp predicate body, stamps term)"""
        if _is_name(node) and node.id in self.env and self.env[node.id][0] == "mask":
            return self.env[node.id][1]
        if not (_np_call(node, "logical_and") and len(node.args) == 2 and not node.keywords):
            raise TranslationError("mask: `%s` is not np.logical_and(., .)" % _u(node))
        parts, stamps = [], None
        for a in node.args:
            if not (isinstance(a, ast.Compare) and len(a.ops) == 1):
                raise TranslationError("mask: unsupported conjunct `%s`" % _u(a))
            st = stamps_of(a.left)
            if stamps is not None and st != stamps:
                raise TranslationError("mask: conjuncts compare different stamp arrays")
            stamps = st
            fn = {ast.GtE: "geBT", ast.Gt: "gtBT", ast.Lt: "ltBT", ast.LtE: "leBT"}.get(type(a.ops[0]))
            if fn is None:
                raise TranslationError("mask: unsupported comparison `%s`" % _u(a))
            parts.append((0 if fn in ("geBT", "gtBT") else 1, "%s t %s" % (fn, self.bt(a.comparators[0]))))
        parts.sort(key=lambda x: x[0])
        return "(%s.map (fun t => %s && %s))" % (stamps, parts[0][1], parts[1][1])


# -- (1) the distance fill ---------------------------------------------------------------------------

def translate_fill(inner):
    """`inner` = the FunctionDef of branch(); returns {"fill": lean term of the accumulated entry}"""
    cb = inner.args.args[0].arg
    body = [st for st in inner.body if not (_is_logging(st) or _is_doc(st))]
    start = None
    for n, st in enumerate(body):
        if isinstance(st, ast.Assign) and len(st.targets) == 1 and _is_name(st.targets[0]) \
                and isinstance(st.value, ast.Call) and _is_name(st.value.func, "set"):
            start = n
            break
    if start is None:
        raise TranslationError("fill: `available = set(branches[current_branch])` not found")
    sym = _Sym(cb, "L")
    D = None
    B = None
    R = None
    fill = None

    def is_ms(node):
        return isinstance(node, ast.Subscript) and _is_name(node.value) and _is_name(node.slice, cb) \
            and (B is None or node.value.id == B)

    for st in body[:start]:
        # guards `if <cmp>: return`
        if isinstance(st, ast.If) and not st.orelse and all(isinstance(s, ast.Return) or _is_doc(s) or
                                                            isinstance(s, ast.Expr) for s in st.body) \
                and any(isinstance(s, ast.Return) for s in st.body):
            continue
        if isinstance(st, ast.Assign) and len(st.targets) == 1 and _is_name(st.targets[0]):
            name, v = st.targets[0].id, st.value
            if isinstance(v, ast.Call) and _is_name(v.func, "len") and len(v.args) == 1 and is_ms(v.args[0]):
                B = v.args[0].value.id
                sym.env[name] = ("size", "ms.length")
                continue
            if _np_call(v, "zeros") and len(v.args) == 1 and isinstance(v.args[0], ast.Tuple) and len(v.args[0].elts) == 2 \
                    and all(_is_name(e) and sym.env.get(e.id, ("",))[0] == "size" for e in v.args[0].elts) and not v.keywords:
                D = name
                continue
            if isinstance(v, ast.Dict) and not v.keys:
                R = name
                continue
            if isinstance(v, ast.Subscript) and _attr_self(v.value, "__branching_times"):
                sym.env[name] = ("bt", sym.bt(v))
                continue
            raise TranslationError("fill: unsupported assignment `%s`" % _u(st))
        if isinstance(st, ast.For) and isinstance(st.iter, ast.Call) and _is_name(st.iter.func, "enumerate") \
                and len(st.body) == 1 and isinstance(st.body[0], ast.Assign) \
                and isinstance(st.body[0].targets[0], ast.Subscript) and _is_name(st.body[0].targets[0].value, R):
            continue  # the reverse map (checked by the cluster translator)
        if isinstance(st, ast.For) and _is_name(st.target) and isinstance(st.iter, ast.Subscript) \
                and _is_name(st.iter.value, "options") and _const_str(st.iter.slice) == "forecast_variables":
            if fill is not None:
                raise TranslationError("fill: more than one loop over the forecast variables")
            if D is None:
                raise TranslationError("fill: the distance table is not initialised with np.zeros((n, n)) before the fill")
            fill = _fill_loop(st, sym, D, is_ms)
            continue
        raise TranslationError("fill: unsupported statement `%s`" % _u(st))
    if fill is None:
        raise TranslationError("fill: loop over options['forecast_variables'] not found")
    return {"fill": fill}


def _fill_loop(loop, sym, D, is_ms):
    fv = loop.target.id
    env = dict(sym.env)
    sym = _Sym(sym.depth_name, sym.depth_term)
    sym.env = env
    members = {}   # python member name -> position name
    result = []

    def series(node):
        """self.constant_inputs(ensemble_member=e)[fv] -> member term"""
        if _is_name(node) and node.id in sym.env and sym.env[node.id][0] == "series":
            return sym.env[node.id][1]
        if isinstance(node, ast.Subscript) and _is_name(node.slice, fv) and isinstance(node.value, ast.Call) \
                and _attr_self(node.value.func, "constant_inputs"):
            call = node.value
            if len(call.args) == 1 and not call.keywords:
                e = call.args[0]
            elif not call.args and len(call.keywords) == 1 and call.keywords[0].arg == "ensemble_member":
                e = call.keywords[0].value
            else:
                raise TranslationError("fill: unsupported call `%s`" % _u(call))
            if _const(e) is not None and _const(e) == int(_const(e)) and _const(e) >= 0:
                return "%d" % int(_const(e))
            if _is_name(e) and e.id in members:
                return "@" + e.id        # resolved to p / q once the target indices are known
            raise TranslationError("fill: `%s` is neither a literal member nor a member of the branch" % _u(e))
        raise TranslationError("fill: `%s` is not a forecast series" % _u(node))

    def stamps_of(node):
        if isinstance(node, ast.Attribute) and node.attr == "times":
            return "(fc.T v %s)" % series(node.value)
        raise TranslationError("fill: `%s` is not the time stamps of a forecast series" % _u(node))

    def vec(node):
        if isinstance(node, ast.BinOp) and isinstance(node.op, ast.Sub):
            return "(subVec %s %s)" % (vec(node.left), vec(node.right))
        if isinstance(node, ast.Subscript) and isinstance(node.value, ast.Attribute) and node.value.attr == "values":
            return "(selMask (fc.F v %s) %s)" % (series(node.value.value), sym.mask(node.slice, stamps_of))
        raise TranslationError("fill: unsupported vector expression `%s`" % _u(node))

    def walk(stmts):
        for st in stmts:
            if _is_logging(st) or _is_doc(st):
                continue
            if isinstance(st, ast.Assign) and len(st.targets) == 1 and _is_name(st.targets[0]):
                name, v = st.targets[0].id, st.value
                if _np_call(v, "logical_and"):
                    sym.env[name] = ("mask", sym.mask(v, stamps_of))
                else:
                    sym.env[name] = ("series", series(v))
                continue
            if isinstance(st, ast.For) and isinstance(st.iter, ast.Call) and _is_name(st.iter.func, "enumerate") \
                    and len(st.iter.args) == 1 and is_ms(st.iter.args[0]) and isinstance(st.target, ast.Tuple) \
                    and len(st.target.elts) == 2 and all(_is_name(e) for e in st.target.elts) and not st.orelse:
                pos, mem = st.target.elts[0].id, st.target.elts[1].id
                if len(members) >= 2:
                    raise TranslationError("fill: more than two nested loops over the members")
                members[mem] = pos
                walk(st.body)
                continue
            if isinstance(st, (ast.AugAssign, ast.Assign)):
                tgt = st.target if isinstance(st, ast.AugAssign) else st.targets[0]
                if not (isinstance(tgt, ast.Subscript) and _is_name(tgt.value, D) and isinstance(tgt.slice, ast.Tuple)
                        and len(tgt.slice.elts) == 2 and all(_is_name(e) for e in tgt.slice.elts)):
                    raise TranslationError("fill: unsupported target `%s`" % _u(tgt))
                if len(members) != 2 or result:
                    raise TranslationError("fill: the table is written outside the double loop over the members / twice")
                row, col = (e.id for e in tgt.slice.elts)
                posmap = {}
                for mem, pos in members.items():
                    if pos == row:
                        posmap[mem] = "(ms.getD p 0)"
                    if pos == col:
                        posmap.setdefault(mem, "(ms.getD q 0)")
                if len(posmap) != 2 or row == col:
                    raise TranslationError("fill: `%s` is not indexed by the two loop positions" % _u(tgt))
                v = st.value
                if not (_np_call(v, "norm") or (isinstance(v, ast.Call) and isinstance(v.func, ast.Attribute)
                                                and v.func.attr == "norm" and isinstance(v.func.value, ast.Attribute)
                                                and v.func.value.attr == "linalg" and _is_name(v.func.value.value, "np"))):
                    raise TranslationError("fill: `%s` is not np.linalg.norm(.)" % _u(v))
                if len(v.args) != 1 or v.keywords:
                    raise TranslationError("fill: np.linalg.norm with extra arguments (not the 2-norm of the table)")
                term = "fc.norm2 %s" % vec(v.args[0])
                for mem, t in posmap.items():
                    term = term.replace("@" + mem + " ", t + " ").replace("@" + mem + ")", t + ")")
                if "@" in term:
                    raise TranslationError("fill: unresolved member in `%s`" % term)
                if isinstance(st, ast.Assign):
                    result.append(term)
                elif isinstance(st.op, ast.Add):
                    result.append("acc + %s" % term)
                elif isinstance(st.op, ast.Sub):
                    result.append("acc - %s" % term)
                else:
                    raise TranslationError("fill: unsupported accumulation `%s`" % _u(st))
                continue
            raise TranslationError("fill: unsupported statement `%s`" % _u(st))

    walk(loop.body)
    if len(result) != 1:
        raise TranslationError("fill: the double loop does not write the table")
    return result[0]


# -- (2) ControlTreeMixin.discretize_control -------------------------------------------------------------

def translate_tree_control(fn):
    args = [a.arg for a in fn.args.args]
    if len(args) != 5:
        raise TranslationError("discretize_control(self, variable, ensemble_member, times, offset) expected")
    _, variable, member, times, offset = args
    body = [st for st in fn.body if not (_is_logging(st) or _is_doc(st))]
    if len(body) != 3:
        raise TranslationError("tree discretize_control: expected array creation, loop over the branches, return; got %d "
                               "statements" % len(body))
    z = body[0]
    if not (isinstance(z, ast.Assign) and len(z.targets) == 1 and _is_name(z.targets[0]) and _np_call(z.value, "zeros")
            and len(z.value.args) == 1 and isinstance(z.value.args[0], ast.Call) and _is_name(z.value.args[0].func, "len")
            and _is_name(z.value.args[0].args[0], times) and len(z.value.keywords) == 1
            and z.value.keywords[0].arg == "dtype" and isinstance(z.value.keywords[0].value, ast.Attribute)
            and _is_name(z.value.keywords[0].value.value, "np")):
        raise TranslationError("tree discretize_control: expected `control_indices = np.zeros(len(times), dtype=np.intNN)`, "
                               "got `%s`" % _u(z))
    arr_name = z.targets[0].id
    dt = z.value.keywords[0].value.attr
    bits = {"int8": 7, "int16": 15, "int32": 31, "int64": 63}.get(dt)
    if bits is None:
        raise TranslationError("tree discretize_control: unsupported index dtype np.%s" % dt)
    loop = body[1]
    if not (isinstance(loop, ast.For) and isinstance(loop.target, ast.Tuple) and len(loop.target.elts) == 2
            and all(_is_name(e) for e in loop.target.elts) and isinstance(loop.iter, ast.Call)
            and isinstance(loop.iter.func, ast.Attribute) and loop.iter.func.attr == "items"
            and _attr_self(loop.iter.func.value, "__branches") and not loop.iter.args and not loop.orelse):
        raise TranslationError("tree discretize_control: expected `for branch, members in self.__branches.items()`, got `%s`"
                               % _u(loop))
    br, mems = (e.id for e in loop.target.elts)
    ret = body[2]
    if not (isinstance(ret, ast.Return) and _is_name(ret.value, arr_name)):
        raise TranslationError("tree discretize_control: expected `return control_indices`, got `%s`" % _u(ret))
    lb = [st for st in loop.body if not (_is_logging(st) or _is_doc(st))]
    g = lb[0] if lb else None
    if not (isinstance(g, ast.If) and not g.orelse and len(g.body) == 1 and isinstance(g.body[0], ast.Continue)
            and isinstance(g.test, ast.Compare) and len(g.test.ops) == 1 and isinstance(g.test.ops[0], ast.NotIn)
            and _is_name(g.test.left, member) and _is_name(g.test.comparators[0], mems)):
        raise TranslationError("tree discretize_control: expected `if ensemble_member not in members: continue` first")
    sym = _Sym(br, "br.1.length")

    def stamps_of(node):
        if _is_name(node, times):
            return "ts"
        raise TranslationError("tree discretize_control: `%s` is not the time stamps argument" % _u(node))

    def is_key(node):
        return isinstance(node, ast.Subscript) and _attr_self(node.value, "__discretize_controls_cache") \
            and isinstance(node.slice, ast.Tuple) and len(node.slice.elts) == 2 \
            and _is_name(node.slice.elts[0], variable) and _is_name(node.slice.elts[1], br)

    def is_arr_mask(node):
        return isinstance(node, ast.Subscript) and _is_name(node.value, arr_name)

    state = {"arr": "st.arr", "off": "st.offset", "cache": "st.cache"}

    def nat(node):
        if _is_name(node, offset):
            return state["off"]
        if _is_name(node) and node.id in sym.env and sym.env[node.id][0] == "nat":
            return sym.env[node.id][1]
        pl = None
        if isinstance(node, ast.BinOp) and isinstance(node.op, ast.Add):
            return "(%s + %s)" % (nat(node.left), nat(node.right))
        raise TranslationError("tree discretize_control: unsupported count expression `%s`" % _u(node))

    def run(stmts, st_):
        for s in stmts:
            if _is_logging(s) or _is_doc(s):
                continue
            if isinstance(s, ast.Assign) and len(s.targets) == 1 and _is_name(s.targets[0]):
                name, v = s.targets[0].id, s.value
                if name in (arr_name, offset, variable, member, times):
                    raise TranslationError("tree discretize_control: `%s` is re-bound" % name)
                if isinstance(v, ast.Subscript) and _attr_self(v.value, "__branching_times"):
                    sym.env[name] = ("bt", sym.bt(v))
                elif _np_call(v, "logical_and"):
                    sym.env[name] = ("mask", sym.mask(v, stamps_of))
                elif _np_call(v, "count_nonzero") and len(v.args) == 1 and not v.keywords:
                    sym.env[name] = ("nat", "(%s.count true)" % sym.mask(v.args[0], stamps_of))
                else:
                    raise TranslationError("tree discretize_control: unsupported assignment `%s`" % _u(s))
                continue
            if isinstance(s, ast.Assign) and len(s.targets) == 1 and is_arr_mask(s.targets[0]):
                els = sym.mask(s.targets[0].slice, stamps_of)
                v = s.value
                if isinstance(v, ast.Call) and _is_name(v.func, "list") and len(v.args) == 1 \
                        and isinstance(v.args[0], ast.Call) and _is_name(v.args[0].func, "range") and len(v.args[0].args) == 2:
                    a, b = v.args[0].args
                    if not (isinstance(b, ast.BinOp) and isinstance(b.op, ast.Add)):
                        raise TranslationError("tree discretize_control: range(a, b) with b not of the form a + n")
                    if ast.dump(b.left) == ast.dump(a):
                        n = b.right
                    elif ast.dump(b.right) == ast.dump(a):
                        n = b.left
                    else:
                        raise TranslationError("tree discretize_control: range(a, b) with b not of the form a + n")
                    st_["arr"] = "(writeMask %s %s (List.range' %s %s))" % (st_["arr"], els, nat(a), nat(n))
                else:
                    raise TranslationError("tree discretize_control: unsupported fresh block `%s`" % _u(v))
                continue
            if isinstance(s, ast.Assign) and len(s.targets) == 1 and is_key(s.targets[0]):
                v = s.value
                if not is_arr_mask(v):
                    raise TranslationError("tree discretize_control: the cache must store control_indices[els], got `%s`" % _u(v))
                st_["cache"] = "((br.1, readMask %s %s) :: %s)" % (st_["arr"], sym.mask(v.slice, stamps_of), st_["cache"])
                continue
            if isinstance(s, ast.AugAssign) and _is_name(s.target, offset) and isinstance(s.op, ast.Add):
                st_["off"] = "(%s + %s)" % (st_["off"], nat(s.value))
                continue
            raise TranslationError("tree discretize_control: unsupported statement `%s`" % _u(s))

    pre = lb[1:-1]
    run(pre, state)
    if state != {"arr": "st.arr", "off": "st.offset", "cache": "st.cache"}:
        raise TranslationError("tree discretize_control: state is written before the cache lookup")
    tr = lb[-1] if len(lb) >= 2 else None
    if not (isinstance(tr, ast.Try) and len(tr.handlers) == 1 and not tr.orelse and not tr.finalbody
            and _is_name(tr.handlers[0].type, "KeyError") and len(tr.body) == 1):
        raise TranslationError("tree discretize_control: expected `try: ... except KeyError: ...` last in the loop body")
    hit = tr.body[0]
    if not (isinstance(hit, ast.Assign) and len(hit.targets) == 1 and is_arr_mask(hit.targets[0]) and is_key(hit.value)):
        raise TranslationError("tree discretize_control: expected `control_indices[els] = cache[(variable, branch)]`, got `%s`"
                               % _u(hit))
    hit_term = "⟨writeMask st.arr %s blk, st.offset, st.cache⟩" % sym.mask(hit.targets[0].slice, stamps_of)
    miss = dict(state)
    run(tr.handlers[0].body, miss)
    miss_term = "⟨%s, %s, %s⟩" % (miss["arr"], miss["off"], miss["cache"])
    return {"hit": hit_term, "miss": miss_term, "bits": bits}


# -- (3) the base class -------------------------------------------------------------------------------

def translate_base_control(fn):
    args = [a.arg for a in fn.args.args]
    if len(args) != 5:
        raise TranslationError("base discretize_control(self, variable, ensemble_member, times, offset) expected")
    _, variable, member, times, offset = args
    body = [st for st in fn.body if not (_is_logging(st) or _is_doc(st))]
    if not (len(body) == 1 and isinstance(body[0], ast.Try) and len(body[0].handlers) == 1 and not body[0].orelse
            and not body[0].finalbody and _is_name(body[0].handlers[0].type, "KeyError") and len(body[0].body) == 1):
        raise TranslationError("base discretize_control: expected `try: return cache[variable] except KeyError: ...`")

    def is_key(node):
        return isinstance(node, ast.Subscript) and _attr_self(node.value, "__discretize_control_cache") \
            and _is_name(node.slice, variable)

    hit = body[0].body[0]
    if not (isinstance(hit, ast.Return) and is_key(hit.value)):
        raise TranslationError("base discretize_control: expected `return self.__discretize_control_cache[variable]`")
    env = {}
    cache = "none"
    ret = None

    def nat(node):
        if _is_name(node, offset):
            return "offset"
        if isinstance(node, ast.Call) and _is_name(node.func, "len") and len(node.args) == 1 and _is_name(node.args[0], times):
            return "n"
        if isinstance(node, ast.BinOp) and isinstance(node.op, ast.Add):
            return "%s + %s" % (nat(node.left), nat(node.right))
        c = _const(node)
        if c is not None and c == int(c) and c >= 0:
            return "%d" % int(c)
        raise TranslationError("base discretize_control: unsupported expression `%s`" % _u(node))

    def val(node):
        if _is_name(node) and node.id in env:
            return env[node.id]
        if isinstance(node, ast.Call) and _is_name(node.func, "slice") and len(node.args) == 2 and not node.keywords:
            return "(%s, %s)" % (nat(node.args[0]), nat(node.args[1]))
        raise TranslationError("base discretize_control: unsupported value `%s`" % _u(node))

    for s in body[0].handlers[0].body:
        if _is_logging(s) or _is_doc(s):
            continue
        if ret is not None:
            raise TranslationError("base discretize_control: statement after return")
        if isinstance(s, ast.Assign) and len(s.targets) == 1 and _is_name(s.targets[0]):
            env[s.targets[0].id] = val(s.value)
        elif isinstance(s, ast.Assign) and len(s.targets) == 1 and is_key(s.targets[0]):
            cache = "some %s" % val(s.value)
        elif isinstance(s, ast.Return):
            ret = val(s.value)
        else:
            raise TranslationError("base discretize_control: unsupported statement `%s`" % _u(s))
    if ret is None:
        raise TranslationError("base discretize_control: the KeyError branch does not return")
    return {"bmiss": "(%s, %s)" % (ret, cache)}


def translate_base_loop(fn):
    """member loop of the base discretize_controls"""
    body = [st for st in fn.body if not (_is_logging(st) or _is_doc(st))]
    count = None
    vloop = None
    for st in body:
        if isinstance(st, ast.Assign) and len(st.targets) == 1 and _is_name(st.targets[0]) and _const(st.value, 0) is not None \
                and not isinstance(st.value, ast.UnaryOp):
            count = st.targets[0].id
        if isinstance(st, ast.For) and _is_name(st.target) and _attr_self(st.iter, "controls"):
            if vloop is not None:
                raise TranslationError("base discretize_controls: two loops over self.controls")
            vloop = st
    if count is None or vloop is None:
        raise TranslationError("base discretize_controls: `count = 0` / `for variable in self.controls` not found")
    # the cache is reset before the loop
    if not any(isinstance(st, ast.Assign) and len(st.targets) == 1 and _attr_self(st.targets[0], "__discretize_control_cache")
               and isinstance(st.value, ast.Dict) and not st.value.keys for st in body[:body.index(vloop)]):
        raise TranslationError("base discretize_controls: the cache is not reset before the loop")
    variable = vloop.target.id
    vb = [st for st in vloop.body if not (_is_logging(st) or _is_doc(st))]
    times = None
    mloop = None
    for st in vb:
        if isinstance(st, ast.Assign) and len(st.targets) == 1 and _is_name(st.targets[0]) and isinstance(st.value, ast.Call) \
                and _attr_self(st.value.func, "times") and len(st.value.args) == 1 and _is_name(st.value.args[0], variable):
            times = st.targets[0].id
        elif isinstance(st, ast.For) and _is_name(st.target) and isinstance(st.iter, ast.Call) and _is_name(st.iter.func, "range") \
                and len(st.iter.args) == 1 and _attr_self(st.iter.args[0], "ensemble_size") and mloop is None:
            mloop = st
        else:
            raise TranslationError("base discretize_controls: unsupported statement in the variable loop `%s`" % _u(st))
    if times is None or mloop is None:
        raise TranslationError("base discretize_controls: `times = self.times(variable)` / member loop not found")
    m = mloop.target.id
    env = {}
    new_count = None
    out = None
    stops = {}
    for s in mloop.body:
        if _is_logging(s) or _is_doc(s):
            continue
        if isinstance(s, ast.Assign) and len(s.targets) == 1 and _is_name(s.targets[0]):
            name, v = s.targets[0].id, s.value
            if isinstance(v, ast.Call) and _attr_self(v.func, "discretize_control") and not v.keywords and len(v.args) == 4:
                a = v.args
                if not (_is_name(a[0], variable) and _is_name(a[2], times)):
                    raise TranslationError("base loop: discretize_control is not called with (variable, ., times, .)")
                if not _is_name(a[1], m):
                    raise TranslationError("base loop: discretize_control is called for `%s`, not for the loop member" % _u(a[1]))
                if not _is_name(a[3], count) or new_count is not None:
                    raise TranslationError("base loop: the offset passed to discretize_control is not the running count")
                env[name] = "ci"
                continue
            if isinstance(v, ast.IfExp) and isinstance(v.test, ast.Call) and _is_name(v.test.func, "isinstance") \
                    and len(v.test.args) == 2 and env.get(getattr(v.test.args[0], "id", None)) == "ci" \
                    and _is_name(v.test.args[1], "slice"):
                if not (isinstance(v.body, ast.Attribute) and env.get(getattr(v.body.value, "id", None)) == "ci"
                        and v.body.attr in ("stop", "start")):
                    raise TranslationError("base loop: unsupported slice end `%s`" % _u(v.body))
                stops["slice"] = "s.2" if v.body.attr == "stop" else "s.1"
                e = v.orelse
                add = 0
                pl = _plus(e)
                if pl:
                    e, add = pl
                if isinstance(e, ast.Call) and _is_name(e.func, "int") and len(e.args) == 1:
                    e = e.args[0]
                if not ((_np_call(e, "max") or _np_call(e, "amax")) and len(e.args) == 1 and not e.keywords
                        and env.get(getattr(e.args[0], "id", None)) == "ci"):
                    raise TranslationError("base loop: unsupported array end `%s`" % _u(v.orelse))
                stops["arr"] = "arr.foldl max 0 + %d" % add
                env[name] = "stop"
                continue
            if name == count:
                if isinstance(v, ast.Call) and _is_name(v.func, "max") and len(v.args) == 2 and not v.keywords:
                    ks = sorted((env.get(getattr(x, "id", None)) or ("count" if _is_name(x, count) else "?")) for x in v.args)
                    if ks != ["count", "stop"]:
                        raise TranslationError("base loop: unsupported count update `%s`" % _u(s))
                    new_count = "max st.1 (stop rc.1)"
                elif _is_name(v) and env.get(v.id) == "stop":
                    new_count = "stop rc.1"
                else:
                    raise TranslationError("base loop: unsupported count update `%s`" % _u(s))
                continue
            raise TranslationError("base loop: unsupported assignment `%s`" % _u(s))
        if isinstance(s, ast.Assign) and len(s.targets) == 1 and isinstance(s.targets[0], ast.Subscript):
            t = s.targets[0]
            if isinstance(t.value, ast.Subscript) and _is_name(t.value.value) and _is_name(t.slice, variable) \
                    and env.get(getattr(s.value, "id", None)) == "ci":
                if not _is_name(t.value.slice, m):
                    raise TranslationError("base loop: the indices are stored for `%s`, not for the loop member" % _u(t.value.slice))
                out = "st.2.2 ++ [rc.1]"
                continue
        raise TranslationError("base loop: unsupported statement `%s`" % _u(s))
    if new_count is None or out is None or set(stops) != {"slice", "arr"}:
        raise TranslationError("base loop: call / store / stop / count update incomplete")
    return {"newcount": new_count, "out": out, "stopslice": stops["slice"], "stoparr": stops["arr"]}


# -- (4) per-member uses in transcribe() ----------------------------------------------------------------

_MEMBER_CALLS = {"parameters": 0, "constant_inputs": 0, "history": 0, "seed": 0, "objective": 0, "constraints": 0,
                 "path_constraints": 0, "ensemble_member_probability": 0, "extra_variable": 1, "state_vector": 1,
                 "lookup_tables": 0, "initial_state": 0, "bounds_for_member": 0}
_MEMBER_TABLES = {"__indices", "__indices_as_lists", "__integrators", "__func_initial_inputs", "__func_map_args"}
_MEMBER_LOCALS = {"ensemble_store", "ensemble_parameter_values", "indices_state", "indices_control"}


def translate_member_uses(fn):
    """every per-member accessor inside a `for ensemble_member in range(self.ensemble_size)` loop of transcribe():
    (accessor, own) with own = the member index is the loop variable"""
    uses = []

    def scan(node, mvar):
        for sub in ast.walk(node):
            if isinstance(sub, ast.Call) and isinstance(sub.func, ast.Attribute) and _is_name(sub.func.value, "self") \
                    and sub.func.attr in _MEMBER_CALLS:
                pos = _MEMBER_CALLS[sub.func.attr]
                e = None
                for kw in sub.keywords:
                    if kw.arg == "ensemble_member":
                        e = kw.value
                if e is None and len(sub.args) > pos:
                    e = sub.args[pos]
                if e is None:
                    uses.append((sub.func.attr, False, "default member (argument omitted), line %d" % sub.lineno))
                else:
                    uses.append((sub.func.attr, _is_name(e, mvar), "line %d: %s" % (sub.lineno, _u(e, 40))))
            elif isinstance(sub, ast.Subscript) and isinstance(sub.value, ast.Attribute) and _is_name(sub.value.value, "self") \
                    and sub.value.attr in _MEMBER_TABLES:
                uses.append((sub.value.attr.lstrip("_"), _is_name(sub.slice, mvar), "line %d: %s" % (sub.lineno, _u(sub.slice, 40))))
            elif isinstance(sub, ast.Subscript) and _is_name(sub.value) and sub.value.id in _MEMBER_LOCALS:
                uses.append((sub.value.id, _is_name(sub.slice, mvar), "line %d: %s" % (sub.lineno, _u(sub.slice, 40))))
            elif isinstance(sub, ast.Subscript) and isinstance(sub.value, ast.Subscript) and _is_name(sub.value.value, "ensemble_aggregate") \
                    and isinstance(sub.slice, ast.Tuple) and len(sub.slice.elts) == 2:
                uses.append(("ensemble_aggregate", _is_name(sub.slice.elts[1], mvar),
                             "line %d: %s" % (sub.lineno, _u(sub.slice.elts[1], 40))))

    nloops = 0
    for node in ast.walk(fn):
        if isinstance(node, ast.For) and _is_name(node.target) and isinstance(node.iter, ast.Call) and _is_name(node.iter.func, "range") \
                and len(node.iter.args) == 1 and _attr_self(node.iter.args[0], "ensemble_size"):
            nloops += 1
            for st in node.body:
                scan(st, node.target.id)
    if nloops == 0 or not uses:
        raise TranslationError("transcribe(): no member loop / no per-member accessor found")
    return uses, nloops



# -- (5) the symbol cache key of state_at() -----------------------------------------------------------------

def translate_symbol_key(fn):
    args = [a.arg for a in fn.args.args]
    if args[:6] != ["self", "variable", "t", "ensemble_member", "scaled", "extrapolate"]:
        raise TranslationError("state_at(self, variable, t, ensemble_member, scaled, extrapolate) expected, got %s" % args)
    body = [st for st in fn.body if not (_is_logging(st) or _is_doc(st))]
    comps = []
    name = None
    tr_ = None
    for st in body:
        if isinstance(st, ast.Try):
            tr_ = st
            break
        # `if isinstance(variable, ca.MX): variable = variable.name()`  and guards that only raise
        if isinstance(st, ast.If) and not st.orelse and len(st.body) == 1:
            b = st.body[0]
            if isinstance(b, ast.Raise):
                continue
            if isinstance(b, ast.Assign) and _is_name(b.targets[0], "variable") and isinstance(st.test, ast.Call) \
                    and _is_name(st.test.func, "isinstance") and _is_name(st.test.args[0], "variable") \
                    and isinstance(b.value, ast.Call) and isinstance(b.value.func, ast.Attribute) \
                    and _is_name(b.value.func.value, "variable") and b.value.func.attr == "name":
                continue
            if name is not None and _is_name(st.test, "extrapolate") and isinstance(b, ast.AugAssign) \
                    and _is_name(b.target, name) and isinstance(b.op, ast.Add) and _const_str(b.value):
                comps.append("a.extrapolate")
                continue
        if isinstance(st, ast.Assign) and len(st.targets) == 1 and _is_name(st.targets[0]) and name is None \
                and isinstance(st.value, ast.Call) and isinstance(st.value.func, ast.Attribute) and st.value.func.attr == "format" \
                and _const_str(st.value.func.value) is not None and not st.value.keywords:
            name = st.targets[0].id
            fmt = _const_str(st.value.func.value)
            if fmt.count("{}") != len(st.value.args) or fmt.count("{") != len(st.value.args):
                raise TranslationError("state_at: format string `%s` does not use every argument once" % fmt)
            parts = fmt.split("{}")
            if any(p == "" for p in parts[1:-2]):
                raise TranslationError("state_at: adjacent placeholders without a separator in `%s`" % fmt)
            for a in st.value.args:
                if _is_name(a, "variable"):
                    comps.append("a.var")
                elif _is_name(a, "ensemble_member"):
                    comps.append("a.member")
                elif isinstance(a, ast.BinOp) and isinstance(a.op, ast.Sub) and _is_name(a.left, "t") \
                        and _attr_self(a.right, "initial_time"):
                    comps.append("a.dt")
                elif isinstance(a, ast.IfExp) and _is_name(a.test, "scaled") and _const_str(a.body) is not None \
                        and _const_str(a.orelse) is not None and _const_str(a.body) != _const_str(a.orelse):
                    comps.append("a.scaled")
                else:
                    raise TranslationError("state_at: unsupported cache-key component `%s`" % _u(a))
            continue
        raise TranslationError("state_at: unsupported statement before the cache lookup `%s`" % _u(st))
    if name is None or tr_ is None:
        raise TranslationError("state_at: cache key / `try: return self.__symbol_cache[name]` not found")

    def is_slot(node):
        return isinstance(node, ast.Subscript) and _attr_self(node.value, "__symbol_cache") and _is_name(node.slice, name)

    if not (len(tr_.body) == 1 and isinstance(tr_.body[0], ast.Return) and is_slot(tr_.body[0].value)
            and len(tr_.handlers) == 1 and _is_name(tr_.handlers[0].type, "KeyError") and not tr_.orelse and not tr_.finalbody):
        raise TranslationError("state_at: expected `try: return self.__symbol_cache[name] except KeyError:`")
    hb = [x for x in tr_.handlers[0].body if not (_is_logging(x) or _is_doc(x))]
    if not (len(hb) >= 2 and isinstance(hb[-1], ast.Return) and _is_name(hb[-1].value)
            and isinstance(hb[-2], ast.Assign) and is_slot(hb[-2].targets[0]) and _is_name(hb[-2].value, hb[-1].value.id)):
        raise TranslationError("state_at: expected `self.__symbol_cache[name] = sym; return sym` at the end of the KeyError branch")
    for x in hb[:-2]:
        for sub in ast.walk(x):
            if isinstance(sub, ast.Name) and sub.id == name and isinstance(sub.ctx, ast.Store):
                raise TranslationError("state_at: the cache key is re-bound while the symbol is built")
            if isinstance(sub, ast.Subscript) and _attr_self(sub.value, "__symbol_cache"):
                raise TranslationError("state_at: the symbol cache is accessed while the symbol is built")
    return {"symkey": "(" + ", ".join(comps) + ")"}


ALLOC_TEMPLATE = """import RtcVerif.Model.C07Code
import RtcVerif.Proofs.C07Code
/-!
GENERATED on every run of the C07 check by harness/translate_c07.py (`gen_alloc`) from the distance
fill of `branch()` and `discretize_control` in
/repo/src/rtctools/optimization/control_tree_mixin.py and from `discretize_control`, the member loop
of `discretize_controls` and the member loops of `transcribe()` in
/repo/src/rtctools/optimization/collocated_integrated_optimization_problem.py.  Do not edit.
The `…Gen` definitions are the source statements read through the table in the translator; the
theorems tie them to the functions the C07 property theorems are about.
-/
namespace RtcVerif.Gen
open RtcVerif.C07

/-- `distances[p, q]` after the fill (positions in the member list `ms` of a branch of depth `L`) -/
def fillEntryGen (fc : Forecasts) (t0 : Rat) (bts : List Rat) (nv L : Nat) (ms : List Nat)
    (p q : Nat) : Rat :=
  (List.range nv).foldl (fun acc v => %(fill)s) 0

/-- index width of the tree's index array (`np.intNN` holds values up to `2^(NN-1) - 1`) -/
def indexBitsGen : Nat := %(bits)d

/-- body of `for branch, members in self.__branches.items()` of the tree's `discretize_control` -/
def dcStepGen (t0 : Rat) (bts : List Rat) (ts : List Rat) (m : Nat) (st : DC)
    (br : List Nat × List Nat) : DC :=
  if !(br.2.contains m) then st
  else
    match lookupB st.cache br.1 with
    | some blk => %(hit)s
    | none => %(miss)s

/-- one call `discretize_control(variable, m, times, offset)` of `ControlTreeMixin` -/
def discretizeControlGen (brs : List (List Nat × List Nat)) (t0 : Rat) (bts : List Rat)
    (ts : List Rat) (m offset : Nat) (cache : BlockCache) : List Nat × BlockCache :=
  let st := brs.foldl (dcStepGen t0 bts ts m) ⟨List.replicate ts.length 0, offset, cache⟩
  (st.arr, st.cache)

/-- base `discretize_control` for a variable with `n` time stamps -/
def defaultControlGen (n : Nat) (_m : Nat) (offset : Nat) (cache : Option (Nat × Nat)) :
    (Nat × Nat) × Option (Nat × Nat) :=
  match cache with
  | some s => (s, some s)
  | none => %(bmiss)s

def stopSliceGen (s : Nat × Nat) : Nat := %(stopslice)s

def stopArrGen (arr : List Nat) : Nat := %(stoparr)s

/-- body of `for ensemble_member in range(self.ensemble_size)` of the base `discretize_controls` -/
def ctrlStepGen {R C : Type} (dc : Nat → Nat → C → R × C) (stop : R → Nat)
    (st : Nat × C × List R) (m : Nat) : Nat × C × List R :=
  let rc := dc m st.1 st.2.1
  (%(newcount)s, rc.2, %(out)s)

/-- per-member accessors used inside the member loops of `transcribe()`: (accessor, the member
    index is the loop's member) -/
def memberUsesGen : List (String × Bool) :=
  [%(uses)s]

/-- cache key of `state_at` -/
def symbolKeyGen (a : SymArgs) :=
  %(symkey)s

/-- **distance fill**: read through the reverse map, the filled table is the model's table of the
    level: the sum over the forecast variables of the norm of the difference of the two members'
    series on the window `[BT[L+1], BT[L+2])` (member 0's stamps) -/
theorem distFillGen_eq_model (fc : Forecasts) (t0 : Rat) (bts : List Rat) (nv L : Nat)
    (ms : List Nat) (a b : Nat) (ha : a ∈ ms) (hb : b ∈ ms) :
    fillEntryGen fc t0 bts nv L ms (ms.idxOf a) (ms.idxOf b) = distSpec fc t0 bts nv L a b :=
  fillEntryRef_eq_distSpec fc t0 bts nv L ms a b ha hb

/-- **one call of the tree's `discretize_control`** = one round of requests of the model's
    allocator (`reqAll st (memberReqs c ts m)`); the array entries are block start + rank at the
    level written last (`levelAt`), 0 where no segment covers the stamp -/
theorem discretizeControlGen_eq_model (c : TreeCfg) (brs : List (List Nat × List Nat))
    (ts : List Rat) (m : Nat) (stM : Alloc (List Nat)) (cC : BlockCache) (hchain : ChainOf c brs m)
    (hinv : Inv (fun p : List Nat => segCount c.t0 c.bts p.length ts) stM)
    (hrel : Rel (fun p => segCount c.t0 c.bts p.length ts) cC stM.cache) :
    Rel (fun p => segCount c.t0 c.bts p.length ts)
      (discretizeControlGen brs c.t0 c.bts ts m stM.count cC).2 (reqAll stM (memberReqs c ts m)).1.cache ∧
    (discretizeControlGen brs c.t0 c.bts ts m stM.count cC).1.length = ts.length ∧
    ∀ i, i < ts.length →
      (discretizeControlGen brs c.t0 c.bts ts m stM.count cC).1.getD i 0 =
        match levelAt c.t0 c.bts (ts.getD i 0) with
        | none => 0
        | some L => (lookup (reqAll stM (memberReqs c ts m)).1.cache (c.path m L)).getD 0
            + rankIn c.t0 c.bts L ts i := by
  obtain ⟨_, h2, h3, _, _, h6⟩ := discretizeControlRef_spec c brs ts m stM cC hchain hinv hrel
  exact ⟨h2, h3, h6⟩

/-- **the member loop under the control tree** (base loop + tree `discretize_control` +
    `count = max(count, max(indices) + 1)`): every member's index array is the model's `treeIdx`,
    the count ends at the model's count, and the index width is the model's `int16Ok` guard -/
theorem treeLoopGen_eq_model (c : TreeCfg) (brs : List (List Nat × List Nat)) (ts : List Rat)
    (count0 : Nat) (hts : ts ≠ []) (ht0 : ∀ t ∈ ts, c.t0 ≤ t)
    (hch : ∀ m, m < c.E → ChainOf c brs m) :
    ((List.range c.E).foldl (ctrlStepGen (discretizeControlGen brs c.t0 c.bts ts) stopArrGen)
      (count0, [], [])).1 = (treeAlloc c ts count0).count ∧
    (∀ m i, m < c.E → i < ts.length →
      (((List.range c.E).foldl (ctrlStepGen (discretizeControlGen brs c.t0 c.bts ts) stopArrGen)
        (count0, [], [])).2.2.getD m []).getD i 0 = treeIdx c ts count0 m i) ∧
    (∀ count, int16Ok count = decide (count ≤ 2 ^ indexBitsGen)) := by
  have h := treeLoop_eq_model c brs ts count0 hts ht0 hch
  rw [← foldl_ctrlStep_eq] at h
  exact ⟨h.1, h.2.2, int16Ok_eq_bits⟩

/-- **the default member loop** (base loop + base `discretize_control`): all members receive the
    same slice, which is the model's shared block -/
theorem defaultLoopGen_eq_model (E n count0 : Nat) (hE : 0 < E) :
    (List.range E).foldl (ctrlStepGen (defaultControlGen n) stopSliceGen) (count0, none, []) =
      ((flatAlloc .shared E n count0).count, some (count0, count0 + n),
        List.replicate E (count0, count0 + n)) ∧
    ∀ m i, sliceIdx (count0, count0 + n) i = flatIdx .shared E n count0 m i := by
  have h := defaultLoop_eq_model E n count0 hE
  rw [← foldl_ctrlStep_eq] at h
  exact h

/-- **member loops of `transcribe()`**: every per-member accessor is indexed by the loop's member -/
theorem memberUsesGen_own : ∀ u ∈ memberUsesGen, u.2 = true := by
  decide

/-- **the symbol cache of `state_at`**: the key determines all arguments of the call, the
    ensemble member among them, so the memoised accessor returns for every call what is built for
    that call's own arguments (`memoRun_transparent`) -/
theorem symbolKeyGen_injective (V : Type) (build : SymArgs → V) (calls : List SymArgs) :
    (∀ a b : SymArgs, symbolKeyGen a = symbolKeyGen b → a = b) ∧
    memoRun symbolKeyGen build calls [] = calls.map build := by
  have hinj : ∀ a b : SymArgs, symbolKeyGen a = symbolKeyGen b → a = b := by
    intro a b h
    cases a; cases b
    simp only [symbolKeyGen, Prod.mk.injEq] at h
    simp_all
  exact ⟨hinj, memoRun_transparent symbolKeyGen build hinj calls [] (by simp)⟩

end RtcVerif.Gen
"""

ALLOC_THEOREMS = ["distFillGen_eq_model", "discretizeControlGen_eq_model", "treeLoopGen_eq_model",
                  "defaultLoopGen_eq_model", "memberUsesGen_own", "symbolKeyGen_injective"]


def translate_alloc():
    d = os.path.join(REPO, "src", "rtctools", "optimization")
    tree = ast.parse(open(os.path.join(d, "control_tree_mixin.py")).read())
    outer = _find_method(tree, "ControlTreeMixin", "discretize_controls")
    inner = [n for n in outer.body if isinstance(n, ast.FunctionDef)]
    if len(inner) != 1:
        raise TranslationError("expected exactly one nested function in discretize_controls")
    out = {}
    out.update(translate_fill(inner[0]))
    out.update(translate_tree_control(_find_method(tree, "ControlTreeMixin", "discretize_control")))
    base = ast.parse(open(os.path.join(d, "collocated_integrated_optimization_problem.py")).read())
    cls = "CollocatedIntegratedOptimizationProblem"
    out.update(translate_base_control(_find_method(base, cls, "discretize_control")))
    out.update(translate_base_loop(_find_method(base, cls, "discretize_controls")))
    out.update(translate_symbol_key(_find_method(base, cls, "state_at")))
    uses, nloops = translate_member_uses(_find_method(base, cls, "transcribe"))
    out["uses"] = ", ".join('("%s", %s)' % (a, "true" if own else "false") for a, own, _ in uses)
    out["_foreign"] = [(a, w) for a, own, w in uses if not own]
    out["_nuses"] = len(uses)
    out["_nloops"] = nloops
    return out


def gen_alloc(c):
    """(re)generate lean/RtcVerif/Gen/ControlTreeAlloc.lean; returns the extra obligations for c.prove"""
    gdir = os.path.join(LEAN_DIR, "RtcVerif", "Gen")
    os.makedirs(gdir, exist_ok=True)
    path = os.path.join(gdir, "ControlTreeAlloc.lean")
    what = "translator: distance fill / discretize_control / base member loop / transcribe member loops"
    try:
        out = translate_alloc()
    except TranslationError as e:
        c.broken.append((what, str(e)))
        return []
    except (OSError, SyntaxError) as e:
        c.broken.append((what, "cannot read the source: %s" % e))
        return []
    for a, w in out["_foreign"]:
        c.broken.append(("transcribe() member loop", "per-member accessor `%s` is not indexed by the loop's member (%s)" % (a, w)))
    text = ALLOC_TEMPLATE % out
    old = open(path).read() if os.path.exists(path) else None
    if old != text:
        tmp = path + ".tmp%d" % os.getpid()
        with open(tmp, "w") as f:
            f.write(text)
        os.replace(tmp, path)
    c.extra["member_uses_in_transcribe"] = {"loops": out["_nloops"], "accessors": out["_nuses"]}
    return [("RtcVerif.Gen.ControlTreeAlloc", "RtcVerif.Gen", ALLOC_THEOREMS)]
