"""
Source-to-Lean translation of the clustering kernels of `ControlTreeMixin.discretize_controls`
(second tie for C07, besides the correspondence check).  On every run of the C07 check the nested
function `branch()` is parsed from `$RTC_REPO/src/rtctools/optimization/control_tree_mixin.py`,
its clustering part (everything after the distance table has been filled) is executed symbolically
against the CLOSED table below, and `lean/RtcVerif/Gen/ControlTreeCluster.lean` is (re)generated with

  firstSeedGen   the first representative                    + theorem firstSeedGen_eq_model  (= selectReps' first pick)
  seedScoreGen   the score array `min_distances`             }
  nextSeedGen    argmax + stop rule of the seed loop         } + theorem nextSeedGen_eq_model  (= one step of C07.moreReps)
  scanStepGen    body of `for i in range(k)` of the allocation
  scanGen        the whole scan for one member               + theorem scanGen_eq_model      (= C07.nearestRep)

The loop SKELETON around these kernels (which list is created / appended to, what is removed from
`available`, the recursion) is matched structurally, statement by statement, and anything that is
not in the table is rejected; its equivalence with `C07.children` is the correspondence check's
business, not a Lean theorem (stated limit).

Table "Python construct -> model term" (names are recognised by ROLE, not by spelling):

  D = np.zeros((n, n)) ... filled before the kernels     the distance table `d` (data of the model)
  B[cb]  (cb = the parameter of branch())                 `ms`, the members of the branch, in list order
  for p, m in enumerate(B[cb])                            position p <-> member m (positions only index D and B[cb])
  D[p, q]                                                 `d m_p m_q`        (row, column as written)
  R[m] (R filled by `for i, m in enumerate(B[cb]): R[m] = i`)   the position of member m;  D[R[x], R[y]] = `d x y`
  A = set(B[cb])                                          `avail` (list of members), initially all
  np.argmax(np.amax(D, axis=0))                           `argmaxFirst (colMax d ms) ms`   (NumPy: first maximum)
  for i in range(options["k"])                            i = 0 .. k-1
  if idx >= 0: ... else: ...                              seed present / absent (idx = -1 is `none`)
  B[cb + (i,)] = [B[cb][idx]]                             child i := [seed]
  A.remove(B[cb][idx])                                    avail := avail without the seed
  B[cb + (i,)] = []                                       child i := []
  S = np.array([min([np.inf] + [D[..] for p, m in enumerate(B[cb]) if <c1> and <c2>])
                for q, m' in enumerate(B[cb])], dtype=np.float64)
                                                          `seedScoreGen d ms avail c := minOver (fun j => D..) (ms.filter (fun j => c1 && c2))`
                                                          (`min` with the `np.inf` seed = `minOver`, `none` = +inf)
  m in A / m not in A                                     `avail.contains m` / `!avail.contains m` (conjuncts in canonical order)
  S[np.where(S == np.inf)] = -np.inf                      `none` now reads -inf (`leNI` / `ltNI` / `argmaxNI` order)
  idx = np.argmax(S)                                      `argmaxNI (seedScoreGen d ms avail) ms`
  if S[idx] <= q: idx = -1   (also `<`)                   `if leNI (score c) (some q) then none else some c`  (`ltNI` for `<`)
  for a in A:                                             the remaining members (ascending: CPython set of small ints)
  min_i = 0 ; min_distance = np.inf                       scan state `(0, none)`
  b2 = B[cb + (i,)] ; if len(b2) > 0:                     head of child i: `some r` with r = b2[0], else `none`
  dist = D[R[a], R[b2[0]]]                                `d a r`   (as written)
  if dist < min_distance: min_distance = dist; min_i = i  `if ltInf (d a r) st.2 then (i, some (d a r)) else st`  (`leInf` for `<=`)
  B[cb + (min_i,)].append(a)                              child min_i := child min_i ++ [a]
  for i in range(options["k"]): branch(cb + (i,))         recursion over the children
  logger.*(...)                                           nothing
"""
import ast
import os

from .common import LEAN_DIR, REPO
from .translate import TranslationError, _find_method


def _u(node, n=90):
    try:
        return ast.unparse(node)[:n]
    except Exception:
        return ast.dump(node)[:n]


def _is_name(node, name=None):
    return isinstance(node, ast.Name) and (name is None or node.id == name)


def _np_call(node, fn):
    return isinstance(node, ast.Call) and isinstance(node.func, ast.Attribute) and _is_name(node.func.value, "np") \
        and node.func.attr == fn


def _np_attr(node, attr):
    return isinstance(node, ast.Attribute) and _is_name(node.value, "np") and node.attr == attr


def _const(node, value=None):
    if isinstance(node, ast.UnaryOp) and isinstance(node.op, ast.USub) and isinstance(node.operand, ast.Constant):
        v = -node.operand.value
    elif isinstance(node, ast.Constant):
        v = node.value
    else:
        return None
    if isinstance(v, bool) or not isinstance(v, (int, float)):
        return None
    return v if value is None or v == value else None


def _is_logging(st):
    return isinstance(st, ast.Expr) and isinstance(st.value, ast.Call) and isinstance(st.value.func, ast.Attribute) \
        and _is_name(st.value.func.value, "logger")


def _is_doc(st):
    return isinstance(st, ast.Expr) and isinstance(st.value, ast.Constant) and isinstance(st.value.value, str)


class _Tr:
    def __init__(self, fn):
        self.fn = fn
        if len(fn.args.args) != 1:
            raise TranslationError("branch() is expected to take the branch id only")
        self.cb = fn.args.args[0].arg
        self.B = None  # dictionary of branches
        self.D = None  # distance table
        self.R = None  # member -> position
        self.A = None  # available set
        self.idx = None
        self.out = {}

    # -- recognisers -----------------------------------------------------------------------------
    def is_ms(self, node):
        """B[cb]"""
        return isinstance(node, ast.Subscript) and _is_name(node.value) and _is_name(node.slice, self.cb) \
            and (self.B is None or node.value.id == self.B)

    def child(self, node):
        """B[cb + (x,)] -> the index expression x, else None"""
        if isinstance(node, ast.Subscript) and _is_name(node.value, self.B) and isinstance(node.slice, ast.BinOp) \
                and isinstance(node.slice.op, ast.Add) and _is_name(node.slice.left, self.cb) \
                and isinstance(node.slice.right, ast.Tuple) and len(node.slice.right.elts) == 1:
            return node.slice.right.elts[0]
        return None

    def range_k(self, node):
        return isinstance(node, ast.Call) and _is_name(node.func, "range") and len(node.args) == 1 \
            and isinstance(node.args[0], ast.Subscript) and _is_name(node.args[0].value, "options") \
            and _const_str(node.args[0].slice) == "k"

    def enum_ms(self, gen_or_for):
        """`for p, m in enumerate(B[cb])` -> (p, m)"""
        it, tgt = gen_or_for.iter, gen_or_for.target
        if isinstance(it, ast.Call) and _is_name(it.func, "enumerate") and len(it.args) == 1 and self.is_ms(it.args[0]) \
                and isinstance(tgt, ast.Tuple) and len(tgt.elts) == 2 and all(_is_name(e) for e in tgt.elts):
            return tgt.elts[0].id, tgt.elts[1].id
        raise TranslationError("unsupported iteration `%s`" % _u(it))

    # -- the function body -------------------------------------------------------------------------
    def run(self):
        body = [st for st in self.fn.body if not (_is_logging(st) or _is_doc(st))]
        # find the start of the clustering part: `A = set(B[cb])`
        start = None
        for n, st in enumerate(body):
            if isinstance(st, ast.Assign) and len(st.targets) == 1 and _is_name(st.targets[0]) \
                    and isinstance(st.value, ast.Call) and _is_name(st.value.func, "set") and len(st.value.args) == 1 \
                    and isinstance(st.value.args[0], ast.Subscript) and _is_name(st.value.args[0].slice, self.cb):
                start = n
                self.A = st.targets[0].id
                self.B = st.value.args[0].value.id
                break
        if start is None:
            raise TranslationError("`available = set(branches[current_branch])` not found")
        self.prelude(body[:start])
        rest = body[start + 1:]
        if len(rest) != 4:
            raise TranslationError("clustering part: expected first seed, seed loop, allocation loop, recursion; got %d "
                                   "statements (`%s` ...)" % (len(rest), _u(rest[min(4, len(rest) - 1)]) if rest else ""))
        self.first_seed(rest[0])
        self.seed_loop(rest[1])
        self.alloc_loop(rest[2])
        self.recursion(rest[3])
        return self.out

    def prelude(self, stmts):
        """distance table and reverse map are recognised by role; the distance computation itself is data"""
        for st in stmts:
            for node in ast.walk(st):
                if isinstance(node, ast.Assign) and len(node.targets) == 1 and _is_name(node.targets[0]) \
                        and _np_call(node.value, "zeros") and self.D is None:
                    self.D = node.targets[0].id
                if isinstance(node, ast.For) and isinstance(node.iter, ast.Call) and _is_name(node.iter.func, "enumerate") \
                        and len(node.body) == 1 and isinstance(node.body[0], ast.Assign) \
                        and isinstance(node.body[0].targets[0], ast.Subscript) \
                        and isinstance(node.target, ast.Tuple) and len(node.target.elts) == 2:
                    tgt = node.body[0].targets[0]
                    p, m = node.target.elts
                    if _is_name(tgt.value) and _is_name(tgt.slice, m.id) and _is_name(node.body[0].value, p.id) \
                            and isinstance(node.iter.args[0], ast.Subscript) and _is_name(node.iter.args[0].slice, self.cb):
                        self.R = tgt.value.id
        if self.D is None:
            raise TranslationError("distance table `distances = np.zeros(...)` not found")
        if self.R is None:
            raise TranslationError("reverse map `for i, m in enumerate(branches[cb]): reverse[m] = i` not found")

    def first_seed(self, st):
        if not (isinstance(st, ast.Assign) and len(st.targets) == 1 and _is_name(st.targets[0])):
            raise TranslationError("first seed: unsupported statement `%s`" % _u(st))
        self.idx = st.targets[0].id
        v = st.value
        if _np_call(v, "argmax") and len(v.args) == 1 and not v.keywords and _np_call(v.args[0], "amax") \
                and len(v.args[0].args) == 1 and _is_name(v.args[0].args[0], self.D) \
                and len(v.args[0].keywords) == 1 and v.args[0].keywords[0].arg == "axis" \
                and _const(v.args[0].keywords[0].value, 0) is not None:
            self.out["first"] = "argmaxFirst (colMax d ms) ms"
            return
        raise TranslationError("first seed: `%s` is not np.argmax(np.amax(distances, axis=0))" % _u(v))

    # -- seed loop ---------------------------------------------------------------------------------
    def seed_loop(self, st):
        if not (isinstance(st, ast.For) and _is_name(st.target) and self.range_k(st.iter) and not st.orelse):
            raise TranslationError("seed loop: expected `for i in range(options['k'])`, got `%s`" % _u(st))
        i = st.target.id
        body = [s for s in st.body if not _is_logging(s)]
        if len(body) != 1 or not isinstance(body[0], ast.If):
            raise TranslationError("seed loop body: expected one `if idx >= 0: ... else: ...`")
        iff = body[0]
        t = iff.test
        if not (isinstance(t, ast.Compare) and _is_name(t.left, self.idx) and len(t.ops) == 1
                and isinstance(t.ops[0], ast.GtE) and _const(t.comparators[0], 0) is not None):
            raise TranslationError("seed loop: unsupported test `%s`" % _u(t))
        # else: child i := []
        els = [s for s in iff.orelse if not _is_logging(s)]
        if not (len(els) == 1 and isinstance(els[0], ast.Assign) and _is_name(self.child(els[0].targets[0]), i)
                and isinstance(els[0].value, ast.List) and not els[0].value.elts):
            raise TranslationError("seed loop, no seed: expected `branches[cb + (i,)] = []`")
        then = [s for s in iff.body if not _is_logging(s)]
        if len(then) != 6:
            raise TranslationError("seed loop, seed present: expected 6 statements (child, remove, scores, -inf, argmax, "
                                   "stop rule), got %d" % len(then))
        seed = lambda n: isinstance(n, ast.Subscript) and self.is_ms(n.value) and _is_name(n.slice, self.idx)  # noqa: E731
        a0, a1 = then[0], then[1]
        if not (isinstance(a0, ast.Assign) and _is_name(self.child(a0.targets[0]), i) and isinstance(a0.value, ast.List)
                and len(a0.value.elts) == 1 and seed(a0.value.elts[0])):
            raise TranslationError("seed loop: expected `branches[cb + (i,)] = [branches[cb][idx]]`, got `%s`" % _u(a0))
        if not (isinstance(a1, ast.Expr) and isinstance(a1.value, ast.Call) and isinstance(a1.value.func, ast.Attribute)
                and _is_name(a1.value.func.value, self.A) and a1.value.func.attr == "remove"
                and len(a1.value.args) == 1 and seed(a1.value.args[0])):
            raise TranslationError("seed loop: expected `available.remove(branches[cb][idx])`, got `%s`" % _u(a1))
        S = self.scores(then[2])
        self.neg_inf(then[3], S)
        a4 = then[4]
        if not (isinstance(a4, ast.Assign) and _is_name(a4.targets[0], self.idx) and _np_call(a4.value, "argmax")
                and len(a4.value.args) == 1 and _is_name(a4.value.args[0], S) and not a4.value.keywords):
            raise TranslationError("seed loop: expected `idx = np.argmax(min_distances)`, got `%s`" % _u(a4))
        self.stop_rule(then[5], S)

    def member_of(self, pos, env):
        if _is_name(pos) and pos.id in env:
            return env[pos.id]
        raise TranslationError("`%s` is not a position of an enumerated member" % _u(pos))

    def scores(self, st):
        if not (isinstance(st, ast.Assign) and len(st.targets) == 1 and _is_name(st.targets[0])
                and _np_call(st.value, "array") and len(st.value.args) == 1 and isinstance(st.value.args[0], ast.ListComp)):
            raise TranslationError("scores: expected `min_distances = np.array([...])`, got `%s`" % _u(st))
        S = st.targets[0].id
        outer = st.value.args[0]
        if len(outer.generators) != 1 or outer.generators[0].ifs:
            raise TranslationError("scores: unsupported outer comprehension")
        q, mq = self.enum_ms(outer.generators[0])
        e = outer.elt
        if not (isinstance(e, ast.Call) and _is_name(e.func, "min") and len(e.args) == 1 and isinstance(e.args[0], ast.BinOp)
                and isinstance(e.args[0].op, ast.Add) and isinstance(e.args[0].left, ast.List)
                and len(e.args[0].left.elts) == 1 and _np_attr(e.args[0].left.elts[0], "inf")
                and isinstance(e.args[0].right, ast.ListComp)):
            raise TranslationError("scores: element is not `min([np.inf] + [...])`: `%s`" % _u(e))
        inner = e.args[0].right
        if len(inner.generators) != 1:
            raise TranslationError("scores: unsupported inner comprehension")
        p, mp = self.enum_ms(inner.generators[0])
        pos = {p: "j", q: "c"}
        mem = {mp: "j", mq: "c"}
        el = inner.elt
        if not (isinstance(el, ast.Subscript) and _is_name(el.value, self.D) and isinstance(el.slice, ast.Tuple)
                and len(el.slice.elts) == 2):
            raise TranslationError("scores: element `%s` is not distances[., .]" % _u(el))
        row, col = (self.member_of(x, pos) for x in el.slice.elts)
        conds = []
        for cnd in inner.generators[0].ifs:
            parts = cnd.values if isinstance(cnd, ast.BoolOp) and isinstance(cnd.op, ast.And) else [cnd]
            for c in parts:
                if isinstance(c, ast.Compare) and len(c.ops) == 1 and isinstance(c.ops[0], (ast.In, ast.NotIn)) \
                        and _is_name(c.left) and c.left.id in mem and _is_name(c.comparators[0], self.A):
                    conds.append(("!" if isinstance(c.ops[0], ast.NotIn) else "") + "avail.contains " + mem[c.left.id])
                else:
                    raise TranslationError("scores: unsupported condition `%s`" % _u(c))
        conds.sort(key=lambda s: (s[-1] != "j", s))  # canonical order: the conjuncts about j first
        flt = " && ".join(conds) if conds else "true"
        self.out["score"] = "minOver (fun j => d %s %s) (ms.filter (fun j => %s))" % (row, col, flt)
        return S

    def neg_inf(self, st, S):
        ok = isinstance(st, ast.Assign) and len(st.targets) == 1 and isinstance(st.targets[0], ast.Subscript) \
            and _is_name(st.targets[0].value, S) and _np_call(st.targets[0].slice, "where") \
            and len(st.targets[0].slice.args) == 1 and isinstance(st.targets[0].slice.args[0], ast.Compare) \
            and _is_name(st.targets[0].slice.args[0].left, S) and isinstance(st.targets[0].slice.args[0].ops[0], ast.Eq) \
            and _np_attr(st.targets[0].slice.args[0].comparators[0], "inf") \
            and isinstance(st.value, ast.UnaryOp) and isinstance(st.value.op, ast.USub) and _np_attr(st.value.operand, "inf")
        if not ok:
            raise TranslationError("scores: expected `min_distances[np.where(min_distances == np.inf)] = -np.inf`, got `%s`" % _u(st))

    def stop_rule(self, st, S):
        if not (isinstance(st, ast.If) and not st.orelse and len(st.body) == 1 and isinstance(st.body[0], ast.Assign)
                and _is_name(st.body[0].targets[0], self.idx) and _const(st.body[0].value, -1) is not None):
            raise TranslationError("stop rule: expected `if min_distances[idx] <= 0: idx = -1`, got `%s`" % _u(st))
        t = st.test
        if not (isinstance(t, ast.Compare) and len(t.ops) == 1 and isinstance(t.left, ast.Subscript)
                and _is_name(t.left.value, S) and _is_name(t.left.slice, self.idx)):
            raise TranslationError("stop rule: unsupported test `%s`" % _u(t))
        q = _const(t.comparators[0])
        if q is None or q != int(q):
            raise TranslationError("stop rule: unsupported threshold `%s`" % _u(t.comparators[0]))
        qs = "%d" % int(q) if q >= 0 else "(%d)" % int(q)
        if isinstance(t.ops[0], ast.LtE):
            self.out["stop"] = "leNI (seedScoreGen d ms avail c) (some %s)" % qs
        elif isinstance(t.ops[0], ast.Lt):
            self.out["stop"] = "ltNI (seedScoreGen d ms avail c) (some %s)" % qs
        else:
            raise TranslationError("stop rule: unsupported comparison `%s`" % _u(t))

    # -- allocation loop ---------------------------------------------------------------------------
    def alloc_loop(self, st):
        if not (isinstance(st, ast.For) and _is_name(st.target) and _is_name(st.iter, self.A) and not st.orelse):
            raise TranslationError("allocation loop: expected `for member in available`, got `%s`" % _u(st))
        a = st.target.id
        body = [s for s in st.body if not _is_logging(s)]
        if len(body) != 4:
            raise TranslationError("allocation loop: expected 4 statements (two initialisations, scan, append), got %d: "
                                   "`%s`" % (len(body), _u(body[-1])))
        inits = {}
        for s in body[:2]:
            if isinstance(s, ast.Assign) and len(s.targets) == 1 and _is_name(s.targets[0]):
                if _const(s.value, 0) is not None:
                    inits["min_i"] = s.targets[0].id
                elif _np_attr(s.value, "inf"):
                    inits["min_d"] = s.targets[0].id
        if set(inits) != {"min_i", "min_d"}:
            raise TranslationError("allocation loop: expected `min_i = 0` and `min_distance = np.inf`")
        mi, md = inits["min_i"], inits["min_d"]
        scan = body[2]
        if not (isinstance(scan, ast.For) and _is_name(scan.target) and self.range_k(scan.iter) and not scan.orelse):
            raise TranslationError("scan: expected `for i in range(options['k'])`, got `%s`" % _u(scan))
        i = scan.target.id
        sb = [s for s in scan.body if not _is_logging(s)]
        if not (len(sb) == 2 and isinstance(sb[0], ast.Assign) and _is_name(sb[0].targets[0])
                and _is_name(self.child(sb[0].value), i) and isinstance(sb[1], ast.If) and not sb[1].orelse):
            raise TranslationError("scan body: expected `branch2 = branches[cb + (i,)]` and `if len(branch2) > 0:`")
        b2 = sb[0].targets[0].id
        t = sb[1].test
        if not (isinstance(t, ast.Compare) and len(t.ops) == 1 and isinstance(t.ops[0], ast.Gt)
                and isinstance(t.left, ast.Call) and _is_name(t.left.func, "len") and _is_name(t.left.args[0], b2)
                and _const(t.comparators[0], 0) is not None):
            raise TranslationError("scan: unsupported guard `%s`" % _u(t))
        ib = [s for s in sb[1].body if not _is_logging(s)]
        if not (len(ib) == 2 and isinstance(ib[0], ast.Assign) and _is_name(ib[0].targets[0]) and isinstance(ib[1], ast.If)
                and not ib[1].orelse):
            raise TranslationError("scan: expected `distance = ...` and `if distance < min_distance:`")
        dist = ib[0].targets[0].id
        dv = ib[0].value

        def who(n):
            if isinstance(n, ast.Subscript) and _is_name(n.value, self.R):
                if _is_name(n.slice, a):
                    return "a"
                if isinstance(n.slice, ast.Subscript) and _is_name(n.slice.value, b2) and _const(n.slice.slice, 0) is not None:
                    return "r"
            raise TranslationError("scan: `%s` is neither reverse[member] nor reverse[branch2[0]]" % _u(n))

        if not (isinstance(dv, ast.Subscript) and _is_name(dv.value, self.D) and isinstance(dv.slice, ast.Tuple)
                and len(dv.slice.elts) == 2):
            raise TranslationError("scan: `%s` is not distances[., .]" % _u(dv))
        dterm = "d %s %s" % (who(dv.slice.elts[0]), who(dv.slice.elts[1]))
        t2 = ib[1].test
        if not (isinstance(t2, ast.Compare) and len(t2.ops) == 1 and _is_name(t2.left, dist)
                and _is_name(t2.comparators[0], md) and isinstance(t2.ops[0], (ast.Lt, ast.LtE))):
            raise TranslationError("scan: unsupported comparison `%s`" % _u(t2))
        cmp = "ltInf" if isinstance(t2.ops[0], ast.Lt) else "leInf"
        upd = {}
        for s in ib[1].body:
            if isinstance(s, ast.Assign) and len(s.targets) == 1 and _is_name(s.targets[0], md) and _is_name(s.value, dist):
                upd["d"] = True
            elif isinstance(s, ast.Assign) and len(s.targets) == 1 and _is_name(s.targets[0], mi) and _is_name(s.value, i):
                upd["i"] = True
            elif not _is_logging(s):
                raise TranslationError("scan: unsupported update `%s`" % _u(s))
        if set(upd) != {"d", "i"}:
            raise TranslationError("scan: both `min_distance = distance` and `min_i = i` are expected")
        self.out["step"] = "if %s (%s) st.2 then (i, some (%s)) else st" % (cmp, dterm, dterm)
        app = body[3]
        if not (isinstance(app, ast.Expr) and isinstance(app.value, ast.Call) and isinstance(app.value.func, ast.Attribute)
                and app.value.func.attr == "append" and _is_name(self.child(app.value.func.value), mi)
                and len(app.value.args) == 1 and _is_name(app.value.args[0], a)):
            raise TranslationError("allocation: expected `branches[cb + (min_i,)].append(member)`, got `%s`" % _u(app))

    def recursion(self, st):
        ok = isinstance(st, ast.For) and _is_name(st.target) and self.range_k(st.iter) and len(st.body) == 1 \
            and isinstance(st.body[0], ast.Expr) and isinstance(st.body[0].value, ast.Call) \
            and _is_name(st.body[0].value.func, self.fn.name) and len(st.body[0].value.args) == 1 \
            and isinstance(st.body[0].value.args[0], ast.BinOp) and _is_name(st.body[0].value.args[0].left, self.cb) \
            and isinstance(st.body[0].value.args[0].right, ast.Tuple) and len(st.body[0].value.args[0].right.elts) == 1 \
            and _is_name(st.body[0].value.args[0].right.elts[0], st.target.id)
        if not ok:
            raise TranslationError("recursion: expected `for i in range(options['k']): branch(cb + (i,))`, got `%s`" % _u(st))


def _const_str(node):
    return node.value if isinstance(node, ast.Constant) and isinstance(node.value, str) else None


def translate_cluster():
    path = os.path.join(REPO, "src", "rtctools", "optimization", "control_tree_mixin.py")
    outer = _find_method(ast.parse(open(path).read()), "ControlTreeMixin", "discretize_controls")
    inner = [n for n in outer.body if isinstance(n, ast.FunctionDef)]
    if len(inner) != 1:
        raise TranslationError("expected exactly one nested function in discretize_controls")
    return _Tr(inner[0]).run()


GEN_TEMPLATE = """import RtcVerif.Model.C07Ref
import RtcVerif.Proofs.C07Ref
/-!
GENERATED on every run of the C07 check by harness/translate_c07.py from the nested function
`branch()` of `ControlTreeMixin.discretize_controls` in
/repo/src/rtctools/optimization/control_tree_mixin.py.  Do not edit.
The `…Gen` definitions are the source statements read through the table in the translator's header;
the theorems tie them to the functions the C07 property theorems are about.
-/
namespace RtcVerif.Gen
open RtcVerif.C07

/-- `idx = np.argmax(np.amax(distances, axis=0))` -/
def firstSeedGen (d : Dist) (ms : List Nat) : Option Nat :=
  %(first)s

/-- entry of `min_distances` for member `c` -/
def seedScoreGen (d : Dist) (ms avail : List Nat) (c : Nat) : Option Rat :=
  %(score)s

/-- `idx = np.argmax(min_distances)` and the stop rule -/
def nextSeedGen (d : Dist) (ms avail : List Nat) : Option Nat :=
  match argmaxNI (seedScoreGen d ms avail) ms with
  | none => none
  | some c => if %(stop)s then none else some c

/-- body of the scan `for i in range(k)` for child `i` with head `h` -/
def scanStepGen (d : Dist) (a : Nat) (i : Nat) (h : Option Nat) (st : Nat × Option Rat) : Nat × Option Rat :=
  match h with
  | none => st
  | some r => %(step)s

def scanFromGen (d : Dist) (a : Nat) : List (Option Nat) → Nat → Nat × Option Rat → Nat × Option Rat
  | [], _, st => st
  | h :: t, i, st => scanFromGen d a t (i + 1) (scanStepGen d a i h st)

/-- `min_i` after the scan (from `min_i = 0`, `min_distance = np.inf`) -/
def scanGen (d : Dist) (a : Nat) (heads : List (Option Nat)) : Nat := (scanFromGen d a heads 0 (0, none)).1

/-- the first representative is the model's: `selectReps` starts from it -/
theorem firstSeedGen_eq_model (d : Dist) (ms : List Nat) (k : Nat) :
    firstSeedGen d ms = firstSeedRef d ms ∧
    selectReps d ms (k + 1) = (match firstSeedGen d ms with
                               | none => []
                               | some r => moreReps d ms k [r]) :=
  ⟨rfl, selectReps_eq_firstSeed d ms k⟩

/-- the seed loop continues exactly as the model's `moreReps` does (`available` = the members of
    the branch that are not representatives yet) -/
theorem nextSeedGen_eq_model (d : Dist) (ms reps : List Nat) (n : Nat) (hms : ms.Nodup)
    (hnd : reps.Nodup) (hsub : ∀ r ∈ reps, r ∈ ms) (hne : reps ≠ []) :
    moreReps d ms (n + 1) reps =
      match nextSeedGen d ms (ms.filter (fun a => !reps.contains a)) with
      | none => reps
      | some c => moreReps d ms n (reps ++ [c]) := by
  have h : nextSeedGen d ms (ms.filter (fun a => !reps.contains a)) = nextSeed d ms reps :=
    nextSeedRef_eq_model d ms reps hms hnd hsub hne
  rw [h]
  exact moreReps_succ_eq d ms n reps

/-- the allocation scan picks the model's nearest representative (children heads = the
    representatives, then empty children) -/
theorem scanGen_eq_model (d : Dist) (a : Nat) (reps : List Nat) (m : Nat) :
    scanGen d a (reps.map some ++ List.replicate m none) = nearestRep d reps a := by
  have hstep : ∀ i h st, scanStepGen d a i h st = scanStep d a i h st := by
    intro i h st
    cases h <;> rfl
  have hfrom : ∀ (l : List (Option Nat)) i st, scanFromGen d a l i st = scanFrom d a l i st := by
    intro l
    induction l with
    | nil => intro i st; rfl
    | cons h t ih =>
      intro i st
      rw [scanFromGen, scanFrom_cons, hstep, ih]
  unfold scanGen
  rw [hfrom]
  exact scanRef_eq_nearestRep d a reps m

end RtcVerif.Gen
"""

THEOREMS = ["firstSeedGen_eq_model", "nextSeedGen_eq_model", "scanGen_eq_model"]


def gen_cluster(c):
    """(re)generate lean/RtcVerif/Gen/ControlTreeCluster.lean; returns the extra obligations for c.prove"""
    gdir = os.path.join(LEAN_DIR, "RtcVerif", "Gen")
    os.makedirs(gdir, exist_ok=True)
    path = os.path.join(gdir, "ControlTreeCluster.lean")
    try:
        out = translate_cluster()
    except TranslationError as e:
        c.broken.append(("translator: ControlTreeMixin.discretize_controls.branch", str(e)))
        return []
    except (OSError, SyntaxError) as e:
        c.broken.append(("translator: ControlTreeMixin.discretize_controls.branch", "cannot read the source: %s" % e))
        return []
    text = GEN_TEMPLATE % out
    old = open(path).read() if os.path.exists(path) else None
    if old != text:
        tmp = path + ".tmp%d" % os.getpid()
        with open(tmp, "w") as f:
            f.write(text)
        os.replace(tmp, path)
    return [("RtcVerif.Gen.ControlTreeCluster", "RtcVerif.Gen", THEOREMS)]
