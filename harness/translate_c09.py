"""
Source-to-Lean translation of the simulation bookkeeping (second tie for C09, besides the
correspondence check).  On every run of the C09 check the functions below are parsed from
`$RTC_REPO/src/rtctools/simulation/{simulation_problem,io_mixin}.py`, executed symbolically PATH BY
PATH (every `if` forks, an oracle call forks into its outcomes; no merging) against the closed table
below, and `lean/RtcVerif/Gen/SimStep.lean` is (re)generated with

  getVarGen / setVarGen     SimulationProblem.get_var / set_var     = C09.getVar / C09.setVar
  updateGen                 SimulationProblem.update                = C09.update
  resetGen                  SimulationProblem.reset (+ the copy taken in initialize)  = C09.SimObj.reset
  ioUpdateGen               IOMixin.update                          = C09.ioUpdate
  initConstraintsGen        dataflow slice of initialize(): `equality_constraints`     = C09.symInitConstraints
  stepResidualGen           dataflow slice of initialize(): `dae_residual` -> `__res_vals` = C09.symStepResidual
  scaleGen                  the unscaled/scaled symbol loop of initialize()            = C09.scaleSubst
  (bridging lemmas `initConstraints_eq_sym`, `stepResidual_eq_sym` in Proofs/C09Sym.lean, by rfl)

so a change of the source breaks a proof obligation or is rejected by the translator (reported as
`translator: <function>` in c.broken); the check then goes on to its failing-input search.

CLOSED TABLE  (Python construct -> model term; anything else is REJECTED).  `s` = the live `Sim`.

  common expressions
    numbers, + - * /, < <= > >= == !=, not, local names              themselves (floats as exact rationals)
    self.__n_states                                                   M.L.nX
    len(self.__mx["parameters"])                                      M.L.nP
    self.__state_vector                                               s.sv
    self.__state_vector[e]                                            s.sv.getD e 0
    self.__state_vector[: self.__n_states]                            s.sv.take M.L.nX
    self.__state_vector[: -len(self.__mx["parameters"])]              s.sv.take (s.sv.length - M.L.nP)
    index, sign = self.__indices[name]                                the pair (i, neg) the model function takes;
                                                                      `sign < 0` is `neg = true`, `sign` is -1 / 1 there
    self.get_variable_nominal(name)                                   nomAt M.nom i   (TRUSTED: the name-keyed nominal
                                                                      dictionary is the model's index-keyed table)
    self.get_time_step() / self.get_current_time()                    s.dt / getTime M s
  statements
    x = e, x op= e (locals)                                           let
    self.__state_vector[e1] = e2                                      s := { s with sv := s.sv.set e1 e2 }
    self.__state_vector[: self.__n_states] = v.toarray().ravel()      s := { s with sv := v.take M.L.nX ++ s.sv.drop M.L.nX }
    self.set_time_step(e)                                             s := { s with dt := e }   (TRUSTED: dt not fixed)
    self.set_var("time", e)                                           s := setVar M s M.L.iT false e
    v = self.__do_step(g, dt, c)  ... self.__do_step.stats()["success"]
                                                                      ORACLE `root (fun X => stepResidual M F G X dt c) g`
                                                                      (TRUSTED: `__do_step` is `ca.rootfinder` of the
                                                                      `__res_vals` translated below); fork: `none`
                                                                      (success = False, v = junk) / `some next`
    if np.isnan(np.array(v, dtype=float)).any(): ...; raise           (v the root finder's answer, after the success test)
                                                                      nothing on the `some next` path (TRUSTED: an answer with
                                                                      nan entries is the oracle's `none` outcome, which raises
                                                                      too; a rational root has no nan); rejected elsewhere
    raise ...                                                         `.raised s`;   end of function / return: `.returned s`
    return e (get_var)                                                the value
    logger.*(...), docstrings, asserts, and `if`/`try` blocks that contain no raise/return, no
    assignment to self.* and no call of a state-changing method       nothing (logging / diagnostics)
    `if not self.__parameters_set_var:` guard of set_var              precondition of the model (name is not a parameter)
  reset / initialize
    self.__state_vector = copy.deepcopy(self.__initialized_state_vector)   cur.sv := init  (a FRESH copy: deepcopy, np.copy,
    self.__initialized_state_vector = copy.deepcopy(self.__state_vector)    np.array, .copy(); a bare reference or a slice
                                                                      `[:]` is a numpy VIEW and is rejected)
  IOMixin.update  (`st` = IOSim)
    if dt < 0: dt = self.__dt                                         dtImport
    self._simulation_times.append(e)                                  times := times ++ [e]
    bisect.bisect_left(self.io.times_sec, e)                          bisectLeft io.timesSec e
    self.__set_input_variables(idx, <cache flag>)                     ORACLE-like fork on `feed io idx sim`: `none` = IndexError
                                                                      (raise) / `some s1`  (TRUSTED: cache flag irrelevant)
    super().update(dt)                                                fork on `update io.M F G root sim dt`: raised s2 -> the
                                                                      exception propagates / returned s2
    for variable, values in self._io_output.items():
        values.append(self.get_var(variable))                         out := zipWith (· ++ [·]) out (record io sim)
                                                                      (only this form: the lists stored in the dict are
                                                                      appended to in place)
    self.__first_update_call = False                                  nothing (cache flag)
  initialize(): dataflow slices (statements that do not touch a tracked name are not read; ANY other
  assignment to / mutation of a tracked name anywhere in the function is rejected)
    ca.vertcat(a, b, *l, ...)                                         vcat ... ; self.__dae_residual / self.__initial_residual /
                                                                      extra_equations = symOf F / Finit / G; delay_equations = nil
                                                                      (C16's scope)
    for index, derivative_state in enumerate(self.__mx["derivatives"]):
        derivative_approximation_residuals.append(<row>)              symDerRows, <row> an arithmetic expression over
                                                                      derivative_state, X[index], X_prev[index], dt
    for sym_name, nominal in self.__nominals.items(): index, _ = self.__indices[sym_name];
        if index <op> self.__n_states: (un)scaled_symbols.append(X[index] / X[index] <op> nominal / X_prev ...)
                                                                      scaleGen (guard and arithmetic from the source), prev flag
    ca.substitute(e, unscaled_symbols, scaled_symbols)                substScale scaleGen prev e
    ca.substitute(e, const_and_par | parameters, <values>)            e   (TRUSTED: numeric values for time/inputs/parameters)
    ca.Function("res_vals", [X, dt, constants], [dae_residual]), nlp "g": equality_constraints   the final value is what is used
"""
import ast
import re
import os
from fractions import Fraction

from .common import LEAN_DIR, REPO
from .translate import TranslationError, _find_method

BIN = {ast.Add: "+", ast.Sub: "-", ast.Mult: "*", ast.Div: "/"}
CMP = {ast.Eq: "=", ast.NotEq: "≠", ast.Lt: "<", ast.LtE: "≤", ast.Gt: ">", ast.GtE: "≥"}
MUTATORS = ("set_var", "set_time_step", "reset", "update", "initialize", "setup_experiment")


def _u(node, n=110):
    try:
        return ast.unparse(node)[:n]
    except Exception:
        return ast.dump(node)[:n]


def _is_logging(st):
    return isinstance(st, ast.Expr) and isinstance(st.value, ast.Call) and _u(st.value.func).startswith("logger.")


def _harmless(stmts):
    """a block that cannot change the modelled state: no raise/return/break, no store to self.*,
    no call of a state-changing method"""
    for st in stmts:
        for node in ast.walk(st):
            if isinstance(node, (ast.Raise, ast.Return, ast.Break, ast.Continue, ast.Delete, ast.Global)):
                return False
            if isinstance(node, (ast.Assign, ast.AugAssign, ast.AnnAssign)):
                tg = node.targets if isinstance(node, ast.Assign) else [node.target]
                for t in tg:
                    for q in ast.walk(t):
                        if isinstance(q, ast.Name) and q.id == "self":
                            return False
            if isinstance(node, ast.Call):
                f = _u(node.func)
                if f.startswith("self.") and f.split(".")[-1] in MUTATORS:
                    return False
                if f.startswith("super()"):
                    return False
                if f.startswith("self.") and f.split(".")[-1] in ("append", "extend", "insert", "pop", "clear", "update"):
                    return False
    return True


def _num(v):
    q = Fraction(v)
    return "%d" % q.numerator if q.denominator == 1 and q >= 0 else "(%d / %d : Rat)" % (q.numerator, q.denominator) \
        if q.denominator != 1 else "(%d)" % q.numerator


class Ctx:
    """one execution path"""

    def __init__(self, S, env=None, n=0, extra=None):
        self.S = S  # Lean name of the live Sim
        self.env = dict(env or {})
        self.n = n
        self.extra = dict(extra or {})

    def copy(self):
        return Ctx(self.S, self.env, self.n, self.extra)

    def fresh(self, base):
        self.n += 1
        return "%s%d" % (base, self.n)


class Exec:
    """path-by-path symbolic execution of one method; `kind` selects the function-specific entries"""

    def __init__(self, kind):
        self.kind = kind

    # ---- expressions -----------------------------------------------------------------------------
    def expr(self, node, cx):
        S = cx.S
        if isinstance(node, ast.Constant):
            if isinstance(node.value, bool):
                return node.value
            if isinstance(node.value, (int, float)):
                return _num(node.value)
            if isinstance(node.value, str):
                return ("str", node.value)
            raise TranslationError("constant " + _u(node))
        if isinstance(node, ast.JoinedStr) or (isinstance(node, ast.Call) and isinstance(node.func, ast.Attribute)
                                               and node.func.attr == "format"
                                               and isinstance(node.func.value, (ast.Constant, ast.JoinedStr))):
            return ("str", "")  # a log / exception message
        if isinstance(node, ast.Name):
            if node.id in cx.env:
                return cx.env[node.id]
            raise TranslationError("unknown name `%s`" % node.id)
        if isinstance(node, ast.UnaryOp) and isinstance(node.op, ast.USub):
            return "(-%s)" % self.expr(node.operand, cx)
        if isinstance(node, ast.UnaryOp) and isinstance(node.op, ast.Not):
            v = self.expr(node.operand, cx)
            if isinstance(v, bool):
                return not v
            return "¬(%s)" % v
        if isinstance(node, ast.BinOp) and type(node.op) in BIN:
            a, b = self._signval(self.expr(node.left, cx)), self._signval(self.expr(node.right, cx))
            self._arith(a, b, node)
            return "(%s %s %s)" % (a, BIN[type(node.op)], b)
        if isinstance(node, ast.Compare) and len(node.ops) == 1 and type(node.ops[0]) in CMP:
            a, b = self.expr(node.left, cx), self.expr(node.comparators[0], cx)
            if isinstance(a, tuple) and a[0] == "sign":
                # sign < 0  <=>  negated alias
                if isinstance(node.ops[0], ast.Lt) and b == "0":
                    return "%s = true" % a[1] if a[2] is None else (a[2] < 0)
                raise TranslationError("comparison on the alias sign: " + _u(node))
            self._arith(a, b, node)
            return "%s %s %s" % (a, CMP[type(node.ops[0])], b)
        src = _u(node, 300)
        if src == "self.__n_states":
            return "M.L.nX"
        if src == "len(self.__mx['parameters'])":
            return "M.L.nP"
        if src == "self.__state_vector":
            return "%s.sv" % S
        if src == "self.__state_vector[:self.__n_states]":
            return "%s.sv.take M.L.nX" % S
        if src == "self.__state_vector[:-len(self.__mx['parameters'])]":
            return "%s.sv.take (%s.sv.length - M.L.nP)" % (S, S)
        if isinstance(node, ast.Subscript) and _u(node.value) == "self.__state_vector" \
                and not isinstance(node.slice, ast.Slice):
            return "%s.sv.getD (%s) 0" % (S, self.expr(node.slice, cx))
        if src == "self.get_time_step()":
            return "%s.dt" % S
        if src == "self.get_current_time()":
            return "getTime %s %s" % (self.Mname(), S)
        if isinstance(node, ast.Call) and _u(node.func) == "self.get_variable_nominal" and len(node.args) == 1 \
                and isinstance(node.args[0], ast.Name) and cx.extra.get("indexed_name") == node.args[0].id:
            return "nomAt %s.nom %s" % (self.Mname(), cx.extra["index_term"])
        if self.kind == "io":
            if src == "self.__dt":
                return "dtImport"
            if isinstance(node, ast.Call) and _u(node.func) == "bisect.bisect_left" and len(node.args) == 2 \
                    and _u(node.args[0]) == "self.io.times_sec":
                return "bisectLeft io.timesSec (%s)" % self.expr(node.args[1], cx)
        raise TranslationError("expression outside the table: " + src[:100])

    @staticmethod
    def _signval(v):
        """the alias sign inside a branch of its test is the number -1 / 1"""
        if isinstance(v, tuple) and v[0] == "sign" and v[2] is not None:
            return "(-1)" if v[2] < 0 else "1"
        return v

    def Mname(self):
        return "io.M" if self.kind == "io" else "M"

    def _arith(self, a, b, node):
        for v in (a, b):
            if not isinstance(v, str):
                raise TranslationError("arithmetic on a non-number: " + _u(node))

    # ---- statements ------------------------------------------------------------------------------
    def run(self, stmts, cx, ind):
        """Lean term (multi-line text) for the rest of the function along this path"""
        pad = "  " * ind
        if not stmts:
            return pad + self.fallthrough(cx)
        st, rest = stmts[0], stmts[1:]
        if isinstance(st, ast.Expr) and isinstance(st.value, ast.Constant):
            return self.run(rest, cx, ind)
        if _is_logging(st) or isinstance(st, ast.Assert) or isinstance(st, ast.Pass):
            return self.run(rest, cx, ind)
        special = self.special(st, rest, cx, ind)
        if special is not None:
            return special
        if isinstance(st, ast.Try) or (isinstance(st, ast.If) and self.diagnostic_if(st)):
            body = [st]
            if not _harmless(body):
                raise TranslationError("block changes state outside the table: " + _u(st, 80))
            return self.run(rest, cx, ind)
        if isinstance(st, ast.If):
            c = self.expr(st.test, cx)
            if isinstance(c, bool):
                return self.run((st.body if c else st.orelse) + rest, cx, ind)
            a = self.run(st.body + rest, cx.copy(), ind + 1)
            b = self.run(st.orelse + rest, cx.copy(), ind + 1)
            return "%sif %s then\n%s\n%selse\n%s" % (pad, c, a, pad, b)
        if isinstance(st, ast.Raise):
            return pad + self.raised(cx)
        if isinstance(st, ast.Return):
            return pad + self.returned(st, cx)
        if isinstance(st, ast.Assign) and len(st.targets) == 1 and isinstance(st.targets[0], ast.Name):
            v = self.expr(st.value, cx)
            return self.bind(st.targets[0].id, v, rest, cx, ind)
        if isinstance(st, ast.AugAssign) and isinstance(st.target, ast.Name) and type(st.op) in BIN:
            a, b = self.expr(st.target, cx), self.expr(st.value, cx)
            if isinstance(b, tuple) and b[0] == "sign":
                if b[2] is None:
                    raise TranslationError("alias sign used outside its test: " + _u(st))
                b = "(-1)" if b[2] < 0 else "1"
            self._arith(a, b, st)
            return self.bind(st.target.id, "(%s %s %s)" % (a, BIN[type(st.op)], b), rest, cx, ind)
        raise TranslationError("statement outside the table: " + _u(st, 90))

    def bind(self, name, val, rest, cx, ind):
        pad = "  " * ind
        if not isinstance(val, str):
            cx.env[name] = val
            return self.run(rest, cx, ind)
        v = cx.fresh(name.strip("_") or "v")
        cx.env[name] = v
        return "%slet %s := %s\n%s" % (pad, v, val, self.run(rest, cx, ind))

    def newstate(self, term, rest, cx, ind):
        pad = "  " * ind
        v = cx.fresh("s")
        out = "%slet %s : Sim := %s\n" % (pad, v, term)
        cx.S = v
        return out + self.run(rest, cx, ind)

    def diagnostic_if(self, st):
        t = _u(st.test)
        return t.startswith("np.isnan(") or t.startswith("logger.getEffectiveLevel()")

    # function-specific hooks
    def special(self, st, rest, cx, ind):
        return None

    def fallthrough(self, cx):
        raise TranslationError("end of function not expected")

    def raised(self, cx):
        raise TranslationError("raise not expected")

    def returned(self, st, cx):
        raise TranslationError("return not expected")


def _index_sign(st):
    """`index, sign = self.__indices[name]` -> (index local, sign local or None, name local)"""
    if isinstance(st, ast.Assign) and len(st.targets) == 1 and isinstance(st.targets[0], ast.Tuple) \
            and len(st.targets[0].elts) == 2 and all(isinstance(e, ast.Name) for e in st.targets[0].elts) \
            and isinstance(st.value, ast.Subscript) and _u(st.value.value) == "self.__indices" \
            and isinstance(st.value.slice, ast.Name):
        return st.targets[0].elts[0].id, st.targets[0].elts[1].id, st.value.slice.id
    return None


class GetSet(Exec):
    """get_var / set_var: result is a Rat (get) or a Sim (set)"""

    def special(self, st, rest, cx, ind):
        pad = "  " * ind
        isg = _index_sign(st)
        if isg:
            i, sg, nm = isg
            if nm != cx.extra["name_arg"]:
                raise TranslationError("index looked up for another name: " + _u(st))
            cx.env[i] = "i"
            cx.env[sg] = ("sign", "neg", None)
            cx.extra["indexed_name"], cx.extra["index_term"] = nm, "i"
            return self.run(rest, cx, ind)
        # test on the sign: fork with the sign known inside
        if isinstance(st, ast.If):
            try:
                c = self.expr(st.test, cx)
            except TranslationError:
                c = None
            if c == "neg = true":
                sgname = next(k for k, v in cx.env.items() if isinstance(v, tuple) and v[0] == "sign")
                a, b = cx.copy(), cx.copy()
                a.env[sgname] = ("sign", "neg", -1)
                b.env[sgname] = ("sign", "neg", 1)
                ta = self.run(st.body + rest, a, ind + 1)
                tb = self.run(st.orelse + rest, b, ind + 1)
                return "%sif neg = true then\n%s\n%selse\n%s" % (pad, ta, pad, tb)
            if self.kind == "set" and "__parameters_set_var" in _u(st.test):
                # guard: raises for parameter names after initialize(); precondition of the model
                for node in ast.walk(st):
                    if isinstance(node, (ast.Assign, ast.AugAssign, ast.Return)):
                        raise TranslationError("parameter guard of set_var does more than raise")
                return self.run(rest, cx, ind)
        if self.kind == "set" and isinstance(st, ast.Assign) and len(st.targets) == 1 \
                and isinstance(st.targets[0], ast.Subscript) and _u(st.targets[0].value) == "self.__state_vector" \
                and not isinstance(st.targets[0].slice, ast.Slice):
            i = self.expr(st.targets[0].slice, cx)
            v = self.expr(st.value, cx)
            self._arith(i, v, st)
            return self.newstate("{ %s with sv := %s.sv.set (%s) (%s) }" % (cx.S, cx.S, i, v), rest, cx, ind)
        return None

    def fallthrough(self, cx):
        if self.kind == "set":
            return cx.S
        raise TranslationError("get_var ends without return")

    def returned(self, st, cx):
        if self.kind == "get" and st.value is not None:
            v = self.expr(st.value, cx)
            self._arith(v, v, st)
            return v
        raise TranslationError("unexpected return " + _u(st))


class Update(Exec):
    """SimulationProblem.update"""

    def special(self, st, rest, cx, ind):
        pad = "  " * ind
        src = _u(st, 400)
        if isinstance(st, ast.Expr) and isinstance(st.value, ast.Call):
            f = _u(st.value.func)
            if f == "self.set_time_step" and len(st.value.args) == 1:
                e = self.expr(st.value.args[0], cx)
                self._arith(e, e, st)
                return self.newstate("{ %s with dt := (%s) }" % (cx.S, e), rest, cx, ind)
            if f == "self.set_var" and len(st.value.args) == 2 and isinstance(st.value.args[0], ast.Constant) \
                    and st.value.args[0].value == "time":
                e = self.expr(st.value.args[1], cx)
                self._arith(e, e, st)
                return self.newstate("setVar M %s M.L.iT false (%s)" % (cx.S, e), rest, cx, ind)
        # the root finder
        if isinstance(st, ast.Assign) and len(st.targets) == 1 and isinstance(st.targets[0], ast.Name) \
                and isinstance(st.value, ast.Call) and _u(st.value.func) == "self.__do_step":
            if "oracle" in cx.extra:
                raise TranslationError("root finder called twice on one path")
            if len(st.value.args) != 3 or st.value.keywords:
                raise TranslationError("root finder call shape: " + src[:80])
            g, d, cst = (self.expr(a, cx) for a in st.value.args)
            self._arith(g, d, st)
            self._arith(cst, cst, st)
            name = st.targets[0].id
            a, b = cx.copy(), cx.copy()
            a.extra["oracle"], b.extra["oracle"] = False, True
            a.env[name], b.env[name] = ("next", "junk"), ("next", "next")
            ta = self.run(rest, a, ind + 1)
            tb = self.run(rest, b, ind + 1)
            return ("%smatch root (fun X => stepResidual M F G X (%s) (%s)) (%s) with\n%s| none =>\n%s\n%s| some next =>\n%s"
                    % (pad, d, cst, g, pad, ta, pad, tb))
        if isinstance(st, ast.Assign) and len(st.targets) == 1 and isinstance(st.targets[0], ast.Name) \
                and _u(st.value) == "self.__do_step.stats()":
            if "oracle" not in cx.extra:
                raise TranslationError("root finder statistics read before the call")
            cx.env[st.targets[0].id] = ("stats", cx.extra["oracle"])
            return self.run(rest, cx, ind)
        # nan guard on the root finder's answer (commit ed37634): `if np.isnan(np.array(v, dtype=float)).any(): ... raise`
        if isinstance(st, ast.If) and not st.orelse and re.fullmatch(
                r"np\.isnan\((np\.array\((\w+), dtype=float\)|(\w+))\)\.any\(\)", _u(st.test)):
            m = re.fullmatch(r"np\.isnan\((np\.array\((\w+), dtype=float\)|(\w+))\)\.any\(\)", _u(st.test))
            nv = cx.env.get(m.group(2) or m.group(3))
            if isinstance(nv, tuple) and nv[0] == "next" and any(isinstance(q, ast.Raise) for q in st.body) \
                    and isinstance(st.body[-1], ast.Raise):
                if nv[1] != "next":
                    raise TranslationError("nan guard reached on the path where the root finder has failed")
                # TRUSTED: an answer with nan entries is the oracle's `none` outcome (no root returned), where the
                # function raises as well; on the `some next` path the answer is a rational root: the test is false
                return self.run(rest, cx, ind)
        # write-back
        if isinstance(st, ast.Assign) and len(st.targets) == 1 \
                and _u(st.targets[0]) == "self.__state_vector[:self.__n_states]":
            v = st.value
            if not (_u(v).endswith(".toarray().ravel()") and isinstance(v, ast.Call)):
                raise TranslationError("write-back value: " + _u(v))
            base = v.func.value.func.value  # <x>.toarray().ravel()
            nv = self.expr(base, cx) if isinstance(base, ast.Name) else None
            if not (isinstance(nv, tuple) and nv[0] == "next"):
                raise TranslationError("write-back of something else than the root finder's answer")
            return self.newstate("{ %s with sv := %s.take M.L.nX ++ %s.sv.drop M.L.nX }" % (cx.S, nv[1], cx.S),
                                 rest, cx, ind)
        return None

    def expr(self, node, cx):
        # rootfinder_stats["success"]
        if isinstance(node, ast.Subscript) and isinstance(node.value, ast.Name) \
                and isinstance(cx.env.get(node.value.id), tuple) and cx.env[node.value.id][0] == "stats":
            if isinstance(node.slice, ast.Constant) and node.slice.value == "success":
                return cx.env[node.value.id][1]
            raise TranslationError("statistics entry " + _u(node))
        return super().expr(node, cx)

    def diagnostic_if(self, st):
        return super().diagnostic_if(st)

    def fallthrough(self, cx):
        return ".returned %s" % cx.S

    def raised(self, cx):
        return ".raised %s" % cx.S


class IOUpdate(Exec):
    """IOMixin.update over `st : IOSim`; cx.extra carries times / out terms"""

    def result(self, tag, cx):
        return "%s { sim := %s, times := %s, out := %s }" % (tag, cx.S, cx.extra["times"], cx.extra["out"])

    def special(self, st, rest, cx, ind):
        pad = "  " * ind
        if isinstance(st, ast.Expr) and isinstance(st.value, ast.Call):
            call = st.value
            f = _u(call.func)
            if f == "self._simulation_times.append" and len(call.args) == 1:
                e = self.expr(call.args[0], cx)
                self._arith(e, e, st)
                v = cx.fresh("times")
                out = "%slet %s : List Rat := %s ++ [%s]\n" % (pad, v, cx.extra["times"], e)
                cx.extra["times"] = v
                return out + self.run(rest, cx, ind)
            if f == "self.__set_input_variables" and len(call.args) in (1, 2) and not call.keywords:
                idx = self.expr(call.args[0], cx)
                self._arith(idx, idx, st)
                a, b = cx.copy(), cx.copy()
                v = b.fresh("s")
                b.S = v
                ta = pad + "  " + self.result(".raised", a)
                tb = self.run(rest, b, ind + 1)
                return "%smatch feed io (%s) %s with\n%s| none =>\n%s\n%s| some %s =>\n%s" % (
                    pad, idx, cx.S, pad, ta, pad, v, tb)
            if f == "super().update" and len(call.args) == 1 and not call.keywords:
                d = self.expr(call.args[0], cx)
                self._arith(d, d, st)
                a, b = cx.copy(), cx.copy()
                va = vb = a.fresh("s")
                b.n = a.n
                a.S, b.S = va, vb
                ta = pad + "  " + self.result(".raised", a)
                tb = self.run(rest, b, ind + 1)
                return "%smatch update io.M F G root %s (%s) with\n%s| .raised %s =>\n%s\n%s| .returned %s =>\n%s" % (
                    pad, cx.S, d, pad, va, ta, pad, vb, tb)
        if isinstance(st, ast.For):
            if _u(st.iter) == "self._io_output.items()" and isinstance(st.target, ast.Tuple) \
                    and len(st.target.elts) == 2 and all(isinstance(e, ast.Name) for e in st.target.elts) \
                    and len(st.body) == 1 and not st.orelse:
                var, vals = st.target.elts[0].id, st.target.elts[1].id
                if _u(st.body[0]) == "%s.append(self.get_var(%s))" % (vals, var):
                    v = cx.fresh("out")
                    out = "%slet %s : List (List Rat) := List.zipWith (fun l v => l ++ [v]) %s (record io %s)\n" % (
                        pad, v, cx.extra["out"], cx.S)
                    cx.extra["out"] = v
                    return out + self.run(rest, cx, ind)
            raise TranslationError("output recording loop outside the table: " + _u(st, 120))
        if isinstance(st, ast.Assign) and _u(st.targets[0]) == "self.__first_update_call" \
                and isinstance(st.value, ast.Constant):
            return self.run(rest, cx, ind)
        return None

    def fallthrough(self, cx):
        return self.result(".returned", cx)

    def raised(self, cx):
        return self.result(".raised", cx)


# --------------------------------------------------------------------------------------------------
# reset / the copy taken in initialize


def _fresh_copy_of(node):
    """source expression that is a fresh copy of <x>; returns unparse(<x>) or None"""
    if isinstance(node, ast.Call):
        f = _u(node.func)
        if f in ("copy.deepcopy", "copy.copy", "np.copy", "np.array") and len(node.args) == 1 and not node.keywords:
            return _u(node.args[0])
        if isinstance(node.func, ast.Attribute) and node.func.attr == "copy" and not node.args:
            return _u(node.func.value)
    return None


def translate_reset(tree):
    fn = _find_method(tree, "SimulationProblem", "reset")
    body = [s for s in fn.body if not (isinstance(s, ast.Expr) and isinstance(s.value, ast.Constant)) and not _is_logging(s)]
    if len(body) != 1 or not isinstance(body[0], ast.Assign) or _u(body[0].targets[0]) != "self.__state_vector":
        raise TranslationError("reset(): expected exactly `self.__state_vector = <fresh copy of the saved vector>`")
    src = _fresh_copy_of(body[0].value)
    if src != "self.__initialized_state_vector":
        raise TranslationError("reset(): `%s` is not a fresh copy of self.__initialized_state_vector "
                               "(a reference or slice of a numpy array aliases it)" % _u(body[0].value))
    # the saved vector is a fresh copy taken in initialize(), and nothing else ever assigns it
    cls = next(n for n in ast.walk(tree) if isinstance(n, ast.ClassDef) and n.name == "SimulationProblem")
    stores = []
    for fn2 in [n for n in cls.body if isinstance(n, ast.FunctionDef)]:
        for node in ast.walk(fn2):
            if isinstance(node, (ast.Assign, ast.AugAssign)):
                tg = node.targets if isinstance(node, ast.Assign) else [node.target]
                for t in tg:
                    if "self.__initialized_state_vector" in _u(t):
                        stores.append((fn2.name, node))
    if len(stores) != 1 or stores[0][0] != "initialize" or not isinstance(stores[0][1], ast.Assign) \
            or _u(stores[0][1].targets[0]) != "self.__initialized_state_vector" \
            or _fresh_copy_of(stores[0][1].value) != "self.__state_vector":
        raise TranslationError("the saved initial state vector is not (only) a fresh copy taken in initialize(): %s"
                               % [(f, _u(n, 60)) for f, n in stores])
    return "{ o with cur := { o.cur with sv := o.init } }"


# --------------------------------------------------------------------------------------------------
# initialize(): dataflow slices


TRACKED = ("equality_constraints", "dae_residual", "derivative_approximation_residuals", "unscaled_symbols",
           "scaled_symbols", "delay_equations", "extra_equations", "X", "X_prev", "dt")


def _row_expr(node, names):
    """arithmetic over derivative_state, X[index], X_prev[index], dt"""
    d, idx = names
    if isinstance(node, ast.BinOp) and type(node.op) in BIN:
        return "(%s %s %s)" % (_row_expr(node.left, names), BIN[type(node.op)], _row_expr(node.right, names))
    if isinstance(node, ast.UnaryOp) and isinstance(node.op, ast.USub):
        return "(-%s)" % _row_expr(node.operand, names)
    if isinstance(node, ast.Constant) and isinstance(node.value, (int, float)) and not isinstance(node.value, bool):
        return _num(node.value)
    src = _u(node)
    if src == d:
        return "d"
    if src == "X[%s]" % idx:
        return "x"
    if src == "X_prev[%s]" % idx:
        return "xp"
    if src == "dt":
        return "dt"
    raise TranslationError("derivative row: term outside the table: " + src)


def translate_initialize(tree):
    fn = _find_method(tree, "SimulationProblem", "initialize")
    atoms = {"self.__dae_residual": "(symOf M.L F)", "self.__initial_residual": "(symOf M.L Finit)",
             "*extra_equations": "(symOf M.L G)", "*delay_equations": None}
    val = {}  # tracked local -> symbolic expression term
    handled = set()
    scale = {}
    row = None

    def vertcat(call):
        parts = []
        for a in call.args:
            src = _u(a)
            if src in atoms:
                if atoms[src] is not None:
                    parts.append(atoms[src])
            elif src == "*derivative_approximation_residuals":
                if row is None:
                    raise TranslationError("derivative rows used before they are built")
                parts.append("(symDerRows M.L rowGen)")
            elif isinstance(a, ast.Name) and a.id in val:
                parts.append(val[a.id])
            else:
                raise TranslationError("vertcat argument outside the table: " + src)
        if call.keywords or not parts:
            raise TranslationError("vertcat shape: " + _u(call))
        t = parts[0]
        for p in parts[1:]:
            t = "(SymExpr.vcat %s %s)" % (t, p)
        return t

    def rhs(target, node):
        if isinstance(node, ast.Call) and _u(node.func) == "ca.vertcat":
            return vertcat(node)
        if isinstance(node, ast.Call) and _u(node.func) == "ca.substitute" and len(node.args) == 3:
            e, a, b = node.args
            if not (isinstance(e, ast.Name) and e.id in val):
                raise TranslationError("substitute into an untracked expression: " + _u(node))
            if (_u(a), _u(b)) == ("unscaled_symbols", "scaled_symbols"):
                if not scale:
                    raise TranslationError("scaling substitution before the symbol lists are built")
                return "(SymExpr.substScale (scaleGen M.L M.nom) %s %s)" % ("true" if scale["prev"] else "false", val[e.id])
            if _u(a) in ("const_and_par", "parameters") and _u(b) in ("const_and_par_values", "parameters_values"):
                return val[e.id]
            raise TranslationError("substitution outside the table: " + _u(node))
        raise TranslationError("assignment to `%s` outside the table: %s" % (target, _u(node)))

    def visit(stmts):
        nonlocal row
        for st in stmts:
            if isinstance(st, ast.Assign) and len(st.targets) == 1 and isinstance(st.targets[0], ast.Name) \
                    and st.targets[0].id in ("equality_constraints", "dae_residual"):
                val[st.targets[0].id] = rhs(st.targets[0].id, st.value)
                handled.add(id(st))
            elif isinstance(st, ast.If) and _u(st.test) == "n_parameters > 0" and not st.orelse \
                    and len(st.body) >= 1 and any(isinstance(b, ast.Assign) and _u(b.targets[0]) == "dae_residual"
                                                  for b in st.body):
                # parameter values substituted into the step residual: identity in the algebra
                before = dict(val)
                visit(st.body)
                if val.get("dae_residual") != before.get("dae_residual"):
                    raise TranslationError("`if n_parameters > 0` changes the step residual")
            elif isinstance(st, ast.For) and _u(st.iter) == "enumerate(self.__mx['derivatives'])":
                if not (isinstance(st.target, ast.Tuple) and len(st.target.elts) == 2 and len(st.body) == 1
                        and isinstance(st.body[0], ast.Expr) and isinstance(st.body[0].value, ast.Call)
                        and _u(st.body[0].value.func) == "derivative_approximation_residuals.append"
                        and len(st.body[0].value.args) == 1):
                    raise TranslationError("derivative approximation loop outside the table: " + _u(st, 140))
                idx, d = st.target.elts[0].id, st.target.elts[1].id
                row = _row_expr(st.body[0].value.args[0], (d, idx))
                handled.update(id(n) for n in ast.walk(st))
            elif isinstance(st, ast.For) and _u(st.iter) == "self.__nominals.items()":
                scale.update(_scale_loop(st))
                handled.update(id(n) for n in ast.walk(st))

    visit(fn.body)
    # closedness: any other store / in-place mutation of a tracked name is rejected
    inits = {"derivative_approximation_residuals": "[]", "unscaled_symbols": "[]", "scaled_symbols": "[]",
             "delay_equations": "[]"}
    for node in ast.walk(fn):
        if id(node) in handled:
            continue
        if isinstance(node, (ast.Assign, ast.AugAssign)):
            tg = node.targets if isinstance(node, ast.Assign) else [node.target]
            for t in tg:
                for q in ast.walk(t):
                    if isinstance(q, ast.Name) and q.id in TRACKED and isinstance(q.ctx, ast.Store):
                        src = _u(node, 200)
                        ok = (q.id in inits and _u(node.value) == inits[q.id]) \
                            or (q.id in ("unscaled_symbols", "scaled_symbols") and _u(node.value) == "ca.vertcat(*%s)" % q.id) \
                            or (q.id == "extra_equations" and _u(node.value) == "self.extra_equations()") \
                            or (q.id == "X" and src.startswith("X = ca.vertcat(*self.__sym_list[:self.__n_state_symbols])")) \
                            or (q.id == "X_prev" and src.startswith("X_prev = ca.vertcat(*[ca.MX.sym(sym.name() + '_prev', sym.shape)")) \
                            or (q.id == "dt" and src == "dt = ca.MX.sym('delta_t')")
                        if not ok:
                            raise TranslationError("initialize(): tracked name `%s` assigned outside the table: %s" % (q.id, src[:90]))
        if isinstance(node, ast.Call) and isinstance(node.func, ast.Attribute) \
                and node.func.attr in ("append", "extend", "insert", "pop", "clear", "remove") \
                and isinstance(node.func.value, ast.Name) and node.func.value.id in TRACKED:
            # delay equations: the delay loop (C16) may append; everything else was handled above
            if node.func.value.id == "delay_equations":
                continue
            raise TranslationError("initialize(): tracked list `%s` changed outside the table: %s"
                                   % (node.func.value.id, _u(node, 90)))
    # uses of the final values
    uses = [_u(n, 300) for n in ast.walk(fn) if isinstance(n, ast.Call) and _u(n.func) == "ca.Function"]
    if not any(u.startswith("ca.Function('res_vals', [X, dt, constants], [dae_residual])") for u in uses):
        raise TranslationError("`__res_vals` is not ca.Function('res_vals', [X, dt, constants], [dae_residual])")
    if not any(u.startswith("ca.Function('f', [X], [objective_function, equality_constraints])") for u in uses):
        raise TranslationError("the initial NLP does not use `equality_constraints` as written in the table")
    for k in ("equality_constraints", "dae_residual"):
        if k not in val:
            raise TranslationError("`%s` never assigned" % k)
    if row is None or not scale:
        raise TranslationError("derivative rows / scaling loop not found")
    return val["equality_constraints"], val["dae_residual"], row, scale


def _scale_loop(st):
    """for sym_name, nominal in self.__nominals.items(): index, _ = self.__indices[sym_name]; if index <op> n_states: appends"""
    if not (isinstance(st.target, ast.Tuple) and len(st.target.elts) == 2):
        raise TranslationError("scaling loop target")
    sym, nominal = st.target.elts[0].id, st.target.elts[1].id
    body = [b for b in st.body if not (isinstance(b, ast.Expr) and isinstance(b.value, ast.Constant))]
    if len(body) != 2 or not isinstance(body[0], ast.Assign) or _u(body[0].value) != "self.__indices[%s]" % sym \
            or not isinstance(body[0].targets[0], ast.Tuple) or not isinstance(body[1], ast.If) or body[1].orelse:
        raise TranslationError("scaling loop body outside the table")
    index = body[0].targets[0].elts[0].id
    test = body[1].test
    if not (isinstance(test, ast.Compare) and len(test.ops) == 1 and type(test.ops[0]) in CMP
            and _u(test.left) == index and _u(test.comparators[0]) == "self.__n_states"):
        raise TranslationError("scaling loop guard: " + _u(test))
    guard = CMP[type(test.ops[0])]
    pairs = {"unscaled_symbols": [], "scaled_symbols": []}
    for b in body[1].body:
        if not (isinstance(b, ast.Expr) and isinstance(b.value, ast.Call) and isinstance(b.value.func, ast.Attribute)
                and b.value.func.attr == "append" and _u(b.value.func.value) in pairs and len(b.value.args) == 1):
            raise TranslationError("scaling loop statement outside the table: " + _u(b))
        pairs[_u(b.value.func.value)].append(b.value.args[0])
    un, sc = pairs["unscaled_symbols"], pairs["scaled_symbols"]
    if len(un) != len(sc) or not un:
        raise TranslationError("unscaled / scaled symbol lists do not pair up")

    def sc_expr(node, vec):
        if isinstance(node, ast.BinOp) and type(node.op) in BIN:
            return "(%s %s %s)" % (sc_expr(node.left, vec), BIN[type(node.op)], sc_expr(node.right, vec))
        if _u(node) == "%s[%s]" % (vec, index):
            return "X.getD i 0"
        if _u(node) == nominal:
            return "ν"
        if isinstance(node, ast.Constant) and isinstance(node.value, (int, float)):
            return _num(node.value)
        raise TranslationError("scaled symbol outside the table: " + _u(node))

    res = {}
    for u_, s_ in zip(un, sc):
        vec = _u(u_).split("[")[0]
        if _u(u_) != "%s[%s]" % (vec, index) or vec not in ("X", "X_prev") or vec in res:
            raise TranslationError("unscaled symbol outside the table: " + _u(u_))
        res[vec] = sc_expr(s_, vec)
    if "X" not in res:
        raise TranslationError("X is not scaled")
    if "X_prev" in res and res["X_prev"] != res["X"]:
        raise TranslationError("X and X_prev are scaled differently")
    return {"guard": guard, "expr": res["X"], "prev": "X_prev" in res}


# --------------------------------------------------------------------------------------------------


GEN_TEMPLATE = """import RtcVerif.Model.C09Sim
import RtcVerif.Proofs.C09Sym
import Mathlib.Tactic.Ring
import Mathlib.Tactic.SplitIfs
import Mathlib.Algebra.Order.Field.Rat
/-!
GENERATED on every run of the C09 check by harness/translate_c09.py from
`SimulationProblem.{get_var, set_var, update, reset, initialize}` (simulation_problem.py) and
`IOMixin.update` (io_mixin.py) in /repo/src/rtctools/simulation/ (path-by-path symbolic execution;
the statement table is in the header of the translator).  Do not edit.
The theorems tie the source, read this way, to the model the property theorems of C09 are about.
Proofs: `rfl` when the source has the model's shape, otherwise unfolding + case split + `ring_nf`.
-/
set_option linter.unreachableTactic false
set_option linter.unusedTactic false
set_option linter.unusedVariables false
namespace RtcVerif.Gen
open RtcVerif.C09

def getVarGen (M : Static) (s : Sim) (i : Nat) (neg : Bool) : Rat :=
%(get)s

theorem getVarGen_eq_model (M : Static) (s : Sim) (i : Nat) (neg : Bool) :
    getVarGen M s i neg = getVar M s i neg := by
  first
    | rfl
    | (unfold getVarGen getVar
       cases neg <;> simp only [] <;> split_ifs <;> first | rfl | ring_nf | simp_all)

def setVarGen (M : Static) (s : Sim) (i : Nat) (neg : Bool) (value : Rat) : Sim :=
%(set)s

theorem setVarGen_eq_model (M : Static) (s : Sim) (i : Nat) (neg : Bool) (value : Rat) :
    setVarGen M s i neg value = setVar M s i neg value := by
  first
    | rfl
    | (unfold setVarGen setVar
       cases neg <;> simp only [] <;> split_ifs <;> first | rfl | (congr 2; ring_nf) | simp_all)

def updateGen (M : Static) (F G : ResFn) (root : Root) (junk : Vec) (s : Sim) (dt : Rat) : Outcome Sim :=
%(update)s

theorem updateGen_eq_model (M : Static) (F G : ResFn) (root : Root) (junk : Vec) (s : Sim) (dt : Rat) :
    updateGen M F G root junk s dt = update M F G root s dt := by
  first
    | rfl
    | (unfold updateGen update
       simp only []
       split_ifs <;> first | rfl | (simp only [add_comm]; rfl) | (ring_nf; rfl) | simp_all)

def resetGen (o : SimObj) : SimObj :=
  %(reset)s

theorem resetGen_eq_model (o : SimObj) : resetGen o = o.reset := rfl

def ioUpdateGen (io : IOStatic) (F G : ResFn) (root : Root) (dtImport : Rat) (st : IOSim) (dt : Rat) :
    Outcome IOSim :=
%(io)s

theorem ioUpdateGen_eq_model (io : IOStatic) (F G : ResFn) (root : Root) (dtImport : Rat) (st : IOSim)
    (dt : Rat) : ioUpdateGen io F G root dtImport st dt = ioUpdate io F G root dtImport st dt := by
  first
    | rfl
    | (unfold ioUpdateGen ioUpdate
       simp only []
       split_ifs <;> first
         | rfl
         | (simp only [add_comm]; rfl)
         | (split <;> first | rfl | (split <;> first | rfl | simp_all) | simp_all)
         | simp_all)

/-- the (un)scaled symbol loop of `initialize()`: `X[i] ↦ <scaled>` for the entries of the nominal table -/
def scaleGen (L : Layout) (tab : NomTable) (X : Vec) : Vec :=
  (List.range X.length).map fun i =>
    match tab.lookup i with
    | some ν => if i %(guard)s L.nX then %(scexpr)s else X.getD i 0
    | none => X.getD i 0

theorem scaleGen_eq_model (L : Layout) (tab : NomTable) (X : Vec) : scaleGen L tab X = scaleSubst L tab X := by
  first
    | rfl
    | (unfold scaleGen scaleSubst
       apply List.map_congr_left
       intro i _
       cases tab.lookup i <;> simp only [] <;> split_ifs <;> first | rfl | ring_nf | simp_all)

/-- one derivative approximation row as written in the source -/
def rowGen (d x xp dt : Rat) : Rat := %(row)s

theorem rowGen_eq_model (d x xp dt : Rat) : rowGen d x xp dt = modelRow d x xp dt := by
  first
    | rfl
    | (unfold rowGen modelRow; ring_nf)

/-- `equality_constraints` of the initial NLP as assembled by `initialize()` -/
def initConstraintsGen (M : Static) (F Finit G : ResFn) : SymExpr :=
  %(eqc)s

theorem initConstraintsGen_eq_model (M : Static) (F Finit G : ResFn) :
    initConstraintsGen M F Finit G = symInitConstraints M F Finit G := by
  have hs : scaleGen M.L M.nom = scaleSubst M.L M.nom := funext (scaleGen_eq_model M.L M.nom)
  first
    | rfl
    | (unfold initConstraintsGen symInitConstraints; rw [hs])

/-- `dae_residual` handed to `ca.rootfinder` (`__res_vals`) as assembled by `initialize()` -/
def stepResidualGen (M : Static) (F G : ResFn) : SymExpr :=
  %(res)s

theorem stepResidualGen_eq_model (M : Static) (F G : ResFn) :
    stepResidualGen M F G = symStepResidual M F G := by
  have hs : scaleGen M.L M.nom = scaleSubst M.L M.nom := funext (scaleGen_eq_model M.L M.nom)
  have hr : rowGen = modelRow := by funext d x xp dt; exact rowGen_eq_model d x xp dt
  first
    | rfl
    | (unfold stepResidualGen symStepResidual; rw [hs, hr])
    | (unfold stepResidualGen symStepResidual; rw [hs])
    | (unfold stepResidualGen symStepResidual; rw [hr])

end RtcVerif.Gen
"""

THEOREMS = ["getVarGen_eq_model", "setVarGen_eq_model", "updateGen_eq_model", "resetGen_eq_model",
            "ioUpdateGen_eq_model", "scaleGen_eq_model", "rowGen_eq_model", "initConstraintsGen_eq_model",
            "stepResidualGen_eq_model"]

# fall-backs keep the generated file compilable when one piece is rejected (its theorem is then not claimed)
FALLBACK = {
    "get": "  getVar M s i neg", "set": "  setVar M s i neg value", "update": "  update M F G root s dt",
    "reset": "o.reset", "io": "  ioUpdate io F G root dtImport st dt", "guard": "≤", "scexpr": "X.getD i 0 * ν",
    "row": "modelRow d x xp dt", "eqc": "symInitConstraints M F Finit G", "res": "symStepResidual M F G",
}


def _args(fn, expected):
    a = [x.arg for x in fn.args.args]
    if a != expected:
        raise TranslationError("%s: unexpected signature %r" % (fn.name, a))


def translate_all(c=None):
    """returns (pieces, rejected) ; rejected = [(function, reason)]"""
    sim_path = os.path.join(REPO, "src", "rtctools", "simulation", "simulation_problem.py")
    io_path = os.path.join(REPO, "src", "rtctools", "simulation", "io_mixin.py")
    pieces, rejected, claimed = dict(FALLBACK), [], set(THEOREMS)

    def attempt(label, thms, f):
        try:
            pieces.update(f())
        except TranslationError as e:
            rejected.append((label, str(e)))
            claimed.difference_update(thms)
        except Exception as e:  # a source the translator cannot even walk
            rejected.append((label, "%s: %s" % (type(e).__name__, e)))
            claimed.difference_update(thms)

    try:
        sim_tree = ast.parse(open(sim_path).read())
        io_tree = ast.parse(open(io_path).read())
    except Exception as e:
        return pieces, [("simulation sources", str(e))], set()

    def t_get():
        fn = _find_method(sim_tree, "SimulationProblem", "get_var")
        _args(fn, ["self", "name"])
        ex = GetSet("get")
        return {"get": ex.run(list(fn.body), Ctx("s", {}, 0, {"name_arg": "name"}), 1)}

    def t_set():
        fn = _find_method(sim_tree, "SimulationProblem", "set_var")
        _args(fn, ["self", "name", "value"])
        ex = GetSet("set")
        return {"set": ex.run(list(fn.body), Ctx("s", {"value": "value"}, 0, {"name_arg": "name"}), 1)}

    def t_update():
        fn = _find_method(sim_tree, "SimulationProblem", "update")
        _args(fn, ["self", "dt"])
        return {"update": Update("update").run(list(fn.body), Ctx("s", {"dt": "dt"}), 1)}

    def t_reset():
        return {"reset": translate_reset(sim_tree)}

    def t_io():
        fn = _find_method(io_tree, "IOMixin", "update")
        _args(fn, ["self", "dt"])
        cx = Ctx("st.sim", {"dt": "dt"}, 0, {"times": "st.times", "out": "st.out"})
        return {"io": IOUpdate("io").run(list(fn.body), cx, 1)}

    def t_init():
        eqc, res, row, scale = translate_initialize(sim_tree)
        return {"eqc": eqc, "res": res, "row": row, "guard": scale["guard"], "scexpr": scale["expr"]}

    attempt("SimulationProblem.get_var", ["getVarGen_eq_model"], t_get)
    attempt("SimulationProblem.set_var", ["setVarGen_eq_model"], t_set)
    attempt("SimulationProblem.update", ["updateGen_eq_model"], t_update)
    attempt("SimulationProblem.reset", ["resetGen_eq_model"], t_reset)
    attempt("IOMixin.update", ["ioUpdateGen_eq_model"], t_io)
    attempt("SimulationProblem.initialize", ["scaleGen_eq_model", "rowGen_eq_model", "initConstraintsGen_eq_model",
                                             "stepResidualGen_eq_model"], t_init)
    return pieces, rejected, claimed


def gen_sim_step(c):
    """(re)generate lean/RtcVerif/Gen/SimStep.lean; returns the extra obligation spec for c.prove"""
    gdir = os.path.join(LEAN_DIR, "RtcVerif", "Gen")
    os.makedirs(gdir, exist_ok=True)
    path = os.path.join(gdir, "SimStep.lean")
    pieces, rejected, claimed = translate_all(c)
    for label, why in rejected:
        c.broken.append(("translator: " + label, why))
    if not claimed:
        return []
    text = GEN_TEMPLATE % pieces
    old = open(path).read() if os.path.exists(path) else None
    if old != text:
        tmp = path + ".tmp%d" % os.getpid()
        with open(tmp, "w") as f:
            f.write(text)
        os.replace(tmp, path)
    return [("RtcVerif.Gen.SimStep", "RtcVerif.Gen", [t for t in THEOREMS if t in claimed]),
            ("RtcVerif.Proofs.C09Sym", "RtcVerif.C09", ["initConstraints_eq_sym", "stepResidual_eq_sym"])]
