"""
Source-to-Lean translation of the priority loops of `GoalProgrammingMixin.optimize`
(goal_programming_mixin.py) and `SinglePassGoalProgrammingMixin.optimize`
(single_pass_goal_programming_mixin.py) -- a second tie for C10 besides the correspondence check.

On every run of the C10 check both methods are parsed from `$RTC_REPO/src/...` with `ast` and
executed symbolically, statement by statement, over the state `C10.PSt` of the statement-level
reference `lean/RtcVerif/Model/C10Loop.lean` (proved equal to the functional model the property
theorems are about: `C10_reference_agrees`).  `lean/RtcVerif/Gen/PriorityLoop.lean` is
(re)generated with, for X = MP (multi-pass) and SP (single-pass):

  loopOrderGenX   the list the priority loop iterates over      = C10.priorities
  prologueGenX    tracked assignments before the loop           = C10.prologueRef
  passGenX        one pass through the body of the loop         = C10.passRef
  epilogueGenX    what follows the loop                         = C10.epilogueRef
  optimizeGenX    the composition                               = C10.optimizeRef

A change of the source breaks one of these obligations or is rejected (`c.broken`), and the check
goes on to its failing-input search.

Closed table "Python construct -> model term".  TRACKED state: the local assigned from
`super().optimize(...)` (any name; called `success` below), `self.__results_are_current`,
`self.__results`, `self.skip_priority`, plus the event log / solver-call counter / base-class output.

 order of the loop
  <g> = self.goals() ; <pg> = self.path_goals()             the goal list `gs` (both kinds together)
  {int(goal.priority) for goal in itertools.chain(<g>, <pg>) if not goal.is_empty}
                                                            PSET: the set of `pyInt g.priority`, `isEmpty g = false`
  sorted(PSET)                                              SORTED = `C10.priorities gs` (`sortU`: ascending, distinct)
  <subs> = [] ; for p in SORTED: <subs>.append((p, [goal for goal in <g> if int(goal.priority) == p and
      not goal.is_empty], [same over <pg>]))                SUBS: one entry per element of SORTED, in that order,
                                                            with the goals `C10.goalsAt gs p`
  for p in SORTED:   /  for i, (p, _, _) in enumerate(SUBS):  the priority loop, over `C10.priorities gs`
  iterating PSET itself (unordered)                         REJECTED
 tracked statements (before the loop: prologue; in the loop body: pass)
  success = False / self.skip_priority = False / self.__results_are_current = <bool>
                                                            success / skipFlag / current := <bool>
  self.priority_started(p)                                  events ++ [started p]; skipFlag := skip p  (the value the
                                                            user's hook leaves in `self.skip_priority`)
  if self.skip_priority: ... continue                       `if st.skipFlag = true then (st, .next) else ...`
  success = super().optimize(preprocessing=False, postprocessing=False, ...)
                                                            events ++ [solve p (oracle st.nsolves)]; success := that outcome;
                                                            lastRaw := (run, p, outcome); nsolves + 1
  if not success: break                                     `if st.success = false then (st, .stop) else ...`
  self.__results = [self.extract_results(m) for m in range(self.ensemble_size)]
                                                            results := `C10.extractNow st` (the mixin's OWN extract_results:
                                                            cache if marked current, else the base class)
  self.priority_completed(p)                                events ++ [completed p]; views ++ [(p, extractNow st)]
                                                            (what extract_results() returns inside the hook)
  continue / break / end of the body                        (st, .next) / (st, .stop) / (st, .next)
  after the loop: if postprocessing: self.post()            events ++ [post];   return success   -> `PSt.success`
 statements without effect on the tracked state (only these)
  logger.<level>(...), docstrings, pass
  if preprocessing: self.pre()
  assignments (also tuple / augmented) to locals other than `success`/the loop variable and to `self.<attr>`
      other than the tracked ones, whose right-hand side calls none of optimize / extract_results /
      priority_started / priority_completed / pre / post        (constraint and objective bookkeeping, `_gp_first_run`)
  self._gp_validate_goals(..) / self._gp_update_constraint_store(..) / self.__soft_to_hard_constraints(..) /
      self.__add_subproblem_objective_constraint() / <x>.append(..) / <x>.extend(..) / delattr(self, ..)
  `if`/`for` whose bodies consist of such statements only;  `if <c>: raise Exception(..)` before the loop
      (option / goal validation: raises before any hook runs)
 `Goal.is_empty` (goal_programming_mixin_base.py) -> `isEmptyGenC10 g` = `C10.isEmpty g` (`isEmptyGen_eq_model`)
  self.target_min / self.target_max                         SIDE: the target side `g.targetMin` / `g.targetMax`
  <x> = self.target_<s>                                     local bound to that SIDE
  if isinstance(<x>, Timeseries): <x> = <x>.values          local re-bound to the ENTRIES of the same side
  isinstance(SIDE, Timeseries)                              `g.target<S>.isSeries`   (on ENTRIES: REJECTED)
  np.any(np.isfinite(ENTRIES))                              `anyFinite g.target<S>`   (some entry finite)
  np.all(np.isfinite(ENTRIES))                              `allFinite g.target<S>`   (every entry finite)
  isinstance(SIDE, Timeseries) or ... np.any|all(np.isfinite(SIDE))
                                                            the same on an unconverted SIDE, ONLY to the right of that
                                                            `isinstance` test in one `or` (short-circuit: np.isfinite of a
                                                            Timeseries raises TypeError); unguarded: REJECTED
  <b> = <bool expr>  /  not, and, or, True, False, <b>      Bool local / `!`, `&&`, `||`, `true`, `false`
  if <bool expr>: return <bool expr>   (no else)            `if c then r else <rest of the body>`
  return <bool expr>                                        the value;  comments / docstrings: no effect
 anything else                                              REJECTED (TranslationError)
"""
import ast
import os

from .common import LEAN_DIR, REPO
from .translate import TranslationError, _find_method

TRACKED_ATTRS = {"__results_are_current": "current", "skip_priority": "skipFlag"}
FORBIDDEN_CALLS = {"optimize", "extract_results", "priority_started", "priority_completed", "pre", "post"}
NOEFFECT_CALLS = {"_gp_validate_goals", "_gp_update_constraint_store", "__soft_to_hard_constraints",
                  "__add_subproblem_objective_constraint"}


def _dump(node, n=110):
    try:
        return ast.unparse(node).replace("\n", " ")[:n]
    except Exception:
        return ast.dump(node)[:n]


def _self_attr(node, name=None):
    return isinstance(node, ast.Attribute) and isinstance(node.value, ast.Name) and node.value.id == "self" \
        and (name is None or node.attr == name)


def _self_call(node, name):
    return isinstance(node, ast.Call) and _self_attr(node.func, name)


def _is_logging(st):
    return isinstance(st, ast.Expr) and isinstance(st.value, ast.Call) and isinstance(st.value.func, ast.Attribute) \
        and isinstance(st.value.func.value, ast.Name) and st.value.func.value.id == "logger"


def _calls_in(node):
    out = set()
    for n in ast.walk(node):
        if isinstance(n, ast.Call):
            f = n.func
            out.add(f.attr if isinstance(f, ast.Attribute) else (f.id if isinstance(f, ast.Name) else "?"))
    return out


def _is_super_optimize(v):
    return isinstance(v, ast.Call) and isinstance(v.func, ast.Attribute) and v.func.attr == "optimize" \
        and isinstance(v.func.value, ast.Call) and isinstance(v.func.value.func, ast.Name) \
        and v.func.value.func.id == "super" and not v.func.value.args


def _targets(t):
    if isinstance(t, (ast.Tuple, ast.List)):
        for e in t.elts:
            yield from _targets(e)
    else:
        yield t


class _Tr:
    def __init__(self, what):
        self.what = what
        self.succ = None  # name of the local that holds the solver outcome
        self.pvar = None  # loop variable (priority)
        self.sym = {}  # dataflow values: name -> 'GOALS' | 'PGOALS' | 'PSET' | 'SORTED' | 'SUBS' | 'EMPTYLIST'
        self.n = 0
        self.solves = 0

    def fresh(self):
        self.n += 1
        return "st%d" % self.n

    # ---- statements without effect on the tracked state -----------------------------------------
    def noeffect(self, st, in_prologue):
        if _is_logging(st) or isinstance(st, ast.Pass):
            return True
        if isinstance(st, ast.Expr) and isinstance(st.value, ast.Constant):
            return True
        if isinstance(st, ast.If) and isinstance(st.test, ast.Name) and st.test.id == "preprocessing" and not st.orelse \
                and len(st.body) == 1 and isinstance(st.body[0], ast.Expr) and _self_call(st.body[0].value, "pre"):
            if not in_prologue:
                raise TranslationError("pre-processing inside the priority loop")
            return True
        if isinstance(st, (ast.Assign, ast.AugAssign, ast.AnnAssign)):
            tgts = st.targets if isinstance(st, ast.Assign) else [st.target]
            for t0 in tgts:
                for t in _targets(t0):
                    if isinstance(t, ast.Name):
                        if t.id in (self.succ, self.pvar):
                            return False
                    elif _self_attr(t):
                        if t.attr in TRACKED_ATTRS or t.attr == "__results":
                            return False
                    elif isinstance(t, ast.Subscript):
                        base = t.value
                        if _self_attr(base) and (base.attr in TRACKED_ATTRS or base.attr == "__results"):
                            return False
                    else:
                        return False
            if st.value is not None and (_calls_in(st.value) & FORBIDDEN_CALLS):
                return False
            return True
        if isinstance(st, ast.Expr) and isinstance(st.value, ast.Call):
            f = st.value.func
            if _calls_in(st.value) & FORBIDDEN_CALLS:
                return False
            if _self_attr(f) and f.attr in NOEFFECT_CALLS:
                return True
            if isinstance(f, ast.Attribute) and f.attr in ("append", "extend"):
                base = f.value
                if _self_attr(base) and (base.attr in TRACKED_ATTRS or base.attr == "__results"):
                    return False
                return True
            if isinstance(f, ast.Name) and f.id == "delattr":
                return True
            return False
        if isinstance(st, ast.If):
            if in_prologue and not st.orelse and len(st.body) == 1 and isinstance(st.body[0], ast.Raise) \
                    and not (_calls_in(st.test) & FORBIDDEN_CALLS):
                return True
            if _calls_in(st.test) & FORBIDDEN_CALLS:
                return False
            return all(self.noeffect(x, in_prologue) for x in st.body + st.orelse)
        if isinstance(st, ast.For):
            if st.orelse or (_calls_in(st.iter) & FORBIDDEN_CALLS):
                return False
            return all(self.noeffect(x, in_prologue) for x in st.body)
        return False

    # ---- dataflow of the priority list ----------------------------------------------------------
    def value_kind(self, v):
        """symbolic kind of an expression that may denote the goals / the priority set / its sorted list"""
        if _self_call(v, "goals") and not v.args:
            return "GOALS"
        if _self_call(v, "path_goals") and not v.args:
            return "PGOALS"
        if isinstance(v, ast.Name) and v.id in self.sym:
            return self.sym[v.id]
        if isinstance(v, ast.List) and not v.elts:
            return "EMPTYLIST"
        if isinstance(v, ast.SetComp):
            return "PSET" if self.is_priority_set(v) else None
        if isinstance(v, ast.Call) and isinstance(v.func, ast.Name) and v.func.id == "sorted" and len(v.args) == 1 \
                and not v.keywords:
            return "SORTED" if self.value_kind(v.args[0]) == "PSET" else None
        return None

    def _int_priority(self, e, var):
        return isinstance(e, ast.Call) and isinstance(e.func, ast.Name) and e.func.id == "int" and len(e.args) == 1 \
            and isinstance(e.args[0], ast.Attribute) and e.args[0].attr == "priority" \
            and isinstance(e.args[0].value, ast.Name) and e.args[0].value.id == var

    def _not_empty(self, e, var):
        return isinstance(e, ast.UnaryOp) and isinstance(e.op, ast.Not) and isinstance(e.operand, ast.Attribute) \
            and e.operand.attr == "is_empty" and isinstance(e.operand.value, ast.Name) and e.operand.value.id == var

    def is_priority_set(self, v):
        if len(v.generators) != 1:
            return False
        g = v.generators[0]
        if not isinstance(g.target, ast.Name):
            return False
        var = g.target.id
        it = g.iter
        chain = isinstance(it, ast.Call) and isinstance(it.func, ast.Attribute) and it.func.attr == "chain" \
            and isinstance(it.func.value, ast.Name) and it.func.value.id == "itertools" and len(it.args) == 2 \
            and {self.value_kind(a) for a in it.args} == {"GOALS", "PGOALS"}
        return chain and self._int_priority(v.elt, var) and len(g.ifs) == 1 and self._not_empty(g.ifs[0], var)

    def is_subproblem_loop(self, st):
        """for p in SORTED: <subs>.append((p, [g for g in goals if int(g.priority) == p and not g.is_empty], [...]))"""
        if not (isinstance(st, ast.For) and isinstance(st.target, ast.Name) and len(st.body) == 1 and not st.orelse):
            return None
        b = st.body[0]
        if not (isinstance(b, ast.Expr) and isinstance(b.value, ast.Call) and isinstance(b.value.func, ast.Attribute)
                and b.value.func.attr == "append" and isinstance(b.value.func.value, ast.Name)
                and self.sym.get(b.value.func.value.id) == "EMPTYLIST" and len(b.value.args) == 1):
            return None
        kind = self.value_kind(st.iter)
        if kind == "PSET":
            raise TranslationError("subproblems are built by iterating the priority SET (unordered): `%s`" % _dump(st.iter))
        if kind != "SORTED":
            raise TranslationError("subproblems are not built over sorted(<priority set>): `%s`" % _dump(st.iter))
        p = st.target.id
        tup = b.value.args[0]
        if not (isinstance(tup, ast.Tuple) and len(tup.elts) == 3 and isinstance(tup.elts[0], ast.Name) and tup.elts[0].id == p):
            raise TranslationError("unexpected subproblem entry `%s`" % _dump(tup))
        kinds = []
        for lc in tup.elts[1:]:
            ok = isinstance(lc, ast.ListComp) and len(lc.generators) == 1 and isinstance(lc.generators[0].target, ast.Name) \
                and isinstance(lc.elt, ast.Name) and lc.elt.id == lc.generators[0].target.id and len(lc.generators[0].ifs) == 1
            if ok:
                g = lc.generators[0]
                var = g.target.id
                c = g.ifs[0]
                ok = isinstance(c, ast.BoolOp) and isinstance(c.op, ast.And) and len(c.values) == 2 \
                    and isinstance(c.values[0], ast.Compare) and len(c.values[0].ops) == 1 \
                    and isinstance(c.values[0].ops[0], ast.Eq) and self._int_priority(c.values[0].left, var) \
                    and isinstance(c.values[0].comparators[0], ast.Name) and c.values[0].comparators[0].id == p \
                    and self._not_empty(c.values[1], var)
                kinds.append(self.value_kind(g.iter))
            if not ok:
                raise TranslationError("subproblem goals are not `[g for g in goals if int(g.priority) == p and not g.is_empty]`")
        if kinds != ["GOALS", "PGOALS"]:
            raise TranslationError("subproblem entry does not hold (goals, path_goals) of the priority")
        return b.value.func.value.id

    # ---- tracked statements: returns a Lean record update of `S`, or None ------------------------
    def tracked(self, st, S, in_loop):
        if isinstance(st, ast.Assign) and len(st.targets) == 1:
            t, v = st.targets[0], st.value
            if isinstance(t, ast.Name) and t.id == self.succ:
                if isinstance(v, ast.Constant) and isinstance(v.value, bool):
                    return "{ %s with success := %s }" % (S, str(v.value).lower())
                if _is_super_optimize(v):
                    if not in_loop:
                        raise TranslationError("solver called outside the priority loop")
                    kw = {k.arg: k.value for k in v.keywords}
                    for name in ("preprocessing", "postprocessing"):
                        if not (name in kw and isinstance(kw[name], ast.Constant) and kw[name].value is False):
                            raise TranslationError("inner optimize() not called with %s=False" % name)
                    if self.solves:
                        raise TranslationError("more than one solver call per priority")
                    self.solves += 1
                    o = "oracle %s.nsolves" % S
                    return ("{ %s with events := %s.events ++ [.solve p (%s)], success := %s, "
                            "lastRaw := some (run, p, %s), nsolves := %s.nsolves + 1 }" % (S, S, o, o, o, S))
                raise TranslationError("`%s` assigned from `%s`" % (self.succ, _dump(v)))
            if _self_attr(t) and t.attr in TRACKED_ATTRS:
                if not (isinstance(v, ast.Constant) and isinstance(v.value, bool)):
                    raise TranslationError("self.%s assigned a non-literal: `%s`" % (t.attr, _dump(st)))
                return "{ %s with %s := %s }" % (S, TRACKED_ATTRS[t.attr], str(v.value).lower())
            if _self_attr(t, "__results"):
                ok = isinstance(v, ast.ListComp) and _self_call(v.elt, "extract_results") and len(v.generators) == 1 \
                    and isinstance(v.generators[0].iter, ast.Call) and isinstance(v.generators[0].iter.func, ast.Name) \
                    and v.generators[0].iter.func.id == "range" and len(v.generators[0].iter.args) == 1 \
                    and _self_attr(v.generators[0].iter.args[0], "ensemble_size") and not v.generators[0].ifs \
                    and len(v.elt.args) == 1 and isinstance(v.elt.args[0], ast.Name) \
                    and isinstance(v.generators[0].target, ast.Name) and v.elt.args[0].id == v.generators[0].target.id
                if not ok:
                    raise TranslationError("self.__results is not [self.extract_results(m) for every member]: `%s`" % _dump(v))
                return "{ %s with results := C10.extractNow %s }" % (S, S)
        if isinstance(st, ast.Expr) and isinstance(st.value, ast.Call) and in_loop:
            c = st.value
            for name, ev in (("priority_started", "started"), ("priority_completed", "completed")):
                if _self_call(c, name):
                    if not (len(c.args) == 1 and isinstance(c.args[0], ast.Name) and c.args[0].id == self.pvar and not c.keywords):
                        raise TranslationError("%s not called with the loop's priority" % name)
                    if ev == "started":
                        return "{ %s with events := %s.events ++ [.started p], skipFlag := skip p }" % (S, S)
                    return ("{ %s with events := %s.events ++ [.completed p], "
                            "views := %s.views ++ [(p, C10.extractNow %s)] }" % (S, S, S, S))
        return None

    def cond(self, test, S):
        neg = False
        if isinstance(test, ast.UnaryOp) and isinstance(test.op, ast.Not):
            neg, test = True, test.operand
        if isinstance(test, ast.Name) and test.id == self.succ:
            return "%s.success = %s" % (S, "false" if neg else "true")
        if _self_attr(test, "skip_priority"):
            return "%s.skipFlag = %s" % (S, "false" if neg else "true")
        raise TranslationError("condition on the tracked state not in the table: `%s`" % _dump(test))

    # ---- the body of the priority loop ------------------------------------------------------------
    def body(self, stmts, S, ind):
        pad = "  " * ind
        lines = []
        for i, st in enumerate(stmts):
            if self.noeffect(st, False):
                continue
            upd = self.tracked(st, S, True)
            if upd is not None:
                nv = self.fresh()
                lines.append("let %s : PSt := %s" % (nv, upd))
                S = nv
                continue
            if isinstance(st, ast.Continue):
                lines.append("(%s, .next)" % S)
                return "\n".join(pad + l for l in lines)
            if isinstance(st, ast.Break):
                lines.append("(%s, .stop)" % S)
                return "\n".join(pad + l for l in lines)
            if isinstance(st, ast.If):
                c = self.cond(st.test, S)
                rest = stmts[i + 1:]
                a = self.body(st.body + rest, S, ind + 1)
                b = self.body(st.orelse + rest, S, ind + 1)
                lines.append("if %s then" % c)
                return "\n".join(pad + l for l in lines) + "\n" + a + "\n" + pad + "else\n" + b
            raise TranslationError("statement in the priority loop not in the table: `%s`" % _dump(st))
        lines.append("(%s, .next)" % S)
        return "\n".join(pad + l for l in lines)


def translate_method(relpath, cls, tag):
    path = os.path.join(REPO, "src", "rtctools", "optimization", relpath)
    fn = _find_method(ast.parse(open(path).read()), cls, "optimize")
    tr = _Tr(cls + ".optimize")
    # the priority loop: the function-level `for` that calls priority_started
    loops = [st for st in fn.body if isinstance(st, ast.For) and "priority_started" in _calls_in(st)]
    if len(loops) != 1:
        raise TranslationError("%d function-level loops call priority_started" % len(loops))
    loop = loops[0]
    if loop.orelse:
        raise TranslationError("for ... else")
    succ = [n.targets[0].id for n in ast.walk(loop) if isinstance(n, ast.Assign) and len(n.targets) == 1
            and isinstance(n.targets[0], ast.Name) and _is_super_optimize(n.value)]
    if len(set(succ)) != 1:
        raise TranslationError("the solver outcome is not assigned to exactly one local")
    tr.succ = succ[0]
    idx = fn.body.index(loop)
    # ---- prologue
    S = "st"
    plines = []
    assigned = set()
    for st in fn.body[:idx]:
        if isinstance(st, ast.Assign) and len(st.targets) == 1 and isinstance(st.targets[0], ast.Name):
            kind = tr.value_kind(st.value)
            if kind is not None:
                tr.sym[st.targets[0].id] = kind
                continue
            tr.sym.pop(st.targets[0].id, None)
        sub = tr.is_subproblem_loop(st) if isinstance(st, ast.For) else None
        if sub:
            tr.sym[sub] = "SUBS"
            continue
        upd = tr.tracked(st, S, False)
        if upd is not None:
            nv = tr.fresh()
            plines.append("  let %s : PSt := %s" % (nv, upd))
            S = nv
            assigned.add(upd.split(" with ")[1].split(" :=")[0])
            continue
        if tr.noeffect(st, True):
            continue
        raise TranslationError("statement before the priority loop not in the table: `%s`" % _dump(st))
    if "success" not in assigned:
        raise TranslationError("`%s` is not initialised before the loop (unbound when there is no priority)" % tr.succ)
    plines.append("  %s" % S)
    # ---- what the loop iterates over
    it, tgt = loop.iter, loop.target
    if isinstance(it, ast.Call) and isinstance(it.func, ast.Name) and it.func.id == "enumerate" and len(it.args) == 1 \
            and tr.value_kind(it.args[0]) == "SUBS":
        ok = isinstance(tgt, ast.Tuple) and len(tgt.elts) == 2 and isinstance(tgt.elts[1], ast.Tuple) \
            and len(tgt.elts[1].elts) == 3 and isinstance(tgt.elts[1].elts[0], ast.Name)
        if not ok:
            raise TranslationError("unexpected loop target `%s`" % _dump(tgt))
        tr.pvar = tgt.elts[1].elts[0].id
    elif tr.value_kind(it) == "SORTED" and isinstance(tgt, ast.Name):
        tr.pvar = tgt.id
    elif tr.value_kind(it) == "PSET":
        raise TranslationError("the priority loop iterates the priority SET (unordered): `%s`" % _dump(it))
    else:
        raise TranslationError("the priority loop does not iterate sorted priorities / the subproblem list: `%s`" % _dump(it))
    # ---- body
    tr.n = 0
    body = tr.body(loop.body, "st", 1)
    if tr.solves != 1:
        raise TranslationError("no solver call in the priority loop")
    # ---- epilogue
    rest = [st for st in fn.body[idx + 1:] if not _is_logging(st)]
    elines = "st"
    if rest and isinstance(rest[0], ast.If) and isinstance(rest[0].test, ast.Name) and rest[0].test.id == "postprocessing" \
            and not rest[0].orelse and len(rest[0].body) == 1 and isinstance(rest[0].body[0], ast.Expr) \
            and _self_call(rest[0].body[0].value, "post"):
        elines = "{ st with events := st.events ++ [.post] }"
        rest = rest[1:]
    if not (len(rest) == 1 and isinstance(rest[0], ast.Return) and isinstance(rest[0].value, ast.Name)
            and rest[0].value.id == tr.succ):
        raise TranslationError("the method does not end with [post-processing;] `return %s`" % tr.succ)
    return dict(tag=tag, prologue="\n".join(plines), body=body, epilogue=elines)


HEADER = """import RtcVerif.Model.C10Loop
/-!
GENERATED on every run of the C10 check by harness/translate_c10.py from
`GoalProgrammingMixin.optimize` (goal_programming_mixin.py) and
`SinglePassGoalProgrammingMixin.optimize` (single_pass_goal_programming_mixin.py) in /repo
(symbolic execution of the statements that touch the hook / solver / results-cache state; the
statement table is in the header of the translator).  Do not edit.  The theorems tie the source,
read this way, to the statement-level reference `Model/C10Loop.lean`, which `C10_reference_agrees`
(Props/C10.lean) ties to the model of the property theorems.
-/
namespace RtcVerif.Gen
open RtcVerif.C10
"""

PIECE = """
/-! ### %(cls)s -/

/-- what the priority loop iterates over: `sorted({int(g.priority) for g in goals + path_goals if not g.is_empty})` -/
def loopOrderGen%(tag)s (gs : List Goal) : List Int := C10.priorities gs

/-- tracked assignments before the loop -/
def prologueGen%(tag)s (st : PSt) : PSt :=
%(prologue)s

/-- one pass through the body of the priority loop -/
def passGen%(tag)s (run : Nat) (skip : Int → Bool) (oracle : Nat → Bool) (st : PSt) (p : Int) : PSt × Flow :=
%(body)s

/-- after the loop -/
def epilogueGen%(tag)s (st : PSt) : PSt := %(epilogue)s

def optimizeGen%(tag)s (run : Nat) (pst : Persist) (r : RunSpec) : PSt :=
  epilogueGen%(tag)s (forLoop (passGen%(tag)s run r.skip r.oracle) (prologueGen%(tag)s (enter pst)) (loopOrderGen%(tag)s r.gs))

theorem prologueGen%(tag)s_eq_model (st : PSt) : prologueGen%(tag)s st = C10.prologueRef %(variant)s st := rfl

theorem passGen%(tag)s_eq_model (run : Nat) (skip : Int → Bool) (oracle : Nat → Bool) (st : PSt) (p : Int) :
    passGen%(tag)s run skip oracle st p = C10.passRef %(variant)s run skip oracle st p := by
  first
    | rfl
    | (unfold passGen%(tag)s C10.passRef C10.solveAndStore
       cases hs : skip p <;> cases ho : oracle st.nsolves <;> simp [hs, ho, C10.extractNow])

theorem epilogueGen%(tag)s_eq_model (st : PSt) : epilogueGen%(tag)s st = C10.epilogueRef st := rfl

theorem optimizeGen%(tag)s_eq_model (run : Nat) (pst : Persist) (r : RunSpec) :
    optimizeGen%(tag)s run pst r = C10.optimizeRef %(variant)s run pst r := by
  have h : passGen%(tag)s run r.skip r.oracle = C10.passRef %(variant)s run r.skip r.oracle := by
    funext st p; exact passGen%(tag)s_eq_model run r.skip r.oracle st p
  have hp : ∀ st, prologueGen%(tag)s st = C10.prologueRef %(variant)s st := prologueGen%(tag)s_eq_model
  have he : ∀ st, epilogueGen%(tag)s st = C10.epilogueRef st := epilogueGen%(tag)s_eq_model
  unfold optimizeGen%(tag)s C10.optimizeRef loopOrderGen%(tag)s
  rw [h, hp, he]
"""

class _Side:
    def __init__(self, side, entries=False):
        self.side, self.entries = side, entries

    @property
    def lean(self):
        return "g.targetMin" if self.side == "min" else "g.targetMax"


def translate_is_empty():
    """`Goal.is_empty` -> a Lean Bool term over `g : C10.Goal` (table in the module header)"""
    path = os.path.join(REPO, "src", "rtctools", "optimization", "goal_programming_mixin_base.py")
    fn = _find_method(ast.parse(open(path).read()), "Goal", "is_empty")
    env = {}

    def side(node):
        if isinstance(node, ast.Attribute) and isinstance(node.value, ast.Name) and node.value.id == "self" \
                and node.attr in ("target_min", "target_max"):
            return _Side(node.attr[-3:])
        if isinstance(node, ast.Name) and isinstance(env.get(node.id), _Side):
            return env[node.id]
        return None

    def np_call(node, names):
        return isinstance(node, ast.Call) and isinstance(node.func, ast.Attribute) and node.func.attr in names \
            and isinstance(node.func.value, ast.Name) and node.func.value.id in ("np", "numpy") \
            and len(node.args) == 1 and not node.keywords

    def is_series_test(node):
        """`isinstance(SIDE, Timeseries)` on an unconverted side -> that side, else None"""
        if isinstance(node, ast.Call) and isinstance(node.func, ast.Name) and node.func.id == "isinstance" \
                and len(node.args) == 2 and isinstance(node.args[1], ast.Name) and node.args[1].id == "Timeseries":
            sd = side(node.args[0])
            if sd is not None and not sd.entries:
                return sd
        return None

    def expr(node, guarded=frozenset()):
        """`guarded`: sides known NOT to be a Timeseries where this expression is evaluated (short-circuit `or`)"""
        if isinstance(node, ast.Constant) and isinstance(node.value, bool):
            return "true" if node.value else "false"
        if isinstance(node, ast.Name) and isinstance(env.get(node.id), str):
            return env[node.id]
        if isinstance(node, ast.UnaryOp) and isinstance(node.op, ast.Not):
            return "(!%s)" % expr(node.operand, guarded)
        if isinstance(node, ast.BoolOp):
            parts = []
            for v in node.values:
                parts.append(expr(v, guarded))
                sd = is_series_test(v)
                if sd is not None and isinstance(node.op, ast.Or):
                    guarded = guarded | {sd.side}  # later operands run only if this side is no Timeseries
            return "(" + (" && " if isinstance(node.op, ast.And) else " || ").join(parts) + ")"
        sd = is_series_test(node)
        if sd is not None:
            return sd.lean + ".isSeries"
        if np_call(node, ("any", "all")) and np_call(node.args[0], ("isfinite",)):
            sd = side(node.args[0].args[0])
            if sd is not None:
                if not sd.entries and sd.side not in guarded:
                    raise TranslationError("Goal.is_empty: np.isfinite() applied to target_%s where it may still be a "
                                           "Timeseries (raises TypeError): %s" % (sd.side, _dump(node)))
                return "(%s %s)" % ("anyFinite" if node.func.attr == "any" else "allFinite", sd.lean)
        raise TranslationError("Goal.is_empty: expression outside the table: " + _dump(node))

    def block(stmts):
        if not stmts:
            raise TranslationError("Goal.is_empty: a path falls off the end without `return`")
        st, rest = stmts[0], stmts[1:]
        if isinstance(st, ast.Expr) and isinstance(st.value, ast.Constant) and isinstance(st.value.value, str):
            return block(rest)
        if isinstance(st, ast.Return) and st.value is not None:
            return expr(st.value)
        if isinstance(st, ast.Assign) and len(st.targets) == 1 and isinstance(st.targets[0], ast.Name):
            sd = side(st.value)
            env[st.targets[0].id] = sd if sd is not None else expr(st.value)
            return block(rest)
        if isinstance(st, ast.If) and not st.orelse:
            t = st.test
            # if isinstance(x, Timeseries): x = x.values
            if len(st.body) == 1 and isinstance(st.body[0], ast.Assign) and isinstance(t, ast.Call) \
                    and isinstance(t.func, ast.Name) and t.func.id == "isinstance" and len(t.args) == 2 \
                    and isinstance(t.args[0], ast.Name) and isinstance(env.get(t.args[0].id), _Side) \
                    and isinstance(t.args[1], ast.Name) and t.args[1].id == "Timeseries":
                a = st.body[0]
                x = t.args[0].id
                if len(a.targets) == 1 and isinstance(a.targets[0], ast.Name) and a.targets[0].id == x \
                        and isinstance(a.value, ast.Attribute) and a.value.attr == "values" \
                        and isinstance(a.value.value, ast.Name) and a.value.value.id == x:
                    env[x] = _Side(env[x].side, entries=True)
                    return block(rest)
            if len(st.body) == 1 and isinstance(st.body[0], ast.Return) and st.body[0].value is not None:
                c, r = expr(t), expr(st.body[0].value)
                return "(if %s then %s else %s)" % (c, r, block(rest))
        raise TranslationError("Goal.is_empty: statement outside the table: " + _dump(st))

    return block(fn.body)


IS_EMPTY_PIECE = """
/-! ### Goal.is_empty (goal_programming_mixin_base.py) -/

/-- `Goal.is_empty`, read through the table of the translator -/
def isEmptyGenC10 (g : Goal) : Bool :=
  %(term)s

theorem isEmptyGen_eq_model (g : Goal) : isEmptyGenC10 g = C10.isEmpty g := by
  unfold isEmptyGenC10 C10.isEmpty
  cases g.targetMin.isSeries <;> cases g.targetMax.isSeries <;>
    cases anyFinite g.targetMin <;> cases anyFinite g.targetMax <;> rfl
"""


PIECES = (
    ("goal_programming_mixin.py", "GoalProgrammingMixin", "MP", ".multiPass"),
    ("single_pass_goal_programming_mixin.py", "SinglePassGoalProgrammingMixin", "SP", ".singlePass"),
)


def gen_priority_loop(c):
    """(re)generate lean/RtcVerif/Gen/PriorityLoop.lean; returns the extra obligation spec for c.prove"""
    gdir = os.path.join(LEAN_DIR, "RtcVerif", "Gen")
    os.makedirs(gdir, exist_ok=True)
    path = os.path.join(gdir, "PriorityLoop.lean")
    text = HEADER
    thms = []
    for rel, cls, tag, variant in PIECES:
        try:
            d = translate_method(rel, cls, tag)
        except TranslationError as e:
            c.broken.append(("translator: %s.optimize" % cls, str(e)))
            continue
        except (OSError, SyntaxError) as e:
            c.broken.append(("translator: %s.optimize" % cls, "cannot read/parse the source: %s" % e))
            continue
        d.update(cls=cls, variant=variant)
        text += PIECE % d
        thms += ["prologueGen%s_eq_model" % tag, "passGen%s_eq_model" % tag, "epilogueGen%s_eq_model" % tag,
                 "optimizeGen%s_eq_model" % tag]
    try:
        text += IS_EMPTY_PIECE % dict(term=translate_is_empty())
        thms.append("isEmptyGen_eq_model")
    except TranslationError as e:
        c.broken.append(("translator: Goal.is_empty", str(e)))
    except (OSError, SyntaxError) as e:
        c.broken.append(("translator: Goal.is_empty", "cannot read/parse the source: %s" % e))
    text += "\nend RtcVerif.Gen\n"
    if not thms:
        return []
    old = open(path).read() if os.path.exists(path) else None
    if old != text:
        tmp = path + ".tmp%d" % os.getpid()
        with open(tmp, "w") as f:
            f.write(text)
        os.replace(tmp, path)
    return [("RtcVerif.Gen.PriorityLoop", "RtcVerif.Gen", thms)]
