"""
Source-to-Lean translation for C11 (second tie between model and code, besides the correspondence).

On every run of the C11 check the index arithmetic of `pi.Timeseries` is parsed with `ast` from
`$RTC_REPO/src/rtctools/data/pi.py`, read through the CLOSED table below and written to
`lean/RtcVerif/Gen/PiAxis.lean` as `…Gen` definitions with `…Gen_eq_model` theorems.  Anything
outside the table is rejected (`c.broken`); a behaviour change inside it breaks a theorem.

translated                                       generated                  proved equal to
----------------------------------------------------------------------------------------------------
Timeseries.__floor_date_time                     floorGen                   C11.floorDT
Timeseries.resize  (WHOLE method: the 8 top-     nDeltaSEqGen, nTargetGen,  C11.resize   (via C11.resizeWith … = resize,
  level statements in order, both loops)         timesEqGen, nDeltaSNeqGen,               Proofs/C11Ref.lean)
                                                 nDeltaENeqGen, timesNeqGen,
                                                 cutFrontGen, fitEndGen, resizeGen
Timeseries.__init__ (equidistant counts:         tLenGen, nValuesGen,       C11.roundDivP1 / C11.nValues /
  t_len, n_values, the two filler lengths)       padFrontGen, padBackGen    C11.padFront / C11.padBack
Timeseries.__add_header (timeStep multiplier)    headerStepGen              the `step` of C11.mkHdr

Python construct                                   ->  model term                       (TRUSTED mapping)
----------------------------------------------------------------------------------------------------
datetimes / timedeltas                                 Int seconds (whole-second stamps)
(a - b).total_seconds() ; a - b  (datetimes)           a - b
X.total_seconds()   (X a time step)                    the step in seconds (d)
int(self.dt.total_seconds())                           d
int(round(p / q))                                      roundDiv p q      (Python round = half to even, exact rational)
int(round(p / q + 1))                                  roundDivP1 p q
int(round(p / q)) + 1  /  1 + int(round(p / q))        roundDiv p q + 1
bisect.bisect_left(self.__times, x)                    (bisectLeft times x : Int)
len(v)                                                 (v.length : Int)
a - b, a + 1 (index arithmetic)                        a - b, a + 1
delta.days * 86400 + delta.seconds  (either order)     delta            (a timedelta in whole seconds)
(s + r / 2) // r * r                                   (2 * s + r) / (2 * r) * r      (floor division, exact)
dt + datetime.timedelta(0, x, -dt.microsecond)         dt + x
n > 0 / n < 0 / a >= b / a <= b                        the same comparison
v[n:]   (n > 0)                                        v.drop n.toNat
v[:n]   (n < 0)                                        v.take (v.length - n.natAbs)
f = np.empty(k); f.fill(np.nan)                        nans k            (k = abs(n) ↦ n.natAbs ; k = n > 0 ↦ n.toNat)
np.hstack((f, v)) / np.hstack((v, f))                  nans k ++ v / v ++ nans k
for m in range(len(self.__values)): for key in self.__values[m].keys(): self.__values[m][key] = T(…)
                                                       mapVals T   (every stored array of every member)
self.__start_datetime = start_datetime  etc.           field updates of the Store (fixed positions in the method)
[start_datetime + i * self.__dt for i in range(n)]     (List.range n.toNat).map (fun i => ns + i * d)
self.__times[bisect_left(.., a) : bisect_left(.., b) + 1]   (times.take (bisectLeft times b + 1)).drop (bisectLeft times a)
raise ValueError(...)                                  none
docstrings, comments                                   ignored
anything else (an extra statement, another order)      TranslationError -> obligation broken
"""
import ast
import os

from .common import LEAN_DIR, REPO
from .translate import TranslationError, _find_method


def _u(node, n=120):
    try:
        return ast.unparse(node)[:n]
    except Exception:
        return ast.dump(node)[:n]


def _is_doc(st):
    return isinstance(st, ast.Expr) and isinstance(st.value, ast.Constant) and isinstance(st.value.value, str)


def _tree():
    return ast.parse(open(os.path.join(REPO, "src", "rtctools", "data", "pi.py")).read())


def _is_one(n):
    return isinstance(n, ast.Constant) and n.value == 1 and not isinstance(n.value, bool)


def ix(node, sym):
    """index / seconds expression -> Lean Int term.  `sym`: unparse text -> Lean term"""
    u = _u(node, 300)
    if u in sym:
        return sym[u]
    if isinstance(node, ast.Constant) and isinstance(node.value, int) and not isinstance(node.value, bool):
        return str(node.value)
    if isinstance(node, ast.Call) and not node.keywords:
        f = node.func
        # X.total_seconds()
        if isinstance(f, ast.Attribute) and f.attr == "total_seconds" and not node.args:
            return ix(f.value, sym)
        if isinstance(f, ast.Name) and f.id == "int" and len(node.args) == 1:
            a = node.args[0]
            if isinstance(a, ast.Call) and isinstance(a.func, ast.Name) and a.func.id == "round" and len(a.args) == 1 \
                    and not a.keywords:
                q = a.args[0]
                if isinstance(q, ast.BinOp) and isinstance(q.op, ast.Div):
                    return "roundDiv %s %s" % (_p(ix(q.left, sym)), _p(ix(q.right, sym)))
                if isinstance(q, ast.BinOp) and isinstance(q.op, ast.Add):
                    l, r = (q.left, q.right) if _is_one(q.right) else (q.right, q.left)
                    if _is_one(r) and isinstance(l, ast.BinOp) and isinstance(l.op, ast.Div):
                        return "roundDivP1 %s %s" % (_p(ix(l.left, sym)), _p(ix(l.right, sym)))
                raise TranslationError("int(round(…)) of something other than p / q [+ 1]: " + u)
            if isinstance(a, ast.Call) and isinstance(a.func, ast.Attribute) and a.func.attr == "total_seconds":
                return ix(a, sym)  # int(step.total_seconds())
        if isinstance(f, ast.Attribute) and _u(f) == "bisect.bisect_left" and len(node.args) == 2:
            if _u(node.args[0]) not in sym or sym[_u(node.args[0])] != "times":
                raise TranslationError("bisect_left on something other than the stamp list: " + u)
            return "(bisectLeft times %s : Int)" % _p(ix(node.args[1], sym))
        if isinstance(f, ast.Name) and f.id == "len" and len(node.args) == 1 and _u(node.args[0]) in sym:
            return "(%s.length : Int)" % sym[_u(node.args[0])]
    if isinstance(node, ast.BinOp):
        if isinstance(node.op, ast.Sub):
            return "%s - %s" % (ix(node.left, sym), _p(ix(node.right, sym)))
        if isinstance(node.op, ast.Add) and (_is_one(node.right) or _is_one(node.left)):
            other = node.left if _is_one(node.right) else node.right
            return "%s + 1" % ix(other, sym)
    raise TranslationError("unsupported index expression " + u)


def _p(t):
    return t if (" " not in t or (t.startswith("(") and t.endswith(")"))) else "(%s)" % t


# ---------------------------------------------------------------------------------------------
# __floor_date_time


def translate_floor():
    fn = _find_method(_tree(), "Timeseries", "__floor_date_time")
    if [a.arg for a in fn.args.args] != ["self", "dt", "tdel"]:
        raise TranslationError("signature of __floor_date_time")
    env = {}
    body = [s for s in fn.body if not _is_doc(s)]
    if not body or not isinstance(body[-1], ast.Return):
        raise TranslationError("__floor_date_time does not end with return")

    def num(n):
        u = _u(n, 300)
        if isinstance(n, ast.Name) and n.id in env:
            return env[n.id]
        if u == "tdel.total_seconds()":
            return ("d", "step")
        if u == "dt - self.__start_datetime":
            return ("(f - g)", "delta")
        if isinstance(n, ast.BinOp) and isinstance(n.op, ast.Add):
            # delta.days * 86400 + delta.seconds  (either order) = the whole timedelta
            parts = sorted([_u(n.left), _u(n.right)])
            for name, (t, k) in env.items():
                if k == "delta" and parts == sorted(["%s.days * 86400" % name, "%s.seconds" % name]):
                    return (t, "secs")
                if k == "delta" and parts == sorted(["86400 * %s.days" % name, "%s.seconds" % name]):
                    return (t, "secs")
        if isinstance(n, ast.BinOp) and isinstance(n.op, ast.Mult) and isinstance(n.left, ast.BinOp) \
                and isinstance(n.left.op, ast.FloorDiv):
            # (s + r / 2) // r * r
            fd, r2 = n.left, n.right
            r1 = fd.right
            s_half = fd.left
            if isinstance(s_half, ast.BinOp) and isinstance(s_half.op, ast.Add):
                a, b = s_half.left, s_half.right
                if not (isinstance(b, ast.BinOp) and isinstance(b.op, ast.Div)):
                    a, b = b, a
                if isinstance(b, ast.BinOp) and isinstance(b.op, ast.Div) and isinstance(b.right, ast.Constant) \
                        and b.right.value == 2:
                    (s, ks), (r, kr) = num(a), num(b.left)
                    if ks == "secs" and kr == "step" and num(r1) == (r, kr) and num(r2) == (r, kr):
                        return ("(2 * %s + %s) / (2 * %s) * %s" % (s, r, r, r), "secs")
            raise TranslationError("unsupported rounding expression " + u)
        if isinstance(n, ast.BinOp) and isinstance(n.op, ast.Sub):
            (a, ka), (b, kb) = num(n.left), num(n.right)
            if ka == "secs" and kb == "secs":
                return ("%s - %s" % (a, b), "secs")
        raise TranslationError("__floor_date_time: unsupported expression " + u)

    for s in body[:-1]:
        if not (isinstance(s, ast.Assign) and len(s.targets) == 1 and isinstance(s.targets[0], ast.Name)):
            raise TranslationError("__floor_date_time: unsupported statement " + _u(s))
        env[s.targets[0].id] = num(s.value)
    r = body[-1].value
    ok = isinstance(r, ast.BinOp) and isinstance(r.op, ast.Add) and _u(r.left) == "dt" and isinstance(r.right, ast.Call) \
        and _u(r.right.func) == "datetime.timedelta" and len(r.right.args) == 3 and not r.right.keywords \
        and _u(r.right.args[0]) == "0" and _u(r.right.args[2]) == "-dt.microsecond"
    if not ok:
        raise TranslationError("__floor_date_time: return is not dt + datetime.timedelta(0, x, -dt.microsecond)")
    x, kx = num(r.right.args[1])
    if kx != "secs":
        raise TranslationError("__floor_date_time: the shift is not in seconds")
    return "f + (%s)" % x


# ---------------------------------------------------------------------------------------------
# resize


def _loop_arrays(loop):
    """`for m in range(len(self.__values)): <body>` -> (member var, body)"""
    if not (isinstance(loop, ast.For) and isinstance(loop.target, ast.Name) and not loop.orelse
            and _u(loop.iter) == "range(len(self.__values))"):
        raise TranslationError("not a loop over all ensemble members: " + _u(loop, 80))
    return loop.target.id, loop.body


def _key_loop(st, m):
    if not (isinstance(st, ast.For) and isinstance(st.target, ast.Name) and not st.orelse
            and _u(st.iter) == "self.__values[%s].keys()" % m):
        raise TranslationError("not a loop over all series of the member: " + _u(st, 80))
    return st.target.id, st.body


def _filler(stmts, nname, how):
    """filler = np.empty(<k>); filler.fill(np.nan) -> (filler name, lean count)"""
    if len(stmts) < 2:
        raise TranslationError("filler statements missing")
    a, b = stmts[0], stmts[1]
    if not (isinstance(a, ast.Assign) and isinstance(a.targets[0], ast.Name) and _u(a.value.func) == "np.empty"
            and len(a.value.args) == 1 and not a.value.keywords):
        raise TranslationError("filler is not np.empty(k): " + _u(a))
    arg = _u(a.value.args[0])
    if how == "abs" and arg == "abs(%s)" % nname:
        cnt = "n.natAbs"
    elif how == "pos" and arg == nname:
        cnt = "n.toNat"
    else:
        raise TranslationError("filler length %s (expected %s of %s)" % (arg, how, nname))
    f = a.targets[0].id
    if _u(b) != "%s.fill(np.nan)" % f:
        raise TranslationError("filler is not filled with NaN: " + _u(b))
    return f, "nans %s" % cnt


def _cmp0(test, nname):
    if isinstance(test, ast.Compare) and len(test.ops) == 1 and _u(test.left) == nname and _u(test.comparators[0]) == "0":
        if isinstance(test.ops[0], ast.Gt):
            return "n > 0"
        if isinstance(test.ops[0], ast.Lt):
            return "n < 0"
    raise TranslationError("condition is not `%s > 0` / `%s < 0`: %s" % (nname, nname, _u(test)))


def translate_resize():
    fn = _find_method(_tree(), "Timeseries", "resize")
    if [a.arg for a in fn.args.args] != ["self", "start_datetime", "end_datetime"]:
        raise TranslationError("signature of resize")
    body = [s for s in fn.body if not _is_doc(s)]
    if len(body) != 8:
        raise TranslationError("resize has %d top-level statements, expected 8 (index shift at the start, loop, "
                               "start date, index shift at the end, target length, loop, end date, stamps): "
                               "first = %s" % (len(body), _u(body[0], 70)))
    s1, s2, s3, s4, s5, s6, s7, s8 = body
    base = {"start_datetime": "ns", "end_datetime": "ne", "self.__dt": "d", "self.__times": "times"}
    out = {}

    def shift(st, which):
        """S1 / S4: `if self.__dt: n = E else: if <guard>: n = E' else: raise`"""
        if not (isinstance(st, ast.If) and _u(st.test) == "self.__dt" and len(st.body) == 1 and len(st.orelse) == 1):
            raise TranslationError("resize: index shift at the %s is not `if self.__dt: … else: …`" % which)
        a = st.body[0]
        o = st.orelse[0]
        if not (isinstance(a, ast.Assign) and isinstance(a.targets[0], ast.Name)):
            raise TranslationError("resize: equidistant shift is not an assignment")
        name = a.targets[0].id
        old = "self.__start_datetime" if which == "start" else "self.__end_datetime"
        sym = dict(base)
        sym[old] = "start" if which == "start" else "stop"
        eq = ix(a.value, sym)
        if not (isinstance(o, ast.If) and len(o.body) == 1 and len(o.orelse) == 1 and isinstance(o.orelse[0], ast.Raise)
                and isinstance(o.body[0], ast.Assign) and _u(o.body[0].targets[0]) == name):
            raise TranslationError("resize: nonequidistant shift is not `if <guard>: n = … else: raise`")
        new = "start_datetime" if which == "start" else "end_datetime"
        want = "%s >= %s" % (new, old) if which == "start" else "%s <= %s" % (new, old)
        if _u(o.test) != want:
            raise TranslationError("resize: guard `%s`, expected `%s`" % (_u(o.test), want))
        guard = "ns ≥ start" if which == "start" else "ne ≤ stop"
        neq = "if %s then some (%s) else none" % (guard, ix(o.body[0].value, sym))
        return name, eq, neq

    nds, out["nDeltaSEq"], out["nDeltaSNeq"] = shift(s1, "start")
    # S2: first loop
    m, b = _loop_arrays(s2)
    if len(b) != 1 or not isinstance(b[0], ast.If):
        raise TranslationError("resize: first loop body is not one if/elif")
    top = b[0]
    c1 = _cmp0(top.test, nds)
    if len(top.body) != 1:
        raise TranslationError("resize: `%s` branch has extra statements" % c1)
    key, kb = _key_loop(top.body[0], m)
    tgt = "self.__values[%s][%s]" % (m, key)
    if len(kb) != 1 or " ".join(_u(kb[0], 300).split()) != "%s = %s[%s:]" % (tgt, tgt, nds):
        raise TranslationError("resize: first loop, shortening is not v = v[%s:]: %s" % (nds, _u(kb[0], 100)))
    if len(top.orelse) != 1 or not isinstance(top.orelse[0], ast.If) or top.orelse[0].orelse:
        raise TranslationError("resize: first loop has no plain `elif`")
    el = top.orelse[0]
    c2 = _cmp0(el.test, nds)
    if (c1, c2) != ("n > 0", "n < 0"):
        raise TranslationError("resize: first loop tests are %s / %s" % (c1, c2))
    f, nn = _filler(el.body, nds, "abs")
    if len(el.body) != 3:
        raise TranslationError("resize: lengthening branch of the first loop has extra statements")
    key2, kb2 = _key_loop(el.body[2], m)
    tgt2 = "self.__values[%s][%s]" % (m, key2)
    if len(kb2) != 1 or " ".join(_u(kb2[0], 300).split()) != "%s = np.hstack((%s, %s))" % (tgt2, f, tgt2):
        raise TranslationError("resize: first loop, lengthening is not hstack((filler, v)): " + _u(kb2[0], 100))
    out["cutFront"] = "if n > 0 then v.drop n.toNat else if n < 0 then %s ++ v else v" % nn
    # S3
    if _u(s3) != "self.__start_datetime = start_datetime":
        raise TranslationError("resize: third statement is not the start date update: " + _u(s3))
    nde, _dead_eq, out["nDeltaENeq"] = shift(s4, "end")
    # S5
    if not (isinstance(s5, ast.If) and _u(s5.test) == "self.__dt" and not s5.orelse and len(s5.body) == 1
            and isinstance(s5.body[0], ast.Assign) and isinstance(s5.body[0].targets[0], ast.Name)):
        raise TranslationError("resize: fifth statement is not `if self.__dt: n_target = …`")
    nt = s5.body[0].targets[0].id
    out["nTarget"] = ix(s5.body[0].value, dict(base))
    # S6: second loop
    m, b = _loop_arrays(s6)
    if len(b) != 1:
        raise TranslationError("resize: second loop over members has extra statements")
    key, kb = _key_loop(b[0], m)
    tgt = "self.__values[%s][%s]" % (m, key)
    if len(kb) != 3:
        raise TranslationError("resize: second loop body is not (values = …; if self.__dt: …; if/elif)")
    g0, g1, g2 = kb
    if not (isinstance(g0, ast.Assign) and isinstance(g0.targets[0], ast.Name) and _u(g0.value) == tgt):
        raise TranslationError("resize: second loop does not start with `values = stored array`")
    vname = g0.targets[0].id
    if not (isinstance(g1, ast.If) and _u(g1.test) == "self.__dt" and not g1.orelse and len(g1.body) == 1
            and _u(g1.body[0]) == "%s = %s - len(%s)" % (nde, nt, vname)):
        raise TranslationError("resize: equidistant end shift is not `%s = %s - len(%s)`: %s" % (nde, nt, vname, _u(g1, 100)))
    if not isinstance(g2, ast.If):
        raise TranslationError("resize: second loop has no if/elif")
    c1 = _cmp0(g2.test, nde)
    f, nn = _filler(g2.body, nde, "pos")
    if len(g2.body) != 3 or " ".join(_u(g2.body[2], 300).split()) != "%s = np.hstack((%s, %s))" % (tgt, vname, f):
        raise TranslationError("resize: second loop, lengthening is not hstack((v, filler)): " + _u(g2.body[-1], 100))
    if len(g2.orelse) != 1 or not isinstance(g2.orelse[0], ast.If) or g2.orelse[0].orelse:
        raise TranslationError("resize: second loop has no plain `elif`")
    el = g2.orelse[0]
    c2 = _cmp0(el.test, nde)
    if (c1, c2) != ("n > 0", "n < 0"):
        raise TranslationError("resize: second loop tests are %s / %s" % (c1, c2))
    if len(el.body) != 1 or " ".join(_u(el.body[0], 300).split()) != "%s = %s[:%s]" % (tgt, vname, nde):
        raise TranslationError("resize: second loop, shortening is not v[:%s]: %s" % (nde, _u(el.body[0], 100)))
    out["fitEnd"] = "if n > 0 then v ++ %s else if n < 0 then v.take (v.length - n.natAbs) else v" % nn
    # S7
    if _u(s7) != "self.__end_datetime = end_datetime":
        raise TranslationError("resize: seventh statement is not the end date update: " + _u(s7))
    # S8
    if not (isinstance(s8, ast.If) and _u(s8.test) == "self.__dt" and len(s8.body) == 1 and len(s8.orelse) == 1):
        raise TranslationError("resize: eighth statement is not the update of the stamps")
    a, o = s8.body[0], s8.orelse[0]
    lc = a.value if isinstance(a, ast.Assign) and _u(a.targets[0]) == "self.__times" else None
    if not (isinstance(lc, ast.ListComp) and len(lc.generators) == 1 and not lc.generators[0].ifs
            and _u(lc.generators[0].iter) == "range(%s)" % nt and isinstance(lc.generators[0].target, ast.Name)):
        raise TranslationError("resize: equidistant stamps are not a comprehension over range(%s)" % nt)
    i = lc.generators[0].target.id
    if _u(lc.elt) not in ("start_datetime + %s * self.__dt" % i, "start_datetime + self.__dt * %s" % i):
        raise TranslationError("resize: equidistant stamp is not start_datetime + i * dt: " + _u(lc.elt))
    out["timesEq"] = "(List.range nt.toNat).map (fun (i : Nat) => ns + (i : Int) * d)"
    want = ("self.__times = self.__times[bisect.bisect_left(self.__times, start_datetime):"
            "bisect.bisect_left(self.__times, end_datetime) + 1]")
    if "".join(_u(o, 400).split()) != "".join(want.split()):
        raise TranslationError("resize: nonequidistant stamps are not the slice [bisect(start) : bisect(end) + 1]")
    out["timesNeq"] = "(times.take (bisectLeft times ne + 1)).drop (bisectLeft times ns)"
    return out


# ---------------------------------------------------------------------------------------------
# reader counts and header step


def translate_counts():
    init = _find_method(_tree(), "Timeseries", "__init__")
    out = {}
    # t_len
    tl = [n for n in ast.walk(init) if isinstance(n, ast.Assign) and _u(n.targets[0]) == "t_len"]
    if len(tl) != 1:
        raise TranslationError("__init__: not exactly one `t_len = …`")
    out["tLen"] = ix(tl[0].value, {"self.__end_datetime": "stop", "self.__start_datetime": "start", "self.__dt": "d"})
    # n_values (equidistant branch)
    nv = [n for n in ast.walk(init) if isinstance(n, ast.If) and _u(n.test) == "self.__dt" and len(n.body) == 1
          and isinstance(n.body[0], ast.Assign) and _u(n.body[0].targets[0]) == "n_values"]
    if len(nv) != 1:
        raise TranslationError("__init__: not exactly one `if self.__dt: n_values = …`")
    out["nValues"] = ix(nv[0].body[0].value, {"end_datetime": "hstop", "start_datetime": "hstart", "dt": "d"})
    # fillers
    for which, test, sym in (
            ("padFront", "start_datetime > self.__start_datetime",
             {"start_datetime": "hstart", "self.__start_datetime": "gstart", "dt": "d"}),
            ("padBack", "end_datetime < self.__end_datetime",
             {"end_datetime": "hstop", "self.__end_datetime": "gstop", "dt": "d"})):
        blk = [n for n in ast.walk(init) if isinstance(n, ast.If) and _u(n.test) == test]
        if len(blk) != 1:
            raise TranslationError("__init__: not exactly one `if %s`" % test)
        inner = [n for n in blk[0].body if isinstance(n, ast.If) and _u(n.test) == "self.__dt"]
        if len(inner) != 1 or len(inner[0].body) != 1:
            raise TranslationError("__init__: padding block `%s` has no `if self.__dt: filler = …`" % test)
        a = inner[0].body[0]
        if not (isinstance(a, ast.Assign) and _u(a.targets[0]) == "filler" and _u(a.value.func) == "np.empty"
                and len(a.value.args) == 1):
            raise TranslationError("__init__: filler of `%s` is not np.empty(count, …)" % test)
        out[which] = ix(a.value.args[0], sym)
        # the filler goes to the right end
        hs = [n for n in blk[0].body if isinstance(n, ast.Assign) and _u(n.value.func) == "np.hstack"]
        cur = "self.__values[ensemble_member][variable]"
        want = "(filler, %s)" % cur if which == "padFront" else "(%s, filler)" % cur
        if len(hs) != 1 or " ".join(_u(hs[0].value.args[0], 300).split()) != want:
            raise TranslationError("__init__: `%s` does not stack the filler at the %s" % (test, "front" if which == "padFront" else "back"))
    # header step
    hd = _find_method(_tree(), "Timeseries", "__add_header")
    mult = [n for n in ast.walk(hd) if isinstance(n, ast.Call) and _u(n.func) == "el.set" and len(n.args) == 2
            and _u(n.args[0]) == "'multiplier'"]
    if len(mult) != 1 or _u(mult[0].args[1]) != "str(int(self.dt.total_seconds()))":
        raise TranslationError("__add_header: multiplier is not str(int(self.dt.total_seconds())): "
                               + (_u(mult[0].args[1]) if mult else "missing"))
    out["headerStep"] = "d"
    return out


# ---------------------------------------------------------------------------------------------

HEAD = """import RtcVerif.Model.C11
import RtcVerif.Proofs.C11Ref
/-!
GENERATED on every run of the C11 check by harness/translate_c11.py from
src/rtctools/data/pi.py of the tree under check.  Do not edit.  The `…Gen` definitions are the
source read through the construct table in the translator's header; the theorems tie them to the
model functions the C11 theorems are about.
-/
set_option linter.unusedVariables false
namespace RtcVerif.Gen
open RtcVerif RtcVerif.C11
"""

FLOOR = """
def floorGen (g d f : Int) : Int := %(t)s

theorem floorGen_eq_model (g d f : Int) : floorGen g d f = C11.floorDT g d f := rfl
"""

RESIZE = """
def nDeltaSEqGen (d start ns : Int) : Int := %(nDeltaSEq)s
def nTargetGen (d ns ne : Int) : Int := %(nTarget)s
def timesEqGen (d ns nt : Int) : List Int := %(timesEq)s
def nDeltaSNeqGen (times : List Int) (start ns : Int) : Option Int := %(nDeltaSNeq)s
def nDeltaENeqGen (times : List Int) (stop ne : Int) : Option Int := %(nDeltaENeq)s
def timesNeqGen (times : List Int) (ns ne : Int) : List Int := %(timesNeq)s
def cutFrontGen (n : Int) (v : List XVal) : List XVal := %(cutFront)s
def fitEndGen (n : Int) (v : List XVal) : List XVal := %(fitEnd)s

/-- the method: the pieces above in the (checked) statement order of the source -/
def resizeGen (ns ne : Int) (s : Store) : Option Store :=
  C11.resizeWith nDeltaSEqGen nTargetGen timesEqGen nDeltaSNeqGen nDeltaENeqGen timesNeqGen cutFrontGen fitEndGen ns ne s

theorem resizeGen_eq_model (ns ne : Int) (s : Store) : resizeGen ns ne s = C11.resize ns ne s := by
  have h1 : nDeltaSEqGen = C11.nDeltaSEqRef := rfl
  have h2 : nTargetGen = C11.nTargetRef := rfl
  have h3 : timesEqGen = C11.timesEqRef := rfl
  have h4 : nDeltaSNeqGen = C11.nDeltaSNeqRef := rfl
  have h5 : nDeltaENeqGen = C11.nDeltaENeqRef := rfl
  have h6 : timesNeqGen = C11.timesNeqRef := rfl
  have h7 : cutFrontGen = C11.cutFrontRef := rfl
  have h8 : fitEndGen = C11.fitEndRef := rfl
  unfold resizeGen
  rw [h1, h2, h3, h4, h5, h6, h7, h8]
  exact C11.resizeRef_eq ns ne s
"""

COUNTS = """
def tLenGen (d start stop : Int) : Int := %(tLen)s
def nValuesGen (d hstart hstop : Int) : Int := %(nValues)s
def padFrontGen (d gstart hstart : Int) : Int := %(padFront)s
def padBackGen (d gstop hstop : Int) : Int := %(padBack)s
def headerStepGen (d : Int) : Int := %(headerStep)s

theorem tLenGen_eq_model (d start stop : Int) : tLenGen d start stop = C11.roundDivP1 (stop - start) d := rfl

theorem nValuesGen_eq_model (g : Geo) (h : Hdr) (d0 d : Int) (hg : g.dt = some d0) (hs : h.step = some d) (hd : d ≠ 0) :
    C11.nValues g h = some (nValuesGen d h.start h.stop) := by
  unfold C11.nValues nValuesGen
  rw [hg, hs]
  simp only [hd, if_false]

theorem padFrontGen_eq_model (g : Geo) (h : Hdr) (d0 d : Int) (hg : g.dt = some d0) (hs : h.step = some d)
    (hlt : g.start < h.start) : C11.padFront g h = padFrontGen d g.start h.start := by
  unfold C11.padFront padFrontGen
  rw [if_pos hlt, hg, hs]
  rfl

theorem padBackGen_eq_model (g : Geo) (h : Hdr) (d0 d : Int) (hg : g.dt = some d0) (hs : h.step = some d)
    (hlt : h.stop < g.stop) : C11.padBack g h = padBackGen d g.stop h.stop := by
  unfold C11.padBack padBackGen
  rw [if_pos hlt, hg, hs]
  rfl

theorem headerStepGen_eq_model (s : Store) (m : Nat) (e : Entry) (d : Int) (hd : s.dt = some d) :
    (C11.mkHdr s m e).step = some (headerStepGen d) := by
  unfold C11.mkHdr headerStepGen
  exact hd
"""


def gen_pi_axis(c):
    """(re)generate lean/RtcVerif/Gen/PiAxis.lean; returns the extra obligation spec for c.prove"""
    gdir = os.path.join(LEAN_DIR, "RtcVerif", "Gen")
    os.makedirs(gdir, exist_ok=True)
    path = os.path.join(gdir, "PiAxis.lean")
    text, thms = HEAD, []
    for what, fn, tmpl, fmt, names in (
            ("Timeseries.__floor_date_time", translate_floor, FLOOR, lambda r: {"t": r}, ["floorGen_eq_model"]),
            ("Timeseries.resize", translate_resize, RESIZE, lambda r: r, ["resizeGen_eq_model"]),
            ("Timeseries.__init__ counts / __add_header step", translate_counts, COUNTS, lambda r: r,
             ["tLenGen_eq_model", "nValuesGen_eq_model", "padFrontGen_eq_model", "padBackGen_eq_model",
              "headerStepGen_eq_model"])):
        try:
            r = fn()
        except TranslationError as e:
            c.broken.append(("translator: " + what, str(e)))
            continue
        except Exception as e:
            c.broken.append(("translator: " + what, "%s: %s" % (type(e).__name__, e)))
            continue
        text += tmpl % fmt(r)
        thms.extend(names)
    text += "\nend RtcVerif.Gen\n"
    old = open(path).read() if os.path.exists(path) else None
    if old != text:
        tmp = path + ".tmp%d" % os.getpid()
        with open(tmp, "w") as f:
            f.write(text)
        os.replace(tmp, path)
    return [("RtcVerif.Gen.PiAxis", "RtcVerif.Gen", thms)] if thms else []
