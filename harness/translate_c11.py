"""
Source-to-Lean translation for C11 (second tie between model and code, besides the correspondence).

On every run of the C11 check the index arithmetic of `pi.Timeseries` is parsed with `ast` from
`$RTC_REPO/src/rtctools/data/pi.py`, read through the CLOSED table below and written to
`lean/RtcVerif/Gen/PiAxis.lean` as `…Gen` definitions with `…Gen_eq_model` theorems.  Anything
outside the table is rejected (`c.broken`); a behaviour change inside it breaks a theorem.

translated                                       generated                  proved equal to
----------------------------------------------------------------------------------------------------
Timeseries.__floor_date_time                     floorGen                   C11.floorDT
Timeseries.resize  (WHOLE method: the 8 top-     nDeltaSEqGen, nTargetGen,  C11.resize   (via C11.resizeWith … = resize,
  level statements in order, both loops)         timesEqGen, nDeltaSNeqGen,               Proofs/C11Ref.lean)
                                                 nDeltaENeqGen, timesNeqGen,
                                                 cutFrontGen, fitEndGen, resizeGen
Timeseries.__init__ (equidistant counts:         tLenGen, nValuesGen,       C11.roundDivP1 / C11.nValues /
  t_len, n_values, the two filler lengths)       padFrontGen, padBackGen    C11.padFront / C11.padBack
Timeseries.__add_header (timeStep multiplier)    headerStepGen              the `step` of C11.mkHdr

Python construct                                   ->  model term                       (TRUSTED mapping)
----------------------------------------------------------------------------------------------------
datetimes / timedeltas                                 Int seconds (whole-second stamps)
(a - b).total_seconds() ; a - b  (datetimes)           a - b
X.total_seconds()   (X a time step)                    the step in seconds (d)
int(self.dt.total_seconds())                           d
int(round(p / q))                                      roundDiv p q      (Python round = half to even, exact rational)
int(round(p / q + 1))                                  roundDivP1 p q
int(round(p / q)) + 1  /  1 + int(round(p / q))        roundDiv p q + 1
bisect.bisect_left(self.__times, x)                    (bisectLeft times x : Int)
len(v)                                                 (v.length : Int)
a - b, a + 1 (index arithmetic)                        a - b, a + 1
delta.days * 86400 + delta.seconds  (either order)     delta            (a timedelta in whole seconds)
(s + r / 2) // r * r                                   (2 * s + r) / (2 * r) * r      (floor division, exact)
dt + datetime.timedelta(0, x, -dt.microsecond)         dt + x
n > 0 / n < 0 / a >= b / a <= b                        the same comparison
v[n:]   (n > 0)                                        v.drop n.toNat
v[:n]   (n < 0)                                        v.take (v.length - n.natAbs)
f = np.empty(k); f.fill(np.nan)                        nans k            (k = abs(n) ↦ n.natAbs ; k = n > 0 ↦ n.toNat)
np.hstack((f, v)) / np.hstack((v, f))                  nans k ++ v / v ++ nans k
for m in range(len(self.__values)): for key in self.__values[m].keys(): self.__values[m][key] = T(…)
                                                       mapVals T   (every stored array of every member)
self.__start_datetime = start_datetime  etc.           field updates of the Store (fixed positions in the method)
[start_datetime + i * self.__dt for i in range(n)]     (List.range n.toNat).map (fun i => ns + i * d)
self.__times[bisect_left(.., a) : bisect_left(.., b) + 1]   (times.take (bisectLeft times b + 1)).drop (bisectLeft times a)
raise ValueError(...)                                  none
docstrings, comments                                   ignored
anything else (an extra statement, another order)      TranslationError -> obligation broken

EXTENSIONS further down in this file, each with its own closed table: gen_pi_records (record-level reader / writer of
pi.Timeseries -> Gen/PiRecords.lean), gen_pi_param (pi.ParameterConfig.get / set -> Gen/PiParam.lean), gen_csv_code
(csv.save / csv.load -> Gen/CsvCode.lean).
"""
import ast
import os

from .common import LEAN_DIR, REPO
from .translate import TranslationError, _find_method


def _u(node, n=120):
    try:
        return ast.unparse(node)[:n]
    except Exception:
        return ast.dump(node)[:n]


def _is_doc(st):
    return isinstance(st, ast.Expr) and isinstance(st.value, ast.Constant) and isinstance(st.value.value, str)


def _tree():
    return ast.parse(open(os.path.join(REPO, "src", "rtctools", "data", "pi.py")).read())


def _is_one(n):
    return isinstance(n, ast.Constant) and n.value == 1 and not isinstance(n.value, bool)


def ix(node, sym):
    """index / seconds expression -> Lean Int term.  `sym`: unparse text -> Lean term"""
    u = _u(node, 300)
    if u in sym:
        return sym[u]
    if isinstance(node, ast.Constant) and isinstance(node.value, int) and not isinstance(node.value, bool):
        return str(node.value)
    if isinstance(node, ast.Call) and not node.keywords:
        f = node.func
        # X.total_seconds()
        if isinstance(f, ast.Attribute) and f.attr == "total_seconds" and not node.args:
            return ix(f.value, sym)
        if isinstance(f, ast.Name) and f.id == "int" and len(node.args) == 1:
            a = node.args[0]
            if isinstance(a, ast.Call) and isinstance(a.func, ast.Name) and a.func.id == "round" and len(a.args) == 1 \
                    and not a.keywords:
                q = a.args[0]
                if isinstance(q, ast.BinOp) and isinstance(q.op, ast.Div):
                    return "roundDiv %s %s" % (_p(ix(q.left, sym)), _p(ix(q.right, sym)))
                if isinstance(q, ast.BinOp) and isinstance(q.op, ast.Add):
                    l, r = (q.left, q.right) if _is_one(q.right) else (q.right, q.left)
                    if _is_one(r) and isinstance(l, ast.BinOp) and isinstance(l.op, ast.Div):
                        return "roundDivP1 %s %s" % (_p(ix(l.left, sym)), _p(ix(l.right, sym)))
                raise TranslationError("int(round(…)) of something other than p / q [+ 1]: " + u)
            if isinstance(a, ast.Call) and isinstance(a.func, ast.Attribute) and a.func.attr == "total_seconds":
                return ix(a, sym)  # int(step.total_seconds())
        if isinstance(f, ast.Attribute) and _u(f) == "bisect.bisect_left" and len(node.args) == 2:
            if _u(node.args[0]) not in sym or sym[_u(node.args[0])] != "times":
                raise TranslationError("bisect_left on something other than the stamp list: " + u)
            return "(bisectLeft times %s : Int)" % _p(ix(node.args[1], sym))
        if isinstance(f, ast.Name) and f.id == "len" and len(node.args) == 1 and _u(node.args[0]) in sym:
            return "(%s.length : Int)" % sym[_u(node.args[0])]
    if isinstance(node, ast.BinOp):
        if isinstance(node.op, ast.Sub):
            return "%s - %s" % (ix(node.left, sym), _p(ix(node.right, sym)))
        if isinstance(node.op, ast.Add) and (_is_one(node.right) or _is_one(node.left)):
            other = node.left if _is_one(node.right) else node.right
            return "%s + 1" % ix(other, sym)
    raise TranslationError("unsupported index expression " + u)


def _p(t):
    return t if (" " not in t or (t.startswith("(") and t.endswith(")"))) else "(%s)" % t


# ---------------------------------------------------------------------------------------------
# __floor_date_time


def translate_floor():
    fn = _find_method(_tree(), "Timeseries", "__floor_date_time")
    if [a.arg for a in fn.args.args] != ["self", "dt", "tdel"]:
        raise TranslationError("signature of __floor_date_time")
    env = {}
    body = [s for s in fn.body if not _is_doc(s)]
    if not body or not isinstance(body[-1], ast.Return):
        raise TranslationError("__floor_date_time does not end with return")

    def num(n):
        u = _u(n, 300)
        if isinstance(n, ast.Name) and n.id in env:
            return env[n.id]
        if u == "tdel.total_seconds()":
            return ("d", "step")
        if u == "dt - self.__start_datetime":
            return ("(f - g)", "delta")
        if isinstance(n, ast.BinOp) and isinstance(n.op, ast.Add):
            # delta.days * 86400 + delta.seconds  (either order) = the whole timedelta
            parts = sorted([_u(n.left), _u(n.right)])
            for name, (t, k) in env.items():
                if k == "delta" and parts == sorted(["%s.days * 86400" % name, "%s.seconds" % name]):
                    return (t, "secs")
                if k == "delta" and parts == sorted(["86400 * %s.days" % name, "%s.seconds" % name]):
                    return (t, "secs")
        if isinstance(n, ast.BinOp) and isinstance(n.op, ast.Mult) and isinstance(n.left, ast.BinOp) \
                and isinstance(n.left.op, ast.FloorDiv):
            # (s + r / 2) // r * r
            fd, r2 = n.left, n.right
            r1 = fd.right
            s_half = fd.left
            if isinstance(s_half, ast.BinOp) and isinstance(s_half.op, ast.Add):
                a, b = s_half.left, s_half.right
                if not (isinstance(b, ast.BinOp) and isinstance(b.op, ast.Div)):
                    a, b = b, a
                if isinstance(b, ast.BinOp) and isinstance(b.op, ast.Div) and isinstance(b.right, ast.Constant) \
                        and b.right.value == 2:
                    (s, ks), (r, kr) = num(a), num(b.left)
                    if ks == "secs" and kr == "step" and num(r1) == (r, kr) and num(r2) == (r, kr):
                        return ("(2 * %s + %s) / (2 * %s) * %s" % (s, r, r, r), "secs")
            raise TranslationError("unsupported rounding expression " + u)
        if isinstance(n, ast.BinOp) and isinstance(n.op, ast.Sub):
            (a, ka), (b, kb) = num(n.left), num(n.right)
            if ka == "secs" and kb == "secs":
                return ("%s - %s" % (a, b), "secs")
        raise TranslationError("__floor_date_time: unsupported expression " + u)

    for s in body[:-1]:
        if not (isinstance(s, ast.Assign) and len(s.targets) == 1 and isinstance(s.targets[0], ast.Name)):
            raise TranslationError("__floor_date_time: unsupported statement " + _u(s))
        env[s.targets[0].id] = num(s.value)
    r = body[-1].value
    ok = isinstance(r, ast.BinOp) and isinstance(r.op, ast.Add) and _u(r.left) == "dt" and isinstance(r.right, ast.Call) \
        and _u(r.right.func) == "datetime.timedelta" and len(r.right.args) == 3 and not r.right.keywords \
        and _u(r.right.args[0]) == "0" and _u(r.right.args[2]) == "-dt.microsecond"
    if not ok:
        raise TranslationError("__floor_date_time: return is not dt + datetime.timedelta(0, x, -dt.microsecond)")
    x, kx = num(r.right.args[1])
    if kx != "secs":
        raise TranslationError("__floor_date_time: the shift is not in seconds")
    return "f + (%s)" % x


# ---------------------------------------------------------------------------------------------
# resize


def _loop_arrays(loop):
    """`for m in range(len(self.__values)): <body>` -> (member var, body)"""
    if not (isinstance(loop, ast.For) and isinstance(loop.target, ast.Name) and not loop.orelse
            and _u(loop.iter) == "range(len(self.__values))"):
        raise TranslationError("not a loop over all ensemble members: " + _u(loop, 80))
    return loop.target.id, loop.body


def _key_loop(st, m):
    if not (isinstance(st, ast.For) and isinstance(st.target, ast.Name) and not st.orelse
            and _u(st.iter) == "self.__values[%s].keys()" % m):
        raise TranslationError("not a loop over all series of the member: " + _u(st, 80))
    return st.target.id, st.body


def _filler(stmts, nname, how):
    """filler = np.empty(<k>); filler.fill(np.nan) -> (filler name, lean count)"""
    if len(stmts) < 2:
        raise TranslationError("filler statements missing")
    a, b = stmts[0], stmts[1]
    if not (isinstance(a, ast.Assign) and isinstance(a.targets[0], ast.Name) and _u(a.value.func) == "np.empty"
            and len(a.value.args) == 1 and not a.value.keywords):
        raise TranslationError("filler is not np.empty(k): " + _u(a))
    arg = _u(a.value.args[0])
    if how == "abs" and arg == "abs(%s)" % nname:
        cnt = "n.natAbs"
    elif how == "pos" and arg == nname:
        cnt = "n.toNat"
    else:
        raise TranslationError("filler length %s (expected %s of %s)" % (arg, how, nname))
    f = a.targets[0].id
    if _u(b) != "%s.fill(np.nan)" % f:
        raise TranslationError("filler is not filled with NaN: " + _u(b))
    return f, "nans %s" % cnt


def _cmp0(test, nname):
    if isinstance(test, ast.Compare) and len(test.ops) == 1 and _u(test.left) == nname and _u(test.comparators[0]) == "0":
        if isinstance(test.ops[0], ast.Gt):
            return "n > 0"
        if isinstance(test.ops[0], ast.Lt):
            return "n < 0"
    raise TranslationError("condition is not `%s > 0` / `%s < 0`: %s" % (nname, nname, _u(test)))


def translate_resize():
    fn = _find_method(_tree(), "Timeseries", "resize")
    if [a.arg for a in fn.args.args] != ["self", "start_datetime", "end_datetime"]:
        raise TranslationError("signature of resize")
    body = [s for s in fn.body if not _is_doc(s)]
    if len(body) != 8:
        raise TranslationError("resize has %d top-level statements, expected 8 (index shift at the start, loop, "
                               "start date, index shift at the end, target length, loop, end date, stamps): "
                               "first = %s" % (len(body), _u(body[0], 70)))
    s1, s2, s3, s4, s5, s6, s7, s8 = body
    base = {"start_datetime": "ns", "end_datetime": "ne", "self.__dt": "d", "self.__times": "times"}
    out = {}

    def shift(st, which):
        """S1 / S4: `if self.__dt: n = E else: if <guard>: n = E' else: raise`"""
        if not (isinstance(st, ast.If) and _u(st.test) == "self.__dt" and len(st.body) == 1 and len(st.orelse) == 1):
            raise TranslationError("resize: index shift at the %s is not `if self.__dt: … else: …`" % which)
        a = st.body[0]
        o = st.orelse[0]
        if not (isinstance(a, ast.Assign) and isinstance(a.targets[0], ast.Name)):
            raise TranslationError("resize: equidistant shift is not an assignment")
        name = a.targets[0].id
        old = "self.__start_datetime" if which == "start" else "self.__end_datetime"
        sym = dict(base)
        sym[old] = "start" if which == "start" else "stop"
        eq = ix(a.value, sym)
        if not (isinstance(o, ast.If) and len(o.body) == 1 and len(o.orelse) == 1 and isinstance(o.orelse[0], ast.Raise)
                and isinstance(o.body[0], ast.Assign) and _u(o.body[0].targets[0]) == name):
            raise TranslationError("resize: nonequidistant shift is not `if <guard>: n = … else: raise`")
        new = "start_datetime" if which == "start" else "end_datetime"
        want = "%s >= %s" % (new, old) if which == "start" else "%s <= %s" % (new, old)
        if _u(o.test) != want:
            raise TranslationError("resize: guard `%s`, expected `%s`" % (_u(o.test), want))
        guard = "ns ≥ start" if which == "start" else "ne ≤ stop"
        neq = "if %s then some (%s) else none" % (guard, ix(o.body[0].value, sym))
        return name, eq, neq

    nds, out["nDeltaSEq"], out["nDeltaSNeq"] = shift(s1, "start")
    # S2: first loop
    m, b = _loop_arrays(s2)
    if len(b) != 1 or not isinstance(b[0], ast.If):
        raise TranslationError("resize: first loop body is not one if/elif")
    top = b[0]
    c1 = _cmp0(top.test, nds)
    if len(top.body) != 1:
        raise TranslationError("resize: `%s` branch has extra statements" % c1)
    key, kb = _key_loop(top.body[0], m)
    tgt = "self.__values[%s][%s]" % (m, key)
    if len(kb) != 1 or " ".join(_u(kb[0], 300).split()) != "%s = %s[%s:]" % (tgt, tgt, nds):
        raise TranslationError("resize: first loop, shortening is not v = v[%s:]: %s" % (nds, _u(kb[0], 100)))
    if len(top.orelse) != 1 or not isinstance(top.orelse[0], ast.If) or top.orelse[0].orelse:
        raise TranslationError("resize: first loop has no plain `elif`")
    el = top.orelse[0]
    c2 = _cmp0(el.test, nds)
    if (c1, c2) != ("n > 0", "n < 0"):
        raise TranslationError("resize: first loop tests are %s / %s" % (c1, c2))
    f, nn = _filler(el.body, nds, "abs")
    if len(el.body) != 3:
        raise TranslationError("resize: lengthening branch of the first loop has extra statements")
    key2, kb2 = _key_loop(el.body[2], m)
    tgt2 = "self.__values[%s][%s]" % (m, key2)
    if len(kb2) != 1 or " ".join(_u(kb2[0], 300).split()) != "%s = np.hstack((%s, %s))" % (tgt2, f, tgt2):
        raise TranslationError("resize: first loop, lengthening is not hstack((filler, v)): " + _u(kb2[0], 100))
    out["cutFront"] = "if n > 0 then v.drop n.toNat else if n < 0 then %s ++ v else v" % nn
    # S3
    if _u(s3) != "self.__start_datetime = start_datetime":
        raise TranslationError("resize: third statement is not the start date update: " + _u(s3))
    nde, _dead_eq, out["nDeltaENeq"] = shift(s4, "end")
    # S5
    if not (isinstance(s5, ast.If) and _u(s5.test) == "self.__dt" and not s5.orelse and len(s5.body) == 1
            and isinstance(s5.body[0], ast.Assign) and isinstance(s5.body[0].targets[0], ast.Name)):
        raise TranslationError("resize: fifth statement is not `if self.__dt: n_target = …`")
    nt = s5.body[0].targets[0].id
    out["nTarget"] = ix(s5.body[0].value, dict(base))
    # S6: second loop
    m, b = _loop_arrays(s6)
    if len(b) != 1:
        raise TranslationError("resize: second loop over members has extra statements")
    key, kb = _key_loop(b[0], m)
    tgt = "self.__values[%s][%s]" % (m, key)
    if len(kb) != 3:
        raise TranslationError("resize: second loop body is not (values = …; if self.__dt: …; if/elif)")
    g0, g1, g2 = kb
    if not (isinstance(g0, ast.Assign) and isinstance(g0.targets[0], ast.Name) and _u(g0.value) == tgt):
        raise TranslationError("resize: second loop does not start with `values = stored array`")
    vname = g0.targets[0].id
    if not (isinstance(g1, ast.If) and _u(g1.test) == "self.__dt" and not g1.orelse and len(g1.body) == 1
            and _u(g1.body[0]) == "%s = %s - len(%s)" % (nde, nt, vname)):
        raise TranslationError("resize: equidistant end shift is not `%s = %s - len(%s)`: %s" % (nde, nt, vname, _u(g1, 100)))
    if not isinstance(g2, ast.If):
        raise TranslationError("resize: second loop has no if/elif")
    c1 = _cmp0(g2.test, nde)
    f, nn = _filler(g2.body, nde, "pos")
    if len(g2.body) != 3 or " ".join(_u(g2.body[2], 300).split()) != "%s = np.hstack((%s, %s))" % (tgt, vname, f):
        raise TranslationError("resize: second loop, lengthening is not hstack((v, filler)): " + _u(g2.body[-1], 100))
    if len(g2.orelse) != 1 or not isinstance(g2.orelse[0], ast.If) or g2.orelse[0].orelse:
        raise TranslationError("resize: second loop has no plain `elif`")
    el = g2.orelse[0]
    c2 = _cmp0(el.test, nde)
    if (c1, c2) != ("n > 0", "n < 0"):
        raise TranslationError("resize: second loop tests are %s / %s" % (c1, c2))
    if len(el.body) != 1 or " ".join(_u(el.body[0], 300).split()) != "%s = %s[:%s]" % (tgt, vname, nde):
        raise TranslationError("resize: second loop, shortening is not v[:%s]: %s" % (nde, _u(el.body[0], 100)))
    out["fitEnd"] = "if n > 0 then v ++ %s else if n < 0 then v.take (v.length - n.natAbs) else v" % nn
    # S7
    if _u(s7) != "self.__end_datetime = end_datetime":
        raise TranslationError("resize: seventh statement is not the end date update: " + _u(s7))
    # S8
    if not (isinstance(s8, ast.If) and _u(s8.test) == "self.__dt" and len(s8.body) == 1 and len(s8.orelse) == 1):
        raise TranslationError("resize: eighth statement is not the update of the stamps")
    a, o = s8.body[0], s8.orelse[0]
    lc = a.value if isinstance(a, ast.Assign) and _u(a.targets[0]) == "self.__times" else None
    if not (isinstance(lc, ast.ListComp) and len(lc.generators) == 1 and not lc.generators[0].ifs
            and _u(lc.generators[0].iter) == "range(%s)" % nt and isinstance(lc.generators[0].target, ast.Name)):
        raise TranslationError("resize: equidistant stamps are not a comprehension over range(%s)" % nt)
    i = lc.generators[0].target.id
    if _u(lc.elt) not in ("start_datetime + %s * self.__dt" % i, "start_datetime + self.__dt * %s" % i):
        raise TranslationError("resize: equidistant stamp is not start_datetime + i * dt: " + _u(lc.elt))
    out["timesEq"] = "(List.range nt.toNat).map (fun (i : Nat) => ns + (i : Int) * d)"
    want = ("self.__times = self.__times[bisect.bisect_left(self.__times, start_datetime):"
            "bisect.bisect_left(self.__times, end_datetime) + 1]")
    if "".join(_u(o, 400).split()) != "".join(want.split()):
        raise TranslationError("resize: nonequidistant stamps are not the slice [bisect(start) : bisect(end) + 1]")
    out["timesNeq"] = "(times.take (bisectLeft times ne + 1)).drop (bisectLeft times ns)"
    return out


# ---------------------------------------------------------------------------------------------
# reader counts and header step


def translate_counts():
    init = _find_method(_tree(), "Timeseries", "__init__")
    out = {}
    # t_len
    tl = [n for n in ast.walk(init) if isinstance(n, ast.Assign) and _u(n.targets[0]) == "t_len"]
    if len(tl) != 1:
        raise TranslationError("__init__: not exactly one `t_len = …`")
    out["tLen"] = ix(tl[0].value, {"self.__end_datetime": "stop", "self.__start_datetime": "start", "self.__dt": "d"})
    # n_values (equidistant branch)
    nv = [n for n in ast.walk(init) if isinstance(n, ast.If) and _u(n.test) == "self.__dt" and len(n.body) == 1
          and isinstance(n.body[0], ast.Assign) and _u(n.body[0].targets[0]) == "n_values"]
    if len(nv) != 1:
        raise TranslationError("__init__: not exactly one `if self.__dt: n_values = …`")
    out["nValues"] = ix(nv[0].body[0].value, {"end_datetime": "hstop", "start_datetime": "hstart", "dt": "d"})
    # fillers
    for which, test, sym in (
            ("padFront", "start_datetime > self.__start_datetime",
             {"start_datetime": "hstart", "self.__start_datetime": "gstart", "dt": "d"}),
            ("padBack", "end_datetime < self.__end_datetime",
             {"end_datetime": "hstop", "self.__end_datetime": "gstop", "dt": "d"})):
        blk = [n for n in ast.walk(init) if isinstance(n, ast.If) and _u(n.test) == test]
        if len(blk) != 1:
            raise TranslationError("__init__: not exactly one `if %s`" % test)
        inner = [n for n in blk[0].body if isinstance(n, ast.If) and _u(n.test) == "self.__dt"]
        if len(inner) != 1 or len(inner[0].body) != 1:
            raise TranslationError("__init__: padding block `%s` has no `if self.__dt: filler = …`" % test)
        a = inner[0].body[0]
        if not (isinstance(a, ast.Assign) and _u(a.targets[0]) == "filler" and _u(a.value.func) == "np.empty"
                and len(a.value.args) == 1):
            raise TranslationError("__init__: filler of `%s` is not np.empty(count, …)" % test)
        out[which] = ix(a.value.args[0], sym)
        # the filler goes to the right end
        hs = [n for n in blk[0].body if isinstance(n, ast.Assign) and _u(n.value.func) == "np.hstack"]
        cur = "self.__values[ensemble_member][variable]"
        want = "(filler, %s)" % cur if which == "padFront" else "(%s, filler)" % cur
        if len(hs) != 1 or " ".join(_u(hs[0].value.args[0], 300).split()) != want:
            raise TranslationError("__init__: `%s` does not stack the filler at the %s" % (test, "front" if which == "padFront" else "back"))
    # header step
    hd = _find_method(_tree(), "Timeseries", "__add_header")
    mult = [n for n in ast.walk(hd) if isinstance(n, ast.Call) and _u(n.func) == "el.set" and len(n.args) == 2
            and _u(n.args[0]) == "'multiplier'"]
    if len(mult) != 1 or _u(mult[0].args[1]) != "str(int(self.dt.total_seconds()))":
        raise TranslationError("__add_header: multiplier is not str(int(self.dt.total_seconds())): "
                               + (_u(mult[0].args[1]) if mult else "missing"))
    out["headerStep"] = "d"
    return out


# ---------------------------------------------------------------------------------------------

HEAD = """import RtcVerif.Model.C11
import RtcVerif.Proofs.C11Ref
/-!
GENERATED on every run of the C11 check by harness/translate_c11.py from
src/rtctools/data/pi.py of the tree under check.  Do not edit.  The `…Gen` definitions are the
source read through the construct table in the translator's header; the theorems tie them to the
model functions the C11 theorems are about.
-/
set_option linter.unusedVariables false
namespace RtcVerif.Gen
open RtcVerif RtcVerif.C11
"""

FLOOR = """
def floorGen (g d f : Int) : Int := %(t)s

theorem floorGen_eq_model (g d f : Int) : floorGen g d f = C11.floorDT g d f := rfl
"""

RESIZE = """
def nDeltaSEqGen (d start ns : Int) : Int := %(nDeltaSEq)s
def nTargetGen (d ns ne : Int) : Int := %(nTarget)s
def timesEqGen (d ns nt : Int) : List Int := %(timesEq)s
def nDeltaSNeqGen (times : List Int) (start ns : Int) : Option Int := %(nDeltaSNeq)s
def nDeltaENeqGen (times : List Int) (stop ne : Int) : Option Int := %(nDeltaENeq)s
def timesNeqGen (times : List Int) (ns ne : Int) : List Int := %(timesNeq)s
def cutFrontGen (n : Int) (v : List XVal) : List XVal := %(cutFront)s
def fitEndGen (n : Int) (v : List XVal) : List XVal := %(fitEnd)s

/-- the method: the pieces above in the (checked) statement order of the source -/
def resizeGen (ns ne : Int) (s : Store) : Option Store :=
  C11.resizeWith nDeltaSEqGen nTargetGen timesEqGen nDeltaSNeqGen nDeltaENeqGen timesNeqGen cutFrontGen fitEndGen ns ne s

theorem resizeGen_eq_model (ns ne : Int) (s : Store) : resizeGen ns ne s = C11.resize ns ne s := by
  have h1 : nDeltaSEqGen = C11.nDeltaSEqRef := rfl
  have h2 : nTargetGen = C11.nTargetRef := rfl
  have h3 : timesEqGen = C11.timesEqRef := rfl
  have h4 : nDeltaSNeqGen = C11.nDeltaSNeqRef := rfl
  have h5 : nDeltaENeqGen = C11.nDeltaENeqRef := rfl
  have h6 : timesNeqGen = C11.timesNeqRef := rfl
  have h7 : cutFrontGen = C11.cutFrontRef := rfl
  have h8 : fitEndGen = C11.fitEndRef := rfl
  unfold resizeGen
  rw [h1, h2, h3, h4, h5, h6, h7, h8]
  exact C11.resizeRef_eq ns ne s
"""

COUNTS = """
def tLenGen (d start stop : Int) : Int := %(tLen)s
def nValuesGen (d hstart hstop : Int) : Int := %(nValues)s
def padFrontGen (d gstart hstart : Int) : Int := %(padFront)s
def padBackGen (d gstop hstop : Int) : Int := %(padBack)s
def headerStepGen (d : Int) : Int := %(headerStep)s

theorem tLenGen_eq_model (d start stop : Int) : tLenGen d start stop = C11.roundDivP1 (stop - start) d := rfl

theorem nValuesGen_eq_model (g : Geo) (h : Hdr) (d0 d : Int) (hg : g.dt = some d0) (hs : h.step = some d) (hd : d ≠ 0) :
    C11.nValues g h = some (nValuesGen d h.start h.stop) := by
  unfold C11.nValues nValuesGen
  rw [hg, hs]
  simp only [hd, if_false]

theorem padFrontGen_eq_model (g : Geo) (h : Hdr) (d0 d : Int) (hg : g.dt = some d0) (hs : h.step = some d)
    (hlt : g.start < h.start) : C11.padFront g h = padFrontGen d g.start h.start := by
  unfold C11.padFront padFrontGen
  rw [if_pos hlt, hg, hs]
  rfl

theorem padBackGen_eq_model (g : Geo) (h : Hdr) (d0 d : Int) (hg : g.dt = some d0) (hs : h.step = some d)
    (hlt : h.stop < g.stop) : C11.padBack g h = padBackGen d g.stop h.stop := by
  unfold C11.padBack padBackGen
  rw [if_pos hlt, hg, hs]
  rfl

theorem headerStepGen_eq_model (s : Store) (m : Nat) (e : Entry) (d : Int) (hd : s.dt = some d) :
    (C11.mkHdr s m e).step = some (headerStepGen d) := by
  unfold C11.mkHdr headerStepGen
  exact hd
"""


def gen_pi_axis(c):
    """(re)generate lean/RtcVerif/Gen/PiAxis.lean; returns the extra obligation spec for c.prove"""
    gdir = os.path.join(LEAN_DIR, "RtcVerif", "Gen")
    os.makedirs(gdir, exist_ok=True)
    path = os.path.join(gdir, "PiAxis.lean")
    text, thms = HEAD, []
    for what, fn, tmpl, fmt, names in (
            ("Timeseries.__floor_date_time", translate_floor, FLOOR, lambda r: {"t": r}, ["floorGen_eq_model"]),
            ("Timeseries.resize", translate_resize, RESIZE, lambda r: r, ["resizeGen_eq_model"]),
            ("Timeseries.__init__ counts / __add_header step", translate_counts, COUNTS, lambda r: r,
             ["tLenGen_eq_model", "nValuesGen_eq_model", "padFrontGen_eq_model", "padBackGen_eq_model",
              "headerStepGen_eq_model"])):
        try:
            r = fn()
        except TranslationError as e:
            c.broken.append(("translator: " + what, str(e)))
            continue
        except Exception as e:
            c.broken.append(("translator: " + what, "%s: %s" % (type(e).__name__, e)))
            continue
        text += tmpl % fmt(r)
        thms.extend(names)
    text += "\nend RtcVerif.Gen\n"
    old = open(path).read() if os.path.exists(path) else None
    if old != text:
        tmp = path + ".tmp%d" % os.getpid()
        with open(tmp, "w") as f:
            f.write(text)
        os.replace(tmp, path)
    return [("RtcVerif.Gen.PiAxis", "RtcVerif.Gen", thms)] if thms else []


# =============================================================================================
# EXTENSION: record-level logic of the PI reader / writer  ->  lean/RtcVerif/Gen/PiRecords.lean
#
# translated (pi.py)                               generated                       proved equal to
# ---------------------------------------------------------------------------------------------
# __init__, consistency loop (first pass over      scanDtGen, scanStartGen,        C11.scanStep / C11.scan
#   the headers): every statement of the body      scanStopGen, scanFcValGen,      (via scanStepWith, Proofs/C11RecRef.lean)
#                                                  scanFcGen, scanEnsGen,
#                                                  scanContGen, scanStepGen
# __init__, "Parse data" loop: every statement     memberGen, virtualGen,          C11.targets, C11.nValues, C11.takePad,
#   of the body (slot choice, virtual ensemble,    virtTargetsGen, targetsGen,     C11.missMap, C11.padFront / padBack,
#   count, binary / event values, missVal mask,    nValuesFullGen, rawGen,         C11.readSeries, C11.fill
#   unit, front / back fillers, references)        missGen, padFrontFullGen,
#                                                  padBackFullGen, asmGen,
#                                                  entryGen, readSeriesGen, fillGen
# __add_header (every statement) and write()       hdrMemberGen, hdrForecastGen,   C11.mkHdr, C11.encXml, C11.evTimesOf,
#   (header loop, series loop, event loop)         hdrStepFullGen, hdrMissGen,     C11.mkRec, C11.recsFrom, C11.streamFrom
#                                                  mkHdrGen, encXmlGen, evTimesGen,
#                                                  keepGen, mkRecGen, recsFromGen,
#                                                  binValsGen, streamGen, writeGen     C11.write  (whole writer of a new file)
# __init__ frame (existing file): initial state,   globInitGen, timesEqGen',       C11.read   (whole reader, via readWith)
#   binary file, time zone, stamps (both kinds),   longestGen, fcGen, fcIdxGen,
#   forecast flooring + index, trimming            trimGen, readGen
#
# Python construct (ElementTree calls are table entries)   ->  model term                  (TRUSTED mapping)
# ---------------------------------------------------------------------------------------------
# series.find('pi:header', ns)                                 the record's Hdr `h`
# self.__data_config.variable(header)                          h.var   (variable key, C11_id_roundtrip)
# self.__parse_time_step(header.find('pi:timeStep', ns))       h.step
# self.__parse_date_time(header.find('pi:startDate'|'pi:endDate', ns))     h.start | h.stop
# el = header.find('pi:forecastDate', ns); el is [not] None; self.__parse_date_time(el)
#                                                              h.forecast : Option Int; isSome / isNone; its value
# el = header.find('pi:ensembleMemberIndex', ns); el is [not] None; int(el.text)
#                                                              h.member : Option Nat; isSome / isNone; its value
# float(header.find('pi:missVal', ns).text) / header.find('pi:missVal', ns).text      h.miss
# header.find('pi:units', ns).text                             h.unit
# X is None (X a state attribute) ... else ...                 match X with | none => … | some x => …
# a < b, a > b, a != b, a == b                                 the same comparison (`!=` in a conjunction: Bool `!=`)
# try: S except …: raise                                       S   (the handlers only re-raise)
# raise Exception(…)                                           none
# while k >= len(self.__values): self.__values.append({})      — (the model creates the slot list with its final length;
#   (and __units; and `while self.ensemble_size > len(…)`)       entry checked verbatim)
# np.fromfile(f, count=n, dtype=self.__pi_dtype)               (st.take n, some (st.drop n))
# a = np.empty(n, dtype=…); a.fill(np.nan)                     nans n     (raises for n < 0: skeleton)
# events = series.findall('pi:event', ns); for i in range(K): a[i] = float(events[i].get('value'))
#                                                              evs.take K ++ (rest of a)
# min(n, len(events))                                          min n evs.length
# a[a == miss_val] = np.nan                                    a.map (fun v => if v = miss then nan else v)
#   (miss = Hdr.miss, the missVal IN THE STORAGE TYPE of `a`: numpy compares a float32 array — the untouched result of
#   np.fromfile(…, dtype=self.__pi_dtype), no astype before the mask — with the Python float in float32; for the float64
#   array of the XML branch it is missVal itself.  C11_binary_missing_stays_missing / C11_binary_miss_width_witness)
# self.set_unit(variable, unit=u, ensemble_member=m)           unit field of the Entry stored in slot m
# np.hstack((filler, a)) / np.hstack((a, filler))              nans k ++ a / a ++ nans k
# int(round(bisect_left(…) - bisect_left(…)))                  the difference (an integer)
# dt.total_seconds()  (dt = the header's step, after the count succeeded)     h.step.getD 1
# for i in range(1, self.ensemble_size): self.__values[i][variable] = self.__values[0][variable]; set_unit(…, i)
#                                                              the same Entry also in slots List.range' 1 (ensSize - 1)
# header_elements / header_element_texts (parallel lists, insert(k, …) on both)     the Hdr fields by element name
# el = header.find('pi:X', ns); el.set('date', D.strftime('%Y-%m-%d')); el.set('time', D.strftime('%H:%M:%S'))
#                                                              field X := D
# if self.dt: el.set('unit', 'second'); el.set('multiplier', M) else: el.set('unit', 'nonequidistant')
#                                                              step := match s.dt with | some d => some M | none => none
# for m in range(len(self.__values)): for v in sorted(self.__values[m].keys()): …    per slot k: (sortSlot sl).map …
# if m != int(el.text): continue                               a series is written in the pass of its own member
# if len(values) == 0: self.__xml_root.remove(series); continue      filter (fun e => !(e.vals.length == 0))
# nans = np.isnan(values); if nans[i]: event.set('value', miss_val) else: event.set('value', str(value))
#                                                              fun v => if v = nan then miss else v
# t = start; loop: if self.dt is None: t = self.times[i] … if self.dt: t += self.dt
#                                                              match s.dt with | some d => gridTimes s.start d n | none => s.times.take n
# f.write(values.astype(self.__pi_dtype).tobytes())            vals.map r32
# anything else (extra statement, other attribute, other index)     TranslationError -> obligation broken
# =============================================================================================


def _T(node):
    return " ".join(ast.unparse(node).split())


def _need(cond, msg):
    if not cond:
        raise TranslationError(msg)


_OPS = {ast.Lt: "<", ast.Gt: ">", ast.LtE: "≤", ast.GtE: "≥", ast.NotEq: "≠", ast.Eq: "="}


def _cmp(test, sym, boolean=False):
    """binary comparison of two symbols -> Lean Prop (or Bool for `!=` / `==` when boolean)"""
    _need(isinstance(test, ast.Compare) and len(test.ops) == 1, "not a simple comparison: " + _T(test))
    a, b = _T(test.left), _T(test.comparators[0])
    _need(a in sym and b in sym, "comparison of unknown operands: " + _T(test))
    op = type(test.ops[0])
    _need(op in _OPS, "unsupported comparison: " + _T(test))
    if boolean:
        _need(op in (ast.NotEq, ast.Eq), "unsupported comparison in a conjunction: " + _T(test))
        return "(%s %s %s)" % (sym[a], "!=" if op is ast.NotEq else "==", sym[b])
    return "%s %s %s" % (sym[a], _OPS[op], sym[b])


def _natx(node, sym):
    t = _T(node)
    if t in sym:
        return sym[t]
    if isinstance(node, ast.Constant) and isinstance(node.value, int) and not isinstance(node.value, bool):
        return str(node.value)
    if isinstance(node, ast.BinOp) and isinstance(node.op, (ast.Add, ast.Sub)) and isinstance(node.right, ast.Constant):
        return "%s %s %s" % (_natx(node.left, sym), "+" if isinstance(node.op, ast.Add) else "-", _natx(node.right, sym))
    raise TranslationError("unsupported index expression " + t)


def _series_loops(init):
    loops = [n for n in ast.walk(init) if isinstance(n, ast.For) and _T(n.iter) == "self.__xml_root.findall('pi:series', ns)"]
    loops.sort(key=lambda n: n.lineno)
    _need(len(loops) == 4, "__init__: %d loops over the series, expected 4 (consistency, nonequidistant stamps, "
                            "validation, parse data)" % len(loops))
    return loops


def _flatten_try(body):
    flat = []
    for s in body:
        if _is_doc(s):
            continue
        if isinstance(s, ast.Try):
            _need(not s.orelse and not s.finalbody and all(len(h.body) == 1 and isinstance(h.body[0], ast.Raise)
                                                             for h in s.handlers), "try block with a handler that does not raise")
            flat.extend(s.body)
        else:
            flat.append(s)
    return flat


def _assign1(st):
    """`NAME = value` / `self.__x = value` -> (target text, value node) or None"""
    if isinstance(st, ast.Assign) and len(st.targets) == 1:
        return _T(st.targets[0]), st.value
    return None


def _is_raise_block(b):
    return len(b) == 1 and isinstance(b[0], ast.Raise)


class _Once(dict):
    def put(self, k, v):
        _need(k not in self, "statement for `%s` occurs twice" % k)
        self[k] = v


def translate_scan():
    init = _find_method(_tree(), "Timeseries", "__init__")
    body = _flatten_try(_series_loops(init)[0].body)
    H = None
    nm = {}      # role -> local name
    cur_el = None
    elname = {}  # local name -> "fc" | "ens"
    out = _Once()
    for st in body:
        a = _assign1(st)
        if a and isinstance(st.targets[0], ast.Name):
            t, v = a
            vt = _T(v)
            if vt == "series.find('pi:header', ns)":
                H = t
                continue
            _need(H is not None, "scan loop: statement before the header is read: " + _T(st)[:80])
            if vt == "self.__data_config.variable(%s)" % H:
                continue
            if vt == "self.__parse_time_step(%s.find('pi:timeStep', ns))" % H:
                nm["dt"] = t
                continue
            if vt == "self.__parse_date_time(%s.find('pi:startDate', ns))" % H:
                nm["start"] = t
                continue
            if vt == "self.__parse_date_time(%s.find('pi:endDate', ns))" % H:
                nm["end"] = t
                continue
            if vt == "%s.find('pi:forecastDate', ns)" % H:
                elname[t] = "fc"
                continue
            if vt == "%s.find('pi:ensembleMemberIndex', ns)" % H:
                elname[t] = "ens"
                continue
            raise TranslationError("scan loop: unsupported assignment " + _T(st)[:100])
        _need(isinstance(st, ast.If), "scan loop: unsupported statement " + _T(st)[:100])
        test = _T(st.test)
        if test == "self.__dt is None":
            _need(len(st.body) == 1 and _T(st.body[0]) == "self.__dt = %s" % nm.get("dt"), "scan: dt branch")
            _need(len(st.orelse) == 1 and isinstance(st.orelse[0], ast.If) and not st.orelse[0].orelse
                  and _is_raise_block(st.orelse[0].body), "scan: dt else-branch is not `if …: raise`")
            c = _cmp(st.orelse[0].test, {nm["dt"]: "hstep", "self.__dt": "some d"})
            out.put("scanDt", "match gdt with\n  | none => some hstep\n  | some d => if %s then none else some (some d)" % c)
        elif test in ("self.__start_datetime is None", "self.__end_datetime is None"):
            which = "start" if "start" in test else "end"
            attr = "self.__%s_datetime" % which
            loc = nm.get(which)
            _need(len(st.body) == 1 and _T(st.body[0]) == "%s = %s" % (attr, loc), "scan: %s branch" % which)
            _need(len(st.orelse) == 1 and isinstance(st.orelse[0], ast.If) and not st.orelse[0].orelse
                  and len(st.orelse[0].body) == 1 and _T(st.orelse[0].body[0]) == "%s = %s" % (attr, loc),
                  "scan: %s else-branch is not `if …: %s = %s`" % (which, attr, loc))
            c = _cmp(st.orelse[0].test, {loc: "hs", attr: "x"})
            out.put("scanStart" if which == "start" else "scanStop",
                    "match gs with\n  | none => hs\n  | some x => if %s then hs else x" % c)
        elif test == "self.__forecast_datetime is None":
            F = nm.get("fc")
            _need(F and len(st.body) == 1 and _T(st.body[0]) == "self.__forecast_datetime = %s" % F, "scan: forecast branch")
            _need(len(st.orelse) == 1 and isinstance(st.orelse[0], ast.If) and not st.orelse[0].orelse
                  and _is_raise_block(st.orelse[0].body), "scan: forecast else-branch is not `if …: raise`")
            tt = st.orelse[0].test
            _need(isinstance(tt, ast.BoolOp) and isinstance(tt.op, ast.And) and len(tt.values) == 2, "scan: forecast guard")
            parts = []
            for v in tt.values:
                if _T(v) == "%s is not None" % nm.get("fc_el"):
                    parts.append("h.forecast.isSome")
                else:
                    parts.append(_cmp(v, {F: "scanFcValGen h", "self.__forecast_datetime": "x"}, boolean=True))
            _need("h.forecast.isSome" in parts and len(parts) == 2 and parts[0] != parts[1], "scan: forecast guard parts")
            out.put("scanFc", "match gf with\n  | none => some (scanFcValGen h)\n  | some x => if %s then none else some x"
                    % " && ".join(parts))
        elif test == "self.__contains_ensemble is False":
            C = nm.get("cont")
            _need(C and len(st.body) == 1 and not st.orelse and _T(st.body[0]) == "self.__contains_ensemble = %s" % C,
                  "scan: contains_ensemble update")
            out.put("scanCont", "if gc = false then %s else gc" % nm["cont_term"])
        elif isinstance(st.test, ast.Compare) and _T(st.test).endswith(" is not None") and _T(st.test.left) in elname:
            el = _T(st.test.left)
            if elname[el] == "fc":
                a1 = _assign1(st.body[0]) if len(st.body) == 1 else None
                a2 = _assign1(st.orelse[0]) if len(st.orelse) == 1 else None
                _need(a1 and a2 and a1[0] == a2[0] and _T(a1[1]) == "self.__parse_date_time(%s)" % el
                      and _T(a2[1]) == nm.get("start"), "scan: forecast value is not (forecastDate | start date)")
                nm["fc"], nm["fc_el"] = a1[0], el
                out.put("scanFcVal", "match h.forecast with\n  | some f => f\n  | none => h.start")
            else:
                _need(len(st.body) == 2 and len(st.orelse) == 1, "scan: ensemble block shape")
                a1, a2 = _assign1(st.body[0]), _assign1(st.orelse[0])
                _need(a1 and a2 and a1[0] == a2[0] and _T(a1[1]) == "True" and _T(a2[1]) == "False",
                      "scan: contains_ensemble flag is not True / False")
                nm["cont"], nm["cont_term"] = a1[0], "h.member.isSome"
                g = st.body[1]
                _need(isinstance(g, ast.If) and not g.orelse and len(g.body) == 1, "scan: ensemble size update shape")
                sym = {"int(%s.text)" % el: "k", "self.__ensemble_size": "size"}
                _need(isinstance(g.test, ast.Compare) and len(g.test.ops) == 1 and type(g.test.ops[0]) in _OPS,
                      "scan: ensemble size test")
                c = "%s %s %s" % (_natx(g.test.left, sym), _OPS[type(g.test.ops[0])], _natx(g.test.comparators[0], sym))
                a3 = _assign1(g.body[0])
                _need(a3 and a3[0] == "self.__ensemble_size", "scan: ensemble size assignment")
                out.put("scanEns", "match h.member with\n  | some k => if %s then %s else size\n  | none => size"
                        % (c, _natx(a3[1], sym)))
        else:
            raise TranslationError("scan loop: unsupported if-statement " + test[:100])
    for k in ("scanDt", "scanStart", "scanStop", "scanFcVal", "scanFc", "scanEns", "scanCont"):
        _need(k in out, "scan loop: no statement for " + k)
    return dict(out)


def _ix2(node, sym):
    """ix plus `int(round(<difference of two bisects>))` (an integer already)"""
    if isinstance(node, ast.Call) and _T(node.func) == "int" and len(node.args) == 1:
        a = node.args[0]
        if isinstance(a, ast.Call) and _T(a.func) == "round" and len(a.args) == 1 and isinstance(a.args[0], ast.BinOp) \
                and isinstance(a.args[0].op, ast.Sub) and "bisect.bisect_left" in _T(a.args[0].left) \
                and "bisect.bisect_left" in _T(a.args[0].right):
            return ix(a.args[0], sym)
    return ix(node, sym)


def _empty_nan(stmts, cur, n):
    """[cur = np.empty(n, dtype=…), cur.fill(np.nan)]"""
    _need(len(stmts) >= 2 and _T(stmts[0]) == "%s = np.empty(%s, dtype=self.__internal_dtype)" % (cur, n)
          and _T(stmts[1]) == "%s.fill(np.nan)" % cur, "not `a = np.empty(%s); a.fill(nan)`: %s" % (n, _T(stmts[0])[:100]))


def translate_series():
    init = _find_method(_tree(), "Timeseries", "__init__")
    body = [s for s in _series_loops(init)[3].body if not _is_doc(s)]
    out = _Once()
    nm = {}
    pos = {}
    H = None
    asm = "v"
    for idx, st in enumerate(body):
        txt = _T(st)
        a = _assign1(st)
        cur = "self.__values[%s][%s]" % (nm.get("member"), nm.get("var"))
        if a and isinstance(st.targets[0], ast.Name):
            t, v = a
            vt = _T(v)
            if vt == "series.find('pi:header', ns)":
                H = t
            elif vt == "self.__data_config.variable(%s)" % H:
                nm["var"] = t
            elif vt == "self.__parse_time_step(%s.find('pi:timeStep', ns))" % H:
                nm["dt"] = t
            elif vt == "self.__parse_date_time(%s.find('pi:startDate', ns))" % H:
                nm["start"] = t
            elif vt == "self.__parse_date_time(%s.find('pi:endDate', ns))" % H:
                nm["end"] = t
            elif vt == "False" and "virt" not in nm:
                nm["virt"] = t
            elif vt == "%s.find('pi:ensembleMemberIndex', ns)" % H:
                nm["el"] = t
            elif vt == "float(%s.find('pi:missVal', ns).text)" % H:
                nm["miss"] = t
            elif vt == "%s.find('pi:units', ns).text" % H:
                nm["unit"] = t
            else:
                raise TranslationError("parse loop: unsupported assignment " + txt[:100])
            continue
        if a and a[0] == "%s[%s == %s]" % (cur, cur, nm.get("miss")) or a and a[0] == "%s[%s == %s]" % (cur, nm.get("miss"), cur):
            _need(_T(a[1]) == "np.nan", "parse loop: missing values are not set to NaN")
            out.put("miss", "if v = miss then XVal.nan else v")
            pos["miss"] = idx
            continue
        if isinstance(st, ast.Expr) and txt == "self.set_unit(%s, unit=%s, ensemble_member=%s)" % (
                nm.get("var"), nm.get("unit"), nm.get("member")):
            out.put("entry", "⟨h.var, h.unit, vals⟩")
            continue
        _need(isinstance(st, ast.If), "parse loop: unsupported statement " + txt[:100])
        test = _T(st.test)
        el = nm.get("el")
        if test == "%s is not None" % el:
            _need(len(st.body) == 3 and len(st.orelse) == 1, "parse loop: member block shape")
            a1, a2 = _assign1(st.body[0]), _assign1(st.orelse[0])
            _need(a1 and a2 and a1[0] == a2[0], "parse loop: member index is not assigned in both branches")
            M = a1[0]
            nm["member"] = M
            for w, lst in zip(st.body[1:], ("self.__values", "self.__units")):
                _need(_T(w) == "while %s >= len(%s): %s.append({})" % (M, lst, lst), "parse loop: slot list growth: " + _T(w)[:90])
            out.put("member", "match h.member with\n  | some k => %s\n  | none => %s" % (
                _natx(a1[1], {"int(%s.text)" % el: "k"}), _natx(a2[1], {})))
        elif isinstance(st.test, ast.BoolOp) and isinstance(st.test.op, ast.And) and len(st.test.values) == 2 \
                and any(_T(v) == "%s is None" % el for v in st.test.values):
            parts = []
            for v in st.test.values:
                tv = _T(v)
                if tv == "%s is None" % el:
                    parts.append("h.member.isNone")
                elif tv in ("self.contains_ensemble is True", "self.contains_ensemble", "self.__contains_ensemble is True",
                            "self.__contains_ensemble"):
                    parts.append("g.containsEns")
                else:
                    raise TranslationError("parse loop: virtual ensemble guard: " + tv)
            _need(sorted(parts) == ["g.containsEns", "h.member.isNone"], "parse loop: virtual ensemble guard")
            _need(len(st.body) == 3 and not st.orelse, "parse loop: virtual ensemble block shape")
            for w, lst in zip(st.body[:2], ("self.__values", "self.__units")):
                _need(_T(w) == "while self.ensemble_size > len(%s): %s.append({})" % (lst, lst),
                      "parse loop: slot list growth: " + _T(w)[:90])
            _need(_T(st.body[2]) == "%s = True" % nm.get("virt"), "parse loop: virtual ensemble flag")
            out.put("virtual", "if %s then true else false" % " && ".join(parts))
        elif test == "self.__dt" and len(st.body) == 1 and _assign1(st.body[0]) and isinstance(st.body[0].targets[0], ast.Name):
            _need(len(st.orelse) == 1, "parse loop: count has no nonequidistant branch")
            a1, a2 = _assign1(st.body[0]), _assign1(st.orelse[0])
            _need(a2 and a1[0] == a2[0], "parse loop: count branches assign different names")
            nm["n"] = a1[0]
            eq = ix(a1[1], {nm["end"]: "h.stop", nm["start"]: "h.start", nm["dt"]: "d"})
            neq = ix(a2[1], {nm["end"]: "h.stop", nm["start"]: "h.start", "self.__times": "times"}).replace(
                "bisectLeft times", "bisectLeft g.times")
            out.put("nValues", "match g.dt with\n  | some _ =>\n    match h.step with\n    | none => none\n"
                    "    | some d => if d = 0 then none else some (%s)\n  | none => some (%s)" % (eq, neq))
        elif test == "self.__binary":
            N = nm.get("n")
            _need(len(st.body) == 1 and isinstance(st.body[0], ast.If) and _T(st.body[0].test) == "f is not None",
                  "parse loop: binary branch is not `if f is not None`")
            b = st.body[0]
            _need(len(b.body) == 1 and _T(b.body[0]) == "%s = np.fromfile(f, count=%s, dtype=self.__pi_dtype)" % (cur, N),
                  "parse loop: binary values are not np.fromfile(f, count=%s, dtype=self.__pi_dtype)" % N)
            _need(len(b.orelse) == 2, "parse loop: placeholder branch shape")
            _empty_nan(b.orelse, cur, N)
            o = st.orelse
            _need(len(o) == 4 and _assign1(o[0]) and _T(o[0].value) == "series.findall('pi:event', ns)",
                  "parse loop: XML branch shape")
            ev = _assign1(o[0])[0]
            _empty_nan(o[1:3], cur, N)
            lp = o[3]
            _need(isinstance(lp, ast.For) and isinstance(lp.target, ast.Name) and not lp.orelse and len(lp.body) == 1
                  and isinstance(lp.iter, ast.Call) and _T(lp.iter.func) == "range" and len(lp.iter.args) == 1,
                  "parse loop: event loop shape")
            i = lp.target.id
            k = lp.iter.args[0]
            _need(isinstance(k, ast.Call) and _T(k.func) == "min" and sorted(_T(x) for x in k.args) == sorted(
                [N, "len(%s)" % ev]), "parse loop: event loop bound is not min(%s, len(%s)): %s" % (N, ev, _T(k)))
            _need(_T(lp.body[0]) == "%s[%s] = float(%s[%s].get('value'))" % (cur, i, ev, i),
                  "parse loop: event value assignment: " + _T(lp.body[0])[:100])
            K = "min %s %s" % tuple("n" if _T(x) == N else "evs.length" for x in k.args)
            out.put("raw", "if binary then\n    match stream with\n    | some st => (st.take n, some (st.drop n))\n"
                    "    | none => (nans n, none)\n  else (evs.take (%s) ++ nans (n - %s), stream)" % (K, _p(K)))
            pos["raw"] = idx
        elif isinstance(st.test, ast.Compare) and sorted([_T(st.test.left), _T(st.test.comparators[0])]) in (
                sorted([nm.get("start"), "self.__start_datetime"]), sorted([nm.get("end"), "self.__end_datetime"])):
            front = nm.get("start") in (_T(st.test.left), _T(st.test.comparators[0]))
            loc, glob = (nm["start"], "self.__start_datetime") if front else (nm["end"], "self.__end_datetime")
            c = _cmp(st.test, {loc: "h.start" if front else "h.stop", glob: "g.start" if front else "g.stop"})
            _need(len(st.body) == 3 and isinstance(st.body[0], ast.If) and _T(st.body[0].test) == "self.__dt"
                  and len(st.body[0].body) == 1 and len(st.body[0].orelse) == 1, "parse loop: filler block shape")
            terms = []
            fname = None
            for br in (st.body[0].body[0], st.body[0].orelse[0]):
                a1 = _assign1(br)
                _need(a1 and isinstance(a1[1], ast.Call) and _T(a1[1].func) == "np.empty" and len(a1[1].args) == 1
                      and [k.arg for k in a1[1].keywords] == ["dtype"], "parse loop: filler is not np.empty(k, dtype=…)")
                _need(fname in (None, a1[0]), "parse loop: two filler names")
                fname = a1[0]
                sym = {loc: "h.start" if front else "h.stop", glob: "g.start" if front else "g.stop",
                       nm["dt"]: "(h.step.getD 1)", "self.__times": "times"}
                terms.append(_ix2(a1[1].args[0], sym).replace("bisectLeft times", "bisectLeft g.times"))
            _need(_T(st.body[1]) == "%s.fill(np.nan)" % fname, "parse loop: filler is not filled with NaN")
            want = "%s = np.hstack((%s, %s))" % ((cur, fname, cur) if front else (cur, cur, fname))
            _need(_T(st.body[2]) == want, "parse loop: filler stacked at the wrong end: " + _T(st.body[2])[:100])
            out.put("padFront" if front else "padBack",
                    "if %s then\n    match g.dt with\n    | some _ => %s\n    | none => %s\n  else 0" % (c, terms[0], terms[1]))
            asm = ("nans pf ++ %s" % _p(asm)) if front else ("%s ++ nans pb" % _p(asm))
            pos["padFront" if front else "padBack"] = idx
        elif test == nm.get("virt"):
            _need(len(st.body) == 1 and isinstance(st.body[0], ast.For) and not st.orelse, "parse loop: virtual block shape")
            lp = st.body[0]
            _need(isinstance(lp.target, ast.Name) and _T(lp.iter) == "range(1, self.ensemble_size)" and len(lp.body) == 2,
                  "parse loop: virtual members are not range(1, self.ensemble_size): " + _T(lp.iter))
            i = lp.target.id
            V, U = nm.get("var"), nm.get("unit")
            got = sorted(_T(x) for x in lp.body)
            src = None
            for x in lp.body:
                a1 = _assign1(x)
                if a1 and a1[0] == "self.__values[%s][%s]" % (i, V):
                    _need(isinstance(a1[1], ast.Subscript) and isinstance(a1[1].value, ast.Subscript)
                          and _T(a1[1].value.value) == "self.__values" and _T(a1[1].slice) == V,
                          "parse loop: virtual member does not reference the stored array: " + _T(x))
                    src = _natx(a1[1].value.slice, {})
            _need(src is not None and "self.set_unit(%s, unit=%s, ensemble_member=%s)" % (V, U, i) in got,
                  "parse loop: virtual member body: " + "; ".join(got)[:140])
            out.put("virtTargets", "List.range' 1 (g.ensSize - 1)")
            out.put("virtSrc", src)
            pos["virt"] = idx
        else:
            raise TranslationError("parse loop: unsupported if-statement " + test[:100])
    for k in ("member", "virtual", "nValues", "raw", "miss", "entry", "padFront", "padBack", "virtTargets", "virtSrc"):
        _need(k in out, "parse loop: no statement for " + k)
    _need(pos["raw"] < pos["miss"], "parse loop: the missing-value mask precedes the reading of the values")
    _need(max(pos["raw"], pos["miss"], pos["padFront"], pos["padBack"]) < pos["virt"],
          "parse loop: virtual ensemble references are made before the array is complete")
    out["asm"] = asm
    return dict(out)


_HDR_BOILER = {
    "now = datetime.datetime.now()",
    "series = ET.Element('{%s}' % (ns['pi'],) + 'series')",
    "header = ET.SubElement(series, '{%s}' % (ns['pi'],) + 'header')",
    "self.__xml_root.append(series)",
}


def translate_writer():
    tree = _tree()
    hd = _find_method(tree, "Timeseries", "__add_header")
    args = [a.arg for a in hd.args.args]
    _need(args == ["self", "variable", "location_parameter_id", "ensemble_member", "miss_val", "unit"], "__add_header signature")
    out = _Once()
    names = texts = None
    cur = None
    dates = {}
    for st in [s for s in hd.body if not _is_doc(s)]:
        txt = _T(st)
        a = _assign1(st)
        if txt in _HDR_BOILER:
            continue
        if a and a[0] == "header_elements" and isinstance(a[1], ast.List):
            names = [e.value for e in a[1].elts]
            continue
        if a and a[0] == "header_element_texts" and isinstance(a[1], ast.List):
            texts = [_T(e) for e in a[1].elts]
            continue
        if a and a[0] == "el" and txt.startswith("el = header.find('pi:") and txt.endswith("', ns)"):
            cur = txt[len("el = header.find('pi:"):-len("', ns)")]
            continue
        if isinstance(st, ast.Expr) and txt.startswith("el.set('date', ") and txt.endswith(".strftime('%Y-%m-%d'))"):
            dates.setdefault(cur, {})["date"] = txt[len("el.set('date', "):-len(".strftime('%Y-%m-%d'))")]
            continue
        if isinstance(st, ast.Expr) and txt.startswith("el.set('time', ") and txt.endswith(".strftime('%H:%M:%S'))"):
            dates.setdefault(cur, {})["time"] = txt[len("el.set('time', "):-len(".strftime('%H:%M:%S'))")]
            continue
        if isinstance(st, ast.For) and _T(st.iter) == "range(len(header_elements))":
            _need([_T(x) for x in st.body] == [
                "el = ET.SubElement(header, '{%s}' % (ns['pi'],) + header_elements[i])", "el.text = header_element_texts[i]"],
                "__add_header: element loop")
            continue
        _need(isinstance(st, ast.If), "__add_header: unsupported statement " + txt[:100])
        test = _T(st.test)
        if isinstance(st.test, ast.Compare) and sorted([_T(st.test.left), _T(st.test.comparators[0])]) == [
                "self.__forecast_datetime", "self.__start_datetime"]:
            c = _cmp(st.test, {"self.__forecast_datetime": "s.forecast", "self.__start_datetime": "s.start"})
            bt = [_T(x) for x in st.body]
            if bt[0].startswith("header_elements.insert") or bt[0].startswith("header_element_texts.insert"):
                _need(sorted(bt) == ["header_element_texts.insert(6, '')", "header_elements.insert(6, 'forecastDate')"]
                      and not st.orelse, "__add_header: forecastDate element insertion")
                out.put("fcPresent", c)
            else:
                _need(bt == ["el = header.find('pi:forecastDate', ns)",
                             "el.set('date', self.__forecast_datetime.strftime('%Y-%m-%d'))",
                             "el.set('time', self.__forecast_datetime.strftime('%H:%M:%S'))"] and not st.orelse,
                      "__add_header: forecastDate value")
                out.put("fcValue", c)
        elif test == "self.contains_ensemble":
            _need(sorted(_T(x) for x in st.body) == ["header_element_texts.insert(3, str(ensemble_member))",
                                                     "header_elements.insert(3, 'ensembleMemberIndex')"] and not st.orelse,
                  "__add_header: ensembleMemberIndex insertion")
            out.put("hdrMember", "if s.containsEns then some m else none")
        elif test == "len(location_parameter_id.qualifier_id) > 0":
            _need([_T(x) for x in st.body] == ["i = 0", "for qualifier_id in location_parameter_id.qualifier_id: "
                  "header_elements.insert(3, 'qualifierId') header_element_texts.insert(3 + i, qualifier_id) i += 1"],
                  "__add_header: qualifier block")
        elif test == "self.dt":
            _need(cur == "timeStep", "__add_header: time step set on element " + str(cur))
            _need([_T(x) for x in st.body] == ["el.set('unit', 'second')",
                                               "el.set('multiplier', str(int(self.dt.total_seconds())))"]
                  and [_T(x) for x in st.orelse] == ["el.set('unit', 'nonequidistant')"], "__add_header: time step branch")
            out.put("hdrStep", "match s.dt with\n  | some d => some d\n  | none => none")
        else:
            raise TranslationError("__add_header: unsupported if-statement " + test[:100])
    _need(names and texts and len(names) == len(texts), "__add_header: element lists")
    tab = dict(zip(names, texts))
    _need(tab.get("missVal") == "str(miss_val)" and tab.get("units") == "unit" and tab.get("timeStep") == "''"
          and tab.get("startDate") == "''" and tab.get("endDate") == "''", "__add_header: element texts: " + str(tab)[:200])
    _need(dates.get("startDate") == {"date": "self.__start_datetime", "time": "self.__start_datetime"}
          and dates.get("endDate") == {"date": "self.__end_datetime", "time": "self.__end_datetime"},
          "__add_header: start / end date attributes: " + str(dates))
    _need(set(dates) == {"startDate", "endDate"}, "__add_header: date attributes set on " + str(sorted(dates)))
    for k in ("fcPresent", "fcValue", "hdrMember", "hdrStep"):
        _need(k in out, "__add_header: no statement for " + k)
    _need(out["fcPresent"] == out["fcValue"], "__add_header: forecastDate element and value under different conditions")
    out["hdrForecast"] = "if %s then some s.forecast else none" % out["fcPresent"]

    # ---- write()
    wr = _find_method(tree, "Timeseries", "write")
    top = [s for s in wr.body if not _is_doc(s)]
    new = [s for s in top if isinstance(s, ast.If) and _T(s.test) == "self.make_new_file"]
    _need(len(new) == 1 and len(new[0].body) == 2 and _T(new[0].body[0]) == "self.__reset_xml_tree()",
          "write: new-file block is not (reset tree; header loop)")
    l1 = new[0].body[1]
    _need(isinstance(l1, ast.For) and _T(l1.iter) == "range(len(self.__values))" and len(l1.body) == 1
          and isinstance(l1.body[0], ast.For), "write: header loop over members")
    m = l1.target.id
    l2 = l1.body[0]
    _need(_T(l2.iter) == "sorted(self.__values[%s].keys())" % m, "write: header loop is not over sorted(self.__values[m].keys())")
    v = l2.target.id
    b = [_T(x) for x in l2.body]
    _need(len(b) == 3 and b[0].endswith("= self.__data_config.pi_variable_ids(%s)" % v)
          and b[1].endswith("= self.get_unit(%s, %s)" % (v, m)), "write: header loop body: " + "; ".join(b)[:160])
    ids, un = b[0].split(" = ")[0], b[1].split(" = ")[0]
    call = l2.body[2].value if isinstance(l2.body[2], ast.Expr) else None
    _need(isinstance(call, ast.Call) and _T(call.func) == "self.__add_header" and [_T(x) for x in call.args] == [v, ids]
          and sorted((k.arg, _T(k.value)) for k in call.keywords) == sorted(
              [("ensemble_member", m), ("miss_val", "-999"), ("unit", un)]), "write: __add_header call: " + b[2][:140])
    out["hdrMiss"] = "XVal.fin (-999)"

    # series loop
    ml = [s for s in top if isinstance(s, ast.For) and _T(s.iter) == "range(len(self.__values))"]
    _need(len(ml) == 1 and len(ml[0].body) == 2, "write: value loop over members")
    M = ml[0].target.id
    sl = ml[0].body[1]
    _need(isinstance(sl, ast.For) and _T(sl.iter) == "self.__xml_root.findall('pi:series', ns)", "write: series loop")
    cur = None
    dates = {}
    seen = _Once()
    for st in [s for s in sl.body if not _is_doc(s)]:
        txt = _T(st)
        if txt == "header = series.find('pi:header', ns)":
            continue
        if txt.startswith("el = header.find('pi:") and txt.endswith("', ns)"):
            cur = txt[len("el = header.find('pi:"):-len("', ns)")]
            continue
        if txt.startswith("el.set('date', ") and txt.endswith(".strftime('%Y-%m-%d'))"):
            dates.setdefault(cur, {})["date"] = txt[len("el.set('date', "):-len(".strftime('%Y-%m-%d'))")]
            continue
        if txt.startswith("el.set('time', ") and txt.endswith(".strftime('%H:%M:%S'))"):
            dates.setdefault(cur, {})["time"] = txt[len("el.set('time', "):-len(".strftime('%H:%M:%S'))")]
            continue
        if txt == "variable = self.__data_config.variable(header)":
            continue
        if txt == "miss_val = header.find('pi:missVal', ns).text":
            seen.put("miss", 1)
            continue
        if txt == "values = self.__values[%s][variable]" % M:
            seen.put("values", 1)
            continue
        if txt == "el.text = self.get_unit(variable, %s)" % M:
            _need(cur == "units", "write: unit written to element " + str(cur))
            seen.put("unit", 1)
            continue
        if txt == "nans = np.isnan(values)":
            seen.put("nans", 1)
            continue
        _need(isinstance(st, ast.If), "write: unsupported statement in the series loop: " + txt[:100])
        test = _T(st.test)
        if test == "el is not None":
            _need(cur == "ensembleMemberIndex" and not st.orelse and len(st.body) == 1 and isinstance(st.body[0], ast.If)
                  and _T(st.body[0].test) in ("%s != int(el.text)" % M, "int(el.text) != %s" % M)
                  and [_T(x) for x in st.body[0].body] == ["continue"] and not st.body[0].orelse, "write: member filter")
            seen.put("filter", 1)
        elif test == "len(values) == 0":
            _need([_T(x) for x in st.body] == ["self.__xml_root.remove(series)", "continue"] and not st.orelse,
                  "write: empty series are not removed")
            out["keep"] = "!(e.vals.length == 0)"
        elif test == "self.__binary":
            _need([_T(x) for x in st.body] == ["f.write(values.astype(self.__pi_dtype).tobytes())"], "write: binary values")
            out["binVals"] = "e.vals.map r32"
            o = st.orelse
            _need(len(o) == 4 and _T(o[0]) == "events = series.findall('pi:event', ns)" and _T(o[1]) == "t = self.__start_datetime"
                  and isinstance(o[2], ast.For) and _T(o[2].target) == "(i, value)" and _T(o[2].iter) == "enumerate(values)",
                  "write: event loop head")
            _need(_T(o[3]) == "if len(events) > len(values): for i in range(len(values), len(events)): series.remove(events[i])",
                  "write: superfluous events: " + _T(o[3])[:120])
            eb = [_T(x) for x in o[2].body]
            want = ["if self.dt is None: t = self.times[i]",
                    "if i < len(events): event = events[i] else: event = ET.Element('pi:event') series.append(event)",
                    "event.set('date', t.strftime('%Y-%m-%d'))", "event.set('time', t.strftime('%H:%M:%S'))",
                    None, "if self.dt: t += self.dt"]
            _need(len(eb) == 6 and all(w is None or w == g for w, g in zip(want, eb)), "write: event loop body: " + " | ".join(eb)[:300])
            vs = o[2].body[4]
            _need(isinstance(vs, ast.If) and _T(vs.test) == "nans[i]" and [_T(x) for x in vs.body] == ["event.set('value', miss_val)"]
                  and [_T(x) for x in vs.orelse] == ["event.set('value', str(value))"], "write: event value: " + eb[4][:120])
            out["encXml"] = "if v = XVal.nan then miss else v"
            out["evTimes"] = "match s.dt with\n  | some d => gridTimes s.start d n\n  | none => s.times.take n"
        else:
            raise TranslationError("write: unsupported if-statement in the series loop: " + test[:100])
    for k in ("miss", "values", "unit", "nans", "filter"):
        _need(k in seen, "write: no statement for " + k)
    for k in ("keep", "binVals", "encXml", "evTimes"):
        _need(k in out, "write: no statement for " + k)
    _need(dates == {"startDate": {"date": "self.__start_datetime", "time": "self.__start_datetime"},
                    "endDate": {"date": "self.__end_datetime", "time": "self.__end_datetime"}},
          "write: start / end date refresh: " + str(dates))
    return dict(out)


# ---- the frame of __init__ (existing file): everything around the two loops
#
# Python construct                                            ->  model term               (TRUSTED mapping)
# self.__dt = None … self.__ensemble_size = 1 (7 assignments)     the initial Glob
# f = None; if self.__binary: try: f = io.open(self.binary_path, 'rb') except IOError: pass      stream := f.bin (none = no file)
# timezone = root.find('pi:timeZone'); float(timezone.text) | None                                 f.tz
# if self.__dt: …  else: …   (self.__dt a timedelta or None)      match dt with | some d => … | none => …   (d > 0: model)
# [self.__start_datetime + i * self.__dt for i in range(t_len)]   (List.range t_len.toNat).map (fun i => start + i * d)
# self.__times = []; for series …: events = series.findall('pi:event', ns);
#   if len(events) > len(self.__times): self.__times = [parse(e) for e in events]       fold keeping the longer event-stamp list
# if pi_validate_times: …  (raises only, default False)            ignored
# self.__floor_date_time(dt=X, tdel=self.__dt)                    C11.floorDT start d X   (the method itself: Gen/PiAxis)
# try: i = self.__times.index(X) except ValueError: i = -1         if X ∈ ts then ts.idxOf X else -1
# self.__values = [{}] / self.__units = [{}]                       slot list (model: final length, see the while-loops)
# if f is not None and self.__binary: f.close()                    —


def translate_frame():
    init = _find_method(_tree(), "Timeseries", "__init__")
    blocks = [s for s in init.body if isinstance(s, ast.If) and _T(s.test) == "not self.make_new_file"]
    _need(len(blocks) == 1, "__init__: not exactly one `if not self.make_new_file:` block")
    _need(sum(1 for s in init.body if _T(s) in ("self.__values = [{}]", "self.__units = [{}]")) == 2,
          "__init__: initial slot lists are not [{}]")
    loops = _series_loops(init)
    out = _Once()
    glob = {}
    pos = {}
    GL = {"self.__dt": "dt", "self.__start_datetime": "start", "self.__end_datetime": "stop",
          "self.__forecast_datetime": "forecast", "self.__contains_ensemble": "containsEns",
          "self.__ensemble_size": "ensSize", "self.__forecast_index": None}
    for idx, st in enumerate(s for s in blocks[0].body if not _is_doc(s)):
        txt = _T(st)
        a = _assign1(st)
        if txt == "f = None" or txt == "timezone = self.__xml_root.find('pi:timeZone', ns)":
            continue
        if a and a[0] in GL and "scan" not in pos:
            v = {"None": "none", "False": "false", "True": "true"}.get(_T(a[1]), _T(a[1]))
            _need(a[0] not in glob, "__init__: %s initialised twice" % a[0])
            glob[a[0]] = v
            continue
        if st is loops[0]:
            pos["scan"] = idx
            continue
        if st is loops[3]:
            pos["parse"] = idx
            continue
        _need(isinstance(st, ast.If), "__init__: unsupported statement " + txt[:100])
        test = _T(st.test)
        if test == "self.__binary":
            _need(txt == "if self.__binary: try: f = io.open(self.binary_path, 'rb') except IOError: pass", "__init__: binary file opening")
        elif test == "timezone is not None":
            _need([_T(x) for x in st.body] == ["self.__timezone = float(timezone.text)"]
                  and [_T(x) for x in st.orelse] == ["self.__timezone = None"], "__init__: time zone")
            out.put("tz", "f.tz")
        elif test == "self.__dt":
            _need(len(st.body) == 2 and len(st.orelse) == 2, "__init__: stamps block shape")
            a1 = _assign1(st.body[0])
            _need(a1 and isinstance(st.body[0].targets[0], ast.Name), "__init__: t_len")
            tl = ix(a1[1], {"self.__end_datetime": "stop", "self.__start_datetime": "start", "self.__dt": "d"})
            a2 = _assign1(st.body[1])
            lc = a2[1] if a2 and a2[0] == "self.__times" else None
            _need(isinstance(lc, ast.ListComp) and len(lc.generators) == 1 and not lc.generators[0].ifs
                  and _T(lc.generators[0].iter) == "range(%s)" % a1[0] and isinstance(lc.generators[0].target, ast.Name),
                  "__init__: equidistant stamps are not a comprehension over range(%s)" % a1[0])
            i = lc.generators[0].target.id
            _need(_T(lc.elt) in ("self.__start_datetime + %s * self.__dt" % i, "self.__start_datetime + self.__dt * %s" % i),
                  "__init__: equidistant stamp is not start + i * dt: " + _T(lc.elt))
            out.put("timesEq", "(List.range (%s).toNat).map (fun (i : Nat) => start + (i : Int) * d)" % tl)
            o = st.orelse
            _need(_T(o[0]) == "self.__times = []" and o[1] is loops[1] and len(o[1].body) == 2
                  and _T(o[1].body[0]) == "events = series.findall('pi:event', ns)" and isinstance(o[1].body[1], ast.If)
                  and not o[1].body[1].orelse
                  and [_T(x) for x in o[1].body[1].body] == ["self.__times = [self.__parse_date_time(e) for e in events]"],
                  "__init__: nonequidistant stamps loop")
            out.put("longer", _cmp(o[1].body[1].test, {"len(events)": "r.evTimes.length", "len(self.__times)": "cur.length"}))
            pos["times"] = idx
        elif test == "pi_validate_times":
            _need(not any(isinstance(n, (ast.Assign, ast.AugAssign)) and any(isinstance(t, (ast.Attribute, ast.Subscript))
                  for t in (n.targets if isinstance(n, ast.Assign) else [n.target])) for n in ast.walk(st)),
                  "__init__: the validation block changes the object")
        elif test == "self.__forecast_datetime is not None":
            _need(len(st.body) == 2 and not st.orelse, "__init__: forecast block shape")
            _need(_T(st.body[0]) == "if self.__dt: self.__forecast_datetime = self.__floor_date_time(dt=self.__forecast_datetime, "
                  "tdel=self.__dt)", "__init__: forecast flooring: " + _T(st.body[0])[:140])
            out.put("fcF", "match dt with\n  | some d => C11.floorDT start d x\n  | none => x")
            tr = st.body[1]
            _need(isinstance(tr, ast.Try) and [_T(x) for x in tr.body] == [
                "self.__forecast_index = self.__times.index(self.__forecast_datetime)"] and len(tr.handlers) == 1
                and _T(tr.handlers[0].type) == "ValueError" and len(tr.handlers[0].body) == 1
                and not tr.orelse and not tr.finalbody, "__init__: forecast index")
            a3 = _assign1(tr.handlers[0].body[0])
            _need(a3 and a3[0] == "self.__forecast_index", "__init__: forecast index fallback")
            neg = isinstance(a3[1], ast.UnaryOp) and isinstance(a3[1].op, ast.USub)
            fallback = ("-" if neg else "") + ix(a3[1].operand if neg else a3[1], {})
            out.put("fcIdx", "if x ∈ ts then (ts.idxOf x : Int) else %s" % fallback)
            pos["fc"] = idx
        elif test == "not self.__dt":
            want = ("self.__times = self.__times[bisect.bisect_left(self.__times, self.__start_datetime):"
                    "bisect.bisect_left(self.__times, self.__end_datetime) + 1]")
            _need(len(st.body) == 1 and not st.orelse and "".join(_T(st.body[0]).split()) == "".join(want.split()),
                  "__init__: trimming of the nonequidistant stamps")
            out.put("trim", "(ts.take (bisectLeft ts stop + 1)).drop (bisectLeft ts start)")
            pos["trim"] = idx
        elif test == "f is not None and self.__binary":
            _need([_T(x) for x in st.body] == ["f.close()"], "__init__: closing the binary file")
        else:
            raise TranslationError("__init__: unsupported if-statement " + test[:100])
    _need(set(glob) == set(GL), "__init__: initial state assigns " + str(sorted(glob)))
    _need(glob["self.__forecast_index"] == "none", "__init__: forecast index not initialised with None")
    out["init"] = "{ " + ", ".join("%s := %s" % (GL[k], glob[k]) for k in GL if GL[k]) + " }"
    for k in ("tz", "timesEq", "longer", "fcF", "fcIdx", "trim"):
        _need(k in out, "__init__: no statement for " + k)
    _need(pos.get("scan", 99) < pos["times"] < pos["fc"] < pos.get("parse", -1) < pos["trim"],
          "__init__: order of (consistency loop, stamps, forecast, parse loop, trimming): " + str(pos))
    return dict(out)


REC_FRAME = """
def globInitGen : Glob := %(init)s
def timesEqGen' (start d stop : Int) : List Int := %(timesEq)s
def longestGen : List Int → List Rec → List Int
  | cur, [] => cur
  | cur, r :: rs => longestGen (if %(longer)s then r.evTimes else cur) rs
def fcGen (dt : Option Int) (start x : Int) : Int :=
  %(fcF)s
def fcIdxGen (x : Int) (ts : List Int) : Int := %(fcIdx)s
def trimGen (ts : List Int) (start stop : Int) : List Int := %(trim)s

/-- `pi.Timeseries.__init__` on an existing file: all pieces in the skeleton of Proofs/C11RecRef -/
def readGen (binary : Bool) (f : File) : Option Store :=
  C11.readWith globInitGen scanStepGen timesEqGen' (longestGen []) fcGen fcIdxGen trimGen fillGen binary f

theorem longestGen_eq_model (cur : List Int) (rs : List Rec) : longestGen cur rs = C11.longestTimes cur rs := by
  induction rs generalizing cur with
  | nil => rfl
  | cons r rs ih =>
    unfold longestGen C11.longestTimes
    exact ih _

/-- **the whole reader**: the translated `__init__` is the model function `read` of `C11_pi_roundtrip` -/
theorem readGen_eq_model (binary : Bool) (f : File) : readGen binary f = C11.read binary f := by
  unfold readGen
  exact C11.readWith_eq globInitGen scanStepGen timesEqGen' (longestGen []) fcGen fcIdxGen trimGen fillGen
    rfl scanStepGen_eq_model (fun s d e => rfl) (fun rs => longestGen_eq_model [] rs)
    (fun dt s x => rfl) (fun x ts => rfl) (fun ts s e => rfl)
    (fun g b rs st sl hp => fillGen_eq_model g hp b rs st sl) binary f
"""


REC_HEAD = """import RtcVerif.Model.C11
import RtcVerif.Proofs.C11RecRef
/-!
GENERATED on every run of the C11 check by harness/translate_c11.py (gen_pi_records) from
src/rtctools/data/pi.py of the tree under check.  Do not edit.  Record-level logic of the PI
reader (both passes over the series) and of the writer, read through the construct table in the
translator; the theorems tie it to the model functions of `C11_pi_roundtrip` / `C11_padding_correct_end`.
-/
set_option linter.unusedVariables false
set_option linter.unusedSimpArgs false
namespace RtcVerif.Gen
open RtcVerif RtcVerif.C11
"""

REC_SCAN = """
def scanDtGen (gdt hstep : Option Int) : Option (Option Int) :=
  %(scanDt)s
def scanStartGen (gs : Option Int) (hs : Int) : Int :=
  %(scanStart)s
def scanStopGen (gs : Option Int) (hs : Int) : Int :=
  %(scanStop)s
def scanFcValGen (h : Hdr) : Int :=
  %(scanFcVal)s
def scanFcGen (gf : Option Int) (h : Hdr) : Option Int :=
  %(scanFc)s
def scanEnsGen (size : Nat) (h : Hdr) : Nat :=
  %(scanEns)s
def scanContGen (gc : Bool) (h : Hdr) : Bool :=
  %(scanCont)s

/-- one iteration of the consistency loop: the pieces above in the skeleton of Proofs/C11RecRef -/
def scanStepGen (g : Glob) (h : Hdr) : Option Glob :=
  C11.scanStepWith scanDtGen scanStartGen scanStopGen scanFcGen scanEnsGen scanContGen g h

theorem scanStepGen_eq_model (g : Glob) (h : Hdr) : scanStepGen g h = C11.scanStep g h := by
  have h1 : scanDtGen = C11.scanDtRef := by
    funext gdt hstep
    unfold scanDtGen C11.scanDtRef
    cases gdt with
    | none => rfl
    | some d =>
      by_cases hh : hstep = some d
      · subst hh; simp
      · have hh' : ¬ some d = hstep := fun e => hh e.symm
        simp [hh, hh']
  have h2 : scanStartGen = C11.scanStartRef := by
    funext gs hs
    cases gs <;> rfl
  have h3 : scanStopGen = C11.scanStopRef := by
    funext gs hs
    cases gs <;> rfl
  have h4 : scanFcGen = C11.scanFcRef := by
    funext gf h
    unfold scanFcGen C11.scanFcRef scanFcValGen
    cases gf <;> cases h.forecast <;> simp [Bool.and_comm, bne_comm]
  have h5 : scanEnsGen = C11.scanEnsRef := by
    funext size h
    unfold scanEnsGen C11.scanEnsRef
    cases h.member <;> rfl
  have h6 : scanContGen = C11.scanContRef := by
    funext gc h
    unfold scanContGen C11.scanContRef
    cases gc <;> simp
  unfold scanStepGen
  rw [h1, h2, h3, h4, h5, h6]
  exact C11.scanStepRef_eq g h

/-- the whole first pass -/
theorem scanGen_eq_model (g : Glob) (hs : List Hdr) : C11.scanWith scanStepGen g hs = C11.scan g hs :=
  C11.scanWith_eq scanStepGen scanStepGen_eq_model g hs
"""

REC_SERIES = """
def memberGen (h : Hdr) : Nat :=
  %(member)s
def virtualGen (g : Geo) (h : Hdr) : Bool :=
  %(virtual)s
def virtTargetsGen (g : Geo) : List Nat := %(virtTargets)s
def virtSrcGen : Nat := %(virtSrc)s
/-- slots a series is stored in: its own, then the virtual-ensemble references -/
def targetsGen (g : Geo) (h : Hdr) : List Nat :=
  memberGen h :: (if virtualGen g h then virtTargetsGen g else [])
def nValuesFullGen (g : Geo) (h : Hdr) : Option Int :=
  %(nValues)s
def rawGen (binary : Bool) (n : Nat) (evs : List XVal) (stream : Option (List XVal)) :
    List XVal × Option (List XVal) :=
  %(raw)s
def missGen (miss v : XVal) : XVal := %(miss)s
def padFrontFullGen (g : Geo) (h : Hdr) : Int :=
  %(padFront)s
def padBackFullGen (g : Geo) (h : Hdr) : Int :=
  %(padBack)s
def asmGen (pf pb : Nat) (v : List XVal) : List XVal := %(asm)s
def entryGen (h : Hdr) (vals : List XVal) : Entry := %(entry)s

def readSeriesGen (g : Geo) (binary : Bool) (r : Rec) (stream : Option (List XVal)) :
    Option (List XVal × Option (List XVal)) :=
  C11.readSeriesWith nValuesFullGen rawGen missGen padFrontFullGen padBackFullGen asmGen g binary r stream

def fillGen (g : Geo) (binary : Bool) (rs : List Rec) (stream : Option (List XVal)) (slots : List Slot) :
    Option (List Slot) :=
  C11.fillWith readSeriesGen targetsGen entryGen g binary rs stream slots

/-- the array referenced by the virtual members is the one the series itself was stored in -/
theorem virtSrcGen_is_member (g : Geo) (h : Hdr) (hv : virtualGen g h = true) : memberGen h = virtSrcGen := by
  unfold virtualGen at hv
  unfold memberGen virtSrcGen
  cases hm : h.member with
  | none => rfl
  | some k => simp [hm] at hv

theorem targetsGen_eq_model (g : Geo) (h : Hdr) (hp : 0 < g.ensSize) : targetsGen g h = C11.targets g h := by
  unfold targetsGen C11.targets memberGen virtualGen virtTargetsGen
  cases hm : h.member with
  | some k => simp
  | none =>
    cases hc : g.containsEns with
    | false => simp
    | true =>
      simp only [Option.isNone_none, Bool.and_self, if_true]
      exact C11.zero_cons_range' g.ensSize hp

theorem nValuesFullGen_eq_model (g : Geo) (h : Hdr) : nValuesFullGen g h = C11.nValues g h := by
  unfold nValuesFullGen C11.nValues
  cases g.dt with
  | none => first | rfl | (simp only [Option.some.injEq]; omega)
  | some d0 =>
    cases h.step with
    | none => rfl
    | some d => rfl

theorem rawGen_eq_model : rawGen = C11.rawRef := by
  funext binary n evs stream
  unfold rawGen C11.rawRef
  cases binary with
  | true => rfl
  | false =>
    simp only [Bool.false_eq_true, if_false]
    first
      | rw [C11.take_min_pad]
      | (rw [Nat.min_comm, C11.take_min_pad])

theorem missGen_eq_model : missGen = C11.missMap := by
  funext miss v
  unfold missGen C11.missMap
  first | rfl | (by_cases hh : v = miss <;> simp [hh, eq_comm])

theorem padFrontFullGen_eq_model (g : Geo) (h : Hdr) : padFrontFullGen g h = C11.padFront g h := by
  unfold padFrontFullGen C11.padFront
  cases g.dt <;> rfl

theorem padBackFullGen_eq_model (g : Geo) (h : Hdr) : padBackFullGen g h = C11.padBack g h := by
  unfold padBackFullGen C11.padBack
  cases g.dt <;> rfl

theorem asmGen_eq_model : asmGen = C11.asmRef := by
  funext pf pb v
  unfold asmGen C11.asmRef
  first | rfl | simp [List.append_assoc]

theorem readSeriesGen_eq_model (g : Geo) (binary : Bool) (r : Rec) (stream : Option (List XVal)) :
    readSeriesGen g binary r stream = C11.readSeries g binary r stream := by
  have h1 : nValuesFullGen = C11.nValues := by funext g h; exact nValuesFullGen_eq_model g h
  have h2 : padFrontFullGen = C11.padFront := by funext g h; exact padFrontFullGen_eq_model g h
  have h3 : padBackFullGen = C11.padBack := by funext g h; exact padBackFullGen_eq_model g h
  unfold readSeriesGen
  rw [h1, h2, h3, rawGen_eq_model, missGen_eq_model, asmGen_eq_model]
  exact C11.readSeriesRef_eq g binary r stream

/-- the whole second pass (every series: values, padding, slot assignment, units) -/
theorem fillGen_eq_model (g : Geo) (hp : 0 < g.ensSize) (binary : Bool) (rs : List Rec)
    (stream : Option (List XVal)) (slots : List Slot) :
    fillGen g binary rs stream slots = C11.fill g binary rs stream slots := by
  unfold fillGen
  exact C11.fillWith_eq readSeriesGen targetsGen entryGen g binary
    (fun r st => readSeriesGen_eq_model g binary r st) (fun h => targetsGen_eq_model g h hp)
    (fun h v => rfl) rs stream slots

example : targetsGen ⟨some 3600, 0, 7200, [], true, 3⟩ ⟨0, none, some 3600, 0, 3600, none, XVal.fin (-999), "m"⟩ = [0, 1, 2] := by
  decide
"""

REC_WRITER = """
def hdrMemberGen (s : Store) (m : Nat) : Option Nat := %(hdrMember)s
def hdrForecastGen (s : Store) : Option Int := %(hdrForecast)s
def hdrStepFullGen (s : Store) : Option Int :=
  %(hdrStep)s
def hdrMissGen : XVal := %(hdrMiss)s
def mkHdrGen (s : Store) (m : Nat) (e : Entry) : Hdr :=
  { var := e.var, member := hdrMemberGen s m, step := hdrStepFullGen s, start := s.start, stop := s.stop,
    forecast := hdrForecastGen s, miss := hdrMissGen, unit := e.unit }
def encXmlGen (miss v : XVal) : XVal := %(encXml)s
def evTimesGen (s : Store) (n : Nat) : List Int :=
  %(evTimes)s
def keepGen (e : Entry) : Bool := %(keep)s
def binValsGen (r32 : XVal → XVal) (e : Entry) : List XVal := %(binVals)s
def mkRecGen (s : Store) (binary : Bool) (m : Nat) (e : Entry) : Rec :=
  { hdr := mkHdrGen s m e
    evTimes := if binary then [] else evTimesGen s e.vals.length
    evs := if binary then [] else e.vals.map (encXmlGen (mkHdrGen s m e).miss) }
def recsFromGen (s : Store) (binary : Bool) (k : Nat) (slots : List Slot) : List Rec :=
  C11.recsFromWith (mkRecGen s binary) keepGen k slots

theorem mkHdrGen_eq_model (s : Store) (m : Nat) (e : Entry) : mkHdrGen s m e = C11.mkHdr s m e := by
  unfold mkHdrGen C11.mkHdr hdrMemberGen hdrForecastGen hdrStepFullGen hdrMissGen C11.newMiss
  have h1 : (match s.dt with | some d => some d | none => none) = s.dt := by cases s.dt <;> rfl
  by_cases hf : s.forecast = s.start <;> simp [hf, h1]

theorem encXmlGen_eq_model (v : XVal) : encXmlGen hdrMissGen v = C11.encXml v := by
  unfold encXmlGen C11.encXml hdrMissGen C11.newMiss
  first | rfl | (by_cases hh : v = XVal.nan <;> simp [hh, eq_comm])

theorem mkRecGen_eq_model (s : Store) (binary : Bool) (m : Nat) (e : Entry) :
    mkRecGen s binary m e = C11.mkRec s binary m e := by
  have hm : (mkHdrGen s m e).miss = hdrMissGen := rfl
  have he : encXmlGen hdrMissGen = C11.encXml := funext encXmlGen_eq_model
  have ht : evTimesGen s e.vals.length = C11.evTimesOf s e.vals.length := by
    unfold evTimesGen C11.evTimesOf
    cases s.dt <;> rfl
  unfold mkRecGen C11.mkRec
  rw [hm, he, ht, mkHdrGen_eq_model]

/-- all series records of a new file: one per (member, sorted variable) with values -/
theorem recsFromGen_eq_model (s : Store) (binary : Bool) (k : Nat) (slots : List Slot) :
    recsFromGen s binary k slots = C11.recsFrom s binary k slots := by
  unfold recsFromGen
  exact C11.recsFromWith_eq s binary (mkRecGen s binary) keepGen (mkRecGen_eq_model s binary)
    (fun e => by unfold keepGen; cases e.vals <;> rfl) k slots

def streamGen (r32 : XVal → XVal) (slots : List Slot) : List XVal :=
  C11.streamFromWith keepGen (binValsGen r32) slots

/-- binary stream: every value of every kept series (member by member, sorted variables), converted -/
theorem streamGen_eq_model (r32 : XVal → XVal) (slots : List Slot) :
    streamGen r32 slots = C11.streamFrom r32 slots := by
  unfold streamGen
  exact C11.streamFromWith_eq r32 keepGen (binValsGen r32)
    (fun e => by unfold keepGen; cases e.vals <;> rfl) (fun e => rfl) slots

def writeGen (r32 : XVal → XVal) (binary : Bool) (s : Store) : Option File :=
  C11.writeWith recsFromGen streamGen r32 binary s

/-- **the whole writer of a new file**: the translated header / series / event loops are the model
    function `write` of `C11_pi_roundtrip` -/
theorem writeGen_eq_model (r32 : XVal → XVal) (binary : Bool) (s : Store) :
    writeGen r32 binary s = C11.write r32 binary s := by
  unfold writeGen
  exact C11.writeWith_eq recsFromGen streamGen (fun s b k sl => recsFromGen_eq_model s b k sl)
    streamGen_eq_model r32 binary s
"""


def gen_pi_records(c):
    """(re)generate lean/RtcVerif/Gen/PiRecords.lean; returns the extra obligation spec for c.prove"""
    gdir = os.path.join(LEAN_DIR, "RtcVerif", "Gen")
    os.makedirs(gdir, exist_ok=True)
    path = os.path.join(gdir, "PiRecords.lean")
    text, thms, done = REC_HEAD, [], []
    for what, fn, tmpl, names in (
            ("Timeseries.__init__ consistency loop", translate_scan, REC_SCAN, ["scanStepGen_eq_model", "scanGen_eq_model"]),
            ("Timeseries.__init__ parse-data loop", translate_series, REC_SERIES,
             ["virtSrcGen_is_member", "targetsGen_eq_model", "nValuesFullGen_eq_model", "rawGen_eq_model",
              "missGen_eq_model", "padFrontFullGen_eq_model", "padBackFullGen_eq_model", "asmGen_eq_model",
              "readSeriesGen_eq_model", "fillGen_eq_model"]),
            ("Timeseries.__add_header / write", translate_writer, REC_WRITER,
             ["mkHdrGen_eq_model", "encXmlGen_eq_model", "mkRecGen_eq_model", "recsFromGen_eq_model",
              "streamGen_eq_model", "writeGen_eq_model"])):
        try:
            r = fn()
        except TranslationError as e:
            c.broken.append(("translator: " + what, str(e)))
            continue
        except Exception as e:
            c.broken.append(("translator: " + what, "%s: %s" % (type(e).__name__, e)))
            continue
        text += tmpl % r
        thms.extend(names)
        done.append(what)
    if len(done) >= 2 and done[0].endswith("consistency loop") and done[1].endswith("parse-data loop"):
        # the frame of __init__ uses the generated loops
        try:
            text += REC_FRAME % translate_frame()
            thms.extend(["longestGen_eq_model", "readGen_eq_model"])
        except TranslationError as e:
            c.broken.append(("translator: Timeseries.__init__ frame", str(e)))
        except Exception as e:
            c.broken.append(("translator: Timeseries.__init__ frame", "%s: %s" % (type(e).__name__, e)))
    text += "\nend RtcVerif.Gen\n"
    old = open(path).read() if os.path.exists(path) else None
    if old != text:
        tmp = path + ".tmp%d" % os.getpid()
        with open(tmp, "w") as f:
            f.write(text)
        os.replace(tmp, path)
    return [("RtcVerif.Gen.PiRecords", "RtcVerif.Gen", thms)] if thms else []


# =============================================================================================
# EXTENSION: src/rtctools/data/csv.py  ->  lean/RtcVerif/Gen/CsvCode.lean
#
# translated                                       generated            proved equal to
# ---------------------------------------------------------------------------------------------
# save: the fmt list (both branches), the          fmtGen               C11.fmtList      (C11_csv_fmt)
#   savetxt call (delimiter, header, fmt)
# load: the converter table c (with_time, the      convTableGen,        C11.convTable, C11.fillKeys
#   delimiter == ';' block, decimal-comma test),   fillKeysGen            (C11_csv_converters)
#   filling_values of the genfromtxt call
# _string_to_float                                 strToFloatGen        C11.strToFloat   (C11_csv_cell_roundtrip)
#
# Python construct                                      ->  model term                       (TRUSTED mapping)
# ---------------------------------------------------------------------------------------------
# ['%s'] / ['%f']                                           [Fmt.s] / [Fmt.f]
# k * [x], [x] * k ; a + b (lists)                          List.replicate k x ; a ++ b
# len(data.dtype.names)                                     ncols
# data['time'] = [t.strftime('%Y-%m-%d %H:%M:%S') for t in data['time']]     time cells (Cell.time)
# np.savetxt(fname, data, delimiter=delimiter, header=delimiter.join(data.dtype.names), fmt=fmt, comments='')
#                                                           header = the names, every cell through its column's format
# c = {} ; c.update({k: f}) / c.update({k(i): f for i in range(n)})   (fresh keys)      [] ; c ++ [(k, f)] / c ++ (List.range n).map …
# _string_to_datetime / _string_to_float  (as converter)   Conv.time / Conv.flt
# len(c)                                                    c.length
# 1 + n - len(c) inside range(…)                            Nat subtraction (range of a negative number is empty)
# delimiter == ';'                                          semicolon
# csvfile.readline().count(b';')                            nSemi  (separators in the header line)
# csvfile.read(1024).count(b',')                            nComma ; `if nComma:` ↦ nComma ≠ 0
# {k: np.nan for k, v in c.items() if v is _string_to_float} or None          (c.filter (·.2 == Conv.flt)).map (·.1)
# np.genfromtxt(fname, delimiter=delimiter, deletechars='', dtype=None, names=True[, converters=c, filling_values=…])
#                                                           trusted reader applying the table; `return _boolean_to_nan(data, fname)`
# string.replace(',', '.') ; float(string)                  Cell.num x _ ↦ x   (bytes are decoded first)
# logging, error messages, re-raise as ValueError           ignored / none
# anything else                                             TranslationError -> obligation broken
# =============================================================================================


def _csv_tree():
    return ast.parse(open(os.path.join(REPO, "src", "rtctools", "data", "csv.py")).read())


def _func(tree, name):
    for n in tree.body:
        if isinstance(n, ast.FunctionDef) and n.name == name:
            return n
    raise TranslationError("csv.%s not found" % name)


def _natsum(node, sym):
    t = _T(node)
    if t in sym:
        return sym[t]
    if isinstance(node, ast.Constant) and isinstance(node.value, int) and not isinstance(node.value, bool):
        return str(node.value)
    if isinstance(node, ast.BinOp) and isinstance(node.op, (ast.Add, ast.Sub)):
        return "%s %s %s" % (_natsum(node.left, sym), "+" if isinstance(node.op, ast.Add) else "-", _p(_natsum(node.right, sym)))
    raise TranslationError("unsupported count expression " + t)


def _fmtx(node):
    if isinstance(node, ast.List) and len(node.elts) == 1 and isinstance(node.elts[0], ast.Constant) \
            and node.elts[0].value in ("%s", "%f"):
        return "[Fmt.%s]" % node.elts[0].value[1]
    if isinstance(node, ast.BinOp) and isinstance(node.op, ast.Add):
        return "%s ++ %s" % (_fmtx(node.left), _fmtx(node.right))
    if isinstance(node, ast.BinOp) and isinstance(node.op, ast.Mult):
        l, k = (node.left, node.right) if isinstance(node.left, ast.List) else (node.right, node.left)
        one = _fmtx(l)
        return "List.replicate %s %s" % (_p(_natsum(k, {"len(data.dtype.names)": "ncols"})), one[1:-1])
    raise TranslationError("unsupported format list " + _T(node))


def translate_csv():
    tree = _csv_tree()
    out = {}
    # ---- save
    sv = _func(tree, "save")
    _need([a.arg for a in sv.args.args] == ["fname", "data", "delimiter", "with_time"], "save signature")
    body = [s for s in sv.body if not _is_doc(s)]
    _need(len(body) == 2 and isinstance(body[0], ast.If) and _T(body[0].test) == "with_time", "save: not (if with_time; savetxt)")
    tb = body[0].body
    _need(len(tb) == 2 and _T(tb[0]) == "data['time'] = [t.strftime('%Y-%m-%d %H:%M:%S') for t in data['time']]",
          "save: time column formatting: " + _T(tb[0])[:120])
    a1 = _assign1(tb[1])
    a2 = _assign1(body[0].orelse[0]) if len(body[0].orelse) == 1 else None
    _need(a1 and a2 and a1[0] == a2[0], "save: format list not assigned in both branches")
    out["fmt"] = "if withTime then %s else %s" % (_fmtx(a1[1]), _fmtx(a2[1]))
    call = body[1].value if isinstance(body[1], ast.Expr) else None
    _need(isinstance(call, ast.Call) and _T(call.func) == "np.savetxt" and [_T(x) for x in call.args] == ["fname", "data"]
          and sorted((k.arg, _T(k.value)) for k in call.keywords) == sorted(
              [("delimiter", "delimiter"), ("header", "delimiter.join(data.dtype.names)"), ("fmt", a1[0]), ("comments", "''")]),
          "save: savetxt call: " + _T(body[1])[:200])
    # ---- _string_to_float
    sf = _func(tree, "_string_to_float")
    sb = [_T(s) for s in sf.body if not _is_doc(s)]
    arg = sf.args.args[0].arg
    _need(sb == ["if isinstance(%s, bytes): %s = %s.decode('utf-8')" % (arg, arg, arg), "%s = %s.replace(',', '.')" % (arg, arg),
                 "return float(%s)" % arg], "_string_to_float body: " + " | ".join(sb)[:200])
    out["strToFloat"] = "match c with\n  | .num x _ => some x\n  | _ => none"
    # ---- load
    ld = _func(tree, "load")
    _need([a.arg for a in ld.args.args] == ["fname", "delimiter", "with_time"], "load signature")
    body = [s for s in ld.body if not _is_doc(s)]
    steps = []
    cname = None
    tr = None
    for st in body:
        a = _assign1(st)
        if a and _T(a[1]) == "{}" and cname is None:
            cname = a[0]
            continue
        if isinstance(st, ast.If) and _T(st.test) == "with_time":
            _need(cname and [_T(x) for x in st.body] == ["%s.update({0: _string_to_datetime})" % cname] and not st.orelse,
                  "load: with_time block")
            steps.append(("withTime", "c ++ [(0, Conv.time)]"))
            continue
        if isinstance(st, ast.If) and _T(st.test) in ("delimiter == ';'", "';' == delimiter"):
            _need(len(st.body) == 1 and isinstance(st.body[0], ast.With) and not st.orelse, "load: semicolon block")
            w = st.body[0]
            _need(_T(w.items[0].context_expr) == "open(fname, 'rb')" and w.items[0].optional_vars is not None, "load: open")
            fh = _T(w.items[0].optional_vars)
            sym = {}
            last = None
            inner = None
            for x in w.body:
                ax = _assign1(x)
                if ax and _T(ax[1]) == "%s.readline()" % fh:
                    last = (ax[0], "line")
                elif ax and _T(ax[1]) == "%s.read(1024)" % fh:
                    _need(last and last[1] == "line", "load: the sample is read before the header line")
                    last = (ax[0], "sample")
                elif ax and last and _T(ax[1]) == "%s.count(b';')" % last[0] and last[1] == "line":
                    sym[ax[0]] = "nSemi"
                elif ax and last and _T(ax[1]) == "%s.count(b',')" % last[0] and last[1] == "sample":
                    sym[ax[0]] = "nComma"
                elif isinstance(x, ast.If):
                    inner = x
                else:
                    raise TranslationError("load: unsupported statement in the semicolon block: " + _T(x)[:100])
            _need(inner is not None and sym.get(_T(inner.test)) == "nComma" and not inner.orelse and len(inner.body) == 1,
                  "load: decimal-comma test")
            up = inner.body[0].value if isinstance(inner.body[0], ast.Expr) else None
            _need(isinstance(up, ast.Call) and _T(up.func) == "%s.update" % cname and len(up.args) == 1
                  and isinstance(up.args[0], ast.DictComp), "load: converter update is not c.update({… for …})")
            dc = up.args[0]
            g = dc.generators[0]
            _need(len(dc.generators) == 1 and not g.ifs and isinstance(g.target, ast.Name) and isinstance(g.iter, ast.Call)
                  and _T(g.iter.func) == "range" and len(g.iter.args) == 1 and _T(dc.value) == "_string_to_float",
                  "load: converter comprehension")
            sym2 = dict(sym)
            sym2["len(%s)" % cname] = "c.length"
            sym2[g.target.id] = "i"
            steps.append(("semicolon", "if nComma ≠ 0 then c ++ (List.range (%s)).map (fun i => (%s, Conv.flt)) else c" % (
                _natsum(g.iter.args[0], sym2), _natsum(dc.key, sym2))))
            continue
        if isinstance(st, ast.Try):
            tr = st
            continue
        raise TranslationError("load: unsupported statement " + _T(st)[:100])
    _need(cname and tr is not None and [k for k, _ in steps] == ["withTime", "semicolon"], "load: converter table steps " + str(steps)[:100])
    _need(len(tr.body) == 1 and isinstance(tr.body[0], ast.If) and _T(tr.body[0].test) == "len(%s)" % cname, "load: `if len(c)`")
    br = tr.body[0]
    _need(len(br.body) == 1 and isinstance(br.body[0], ast.Try) and len(br.body[0].body) == 2, "load: converter branch")
    g1 = br.body[0].body[0]
    want = [("delimiter", "delimiter"), ("deletechars", "''"), ("dtype", "None"), ("names", "True"), ("converters", cname),
            ("filling_values", "{k: np.nan for k, v in %s.items() if v is _string_to_float} or None" % cname)]
    _need(isinstance(g1, ast.Assign) and isinstance(g1.value, ast.Call) and _T(g1.value.func) == "np.genfromtxt"
          and [_T(x) for x in g1.value.args] == ["fname"]
          and sorted((k.arg, _T(k.value)) for k in g1.value.keywords) == sorted(want),
          "load: genfromtxt call with converters: " + _T(g1)[:300])
    d = _T(g1.targets[0])
    _need(_T(br.body[0].body[1]) == "return _boolean_to_nan(%s, fname)" % d, "load: result does not go through _boolean_to_nan")
    _need(len(br.orelse) == 2 and _T(br.orelse[0]) == "%s = np.genfromtxt(fname, delimiter=delimiter, deletechars='', dtype=None, "
          "names=True)" % d and _T(br.orelse[1]) == "return _boolean_to_nan(%s, fname)" % d, "load: plain branch")
    out["convTable"] = ("let c : List (Nat × Conv) := []\n  let c := if withTime then %s else c\n"
                        "  let c := if semicolon then (%s) else c\n  c" % (steps[0][1], steps[1][1]))
    out["fillKeys"] = "(c.filter (fun kv => kv.2 == Conv.flt)).map (·.1)"
    return out


CSV_TMPL = """import RtcVerif.Model.C11Csv
/-!
GENERATED on every run of the C11 check by harness/translate_c11.py (gen_csv_code) from
src/rtctools/data/csv.py of the tree under check.  Do not edit.
-/
set_option linter.unusedVariables false
namespace RtcVerif.Gen
open RtcVerif RtcVerif.C11

def fmtGen (withTime : Bool) (ncols : Nat) : List Fmt := %(fmt)s
def convTableGen (withTime semicolon : Bool) (nSemi nComma : Nat) : List (Nat × Conv) :=
  %(convTable)s
def fillKeysGen (c : List (Nat × Conv)) : List Nat := %(fillKeys)s
def strToFloatGen (c : Cell) : Option XVal :=
  %(strToFloat)s

theorem fmtGen_eq_model (withTime : Bool) (ncols : Nat) : fmtGen withTime ncols = C11.fmtList withTime ncols := by
  unfold fmtGen C11.fmtList
  cases withTime <;> first | rfl | simp

theorem convTableGen_eq_model (withTime semicolon : Bool) (nSemi nComma : Nat) :
    convTableGen withTime semicolon nSemi nComma = C11.convTable withTime semicolon nSemi nComma := by
  unfold convTableGen C11.convTable
  cases withTime <;> cases semicolon <;> by_cases h : nComma = 0 <;> simp [h, Nat.add_comm]

theorem fillKeysGen_eq_model (c : List (Nat × Conv)) : fillKeysGen c = C11.fillKeys c := rfl

theorem strToFloatGen_eq_model (c : Cell) : strToFloatGen c = C11.strToFloat c := by
  cases c <;> rfl

end RtcVerif.Gen
"""


def gen_csv_code(c):
    """(re)generate lean/RtcVerif/Gen/CsvCode.lean; returns the extra obligation spec for c.prove"""
    gdir = os.path.join(LEAN_DIR, "RtcVerif", "Gen")
    os.makedirs(gdir, exist_ok=True)
    path = os.path.join(gdir, "CsvCode.lean")
    try:
        r = translate_csv()
    except TranslationError as e:
        c.broken.append(("translator: csv.save / csv.load", str(e)))
        return []
    except Exception as e:
        c.broken.append(("translator: csv.save / csv.load", "%s: %s" % (type(e).__name__, e)))
        return []
    text = CSV_TMPL % r
    old = open(path).read() if os.path.exists(path) else None
    if old != text:
        tmp = path + ".tmp%d" % os.getpid()
        with open(tmp, "w") as f:
            f.write(text)
        os.replace(tmp, path)
    return [("RtcVerif.Gen.CsvCode", "RtcVerif.Gen",
             ["fmtGen_eq_model", "convTableGen_eq_model", "fillKeysGen_eq_model", "strToFloatGen_eq_model"])]


# =============================================================================================
# EXTENSION: pi.ParameterConfig.get / .set  ->  lean/RtcVerif/Gen/PiParam.lean
#
# translated                                   generated                      proved equal to
# ---------------------------------------------------------------------------------------------
# get: group loop (id selection, location /    passesGetGen, pgetGen          C11.PGroup.passes, C11.pget
#   model filters, KeyError, parse)
# set: group loop, the typed store per tag     passesSetGen, coerceGen,       C11.PGroup.passes, C11.coerce, C11.pset
#                                              psetGen                          (C11_param_roundtrip)
#
# Python construct                                            ->  model term               (TRUSTED mapping)
# ---------------------------------------------------------------------------------------------
# self.__xml_root.findall("pi:group[@id='{}']".format(group_id), ns)     the groups with g.id == gid, in file order
# el = group.find('pi:locationId' | 'pi:model', ns); el is not None; el.text     g.loc | g.model : Option Nat; isSome; its value
# X is not None and el is not None: if X != el.text: continue         skip := match X, field with | some l, some x => l != x | _, _ => false
# el = group.find("pi:parameter[@id='{}']".format(parameter_id), ns); if el is None: raise KeyError
#                                                                     findPar p g.pars (none = KeyError)
# return self.__parse_parameter(el)                                   the typed value of the parameter (PVal)
# for child in el: if child.tag.endswith('<t>Value'): …               match on the constructor of the stored PVal (first child decides)
# new_value is True / is False: child.text = 'true' / 'false'; return     .bool true / .bool false ; otherwise raise -> none
# child.text = str(int(new_value))                                    .int (C11.pyInt a)
# child.text = str(new_value)   (dblValue)                            C11.strAsDbl a   (what float(text) reads back; str(True) -> none)
# raise KeyError(…) after the loop                                    none
# =============================================================================================


def _group_loop(fn, what):
    body = [s for s in fn.body if not _is_doc(s)]
    _need(len(body) == 3 and _T(body[0]) == "groups = self.__xml_root.findall(\"pi:group[@id='{}']\".format(group_id), ns)"
          and isinstance(body[1], ast.For) and _T(body[1].iter) == "groups" and _T(body[1].target) == "group"
          and isinstance(body[2], ast.Raise) and _T(body[2]).startswith("raise KeyError"), what + ": not (groups; for group; raise KeyError)")
    cur = None
    skips = {}
    found = False
    tail = []
    for st in body[1].body:
        txt = _T(st)
        if txt == "el = group.find('pi:locationId', ns)":
            cur = "loc"
        elif txt == "el = group.find('pi:model', ns)":
            cur = "model"
        elif txt == "el = group.find(\"pi:parameter[@id='{}']\".format(parameter_id), ns)":
            cur = "par"
        elif isinstance(st, ast.If) and isinstance(st.test, ast.BoolOp) and isinstance(st.test.op, ast.And):
            arg = {"loc": "location_id", "model": "model"}.get(cur)
            _need(arg and sorted(_T(v) for v in st.test.values) == sorted(["%s is not None" % arg, "el is not None"])
                  and not st.orelse and len(st.body) == 1 and isinstance(st.body[0], ast.If) and not st.body[0].orelse
                  and [_T(x) for x in st.body[0].body] == ["continue"], what + ": filter block for " + str(cur))
            _need(cur not in skips, what + ": two filters for " + cur)
            skips[cur] = "match %s, g.%s with\n    | some l, some x => %s\n    | _, _ => false" % (
                cur, cur, _cmp(st.body[0].test, {arg: "l", "el.text": "x"}, boolean=True))
        elif txt == "if el is None: raise KeyError":
            _need(cur == "par", what + ": KeyError test on " + str(cur))
            found = True
        else:
            _need(found and set(skips) == {"loc", "model"}, what + ": unsupported statement before the parameter is found: " + txt[:100])
            tail.append(st)
    _need(found and set(skips) == {"loc", "model"}, what + ": filters / parameter lookup missing")
    passes = "(g.id == gid) &&\n  !(%s) &&\n  !(%s)" % (skips["loc"], skips["model"])
    return passes, tail


def translate_param():
    tree = _tree()
    out = {}
    g = _find_method(tree, "ParameterConfig", "get")
    _need([a.arg for a in g.args.args] == ["self", "group_id", "parameter_id", "location_id", "model"], "ParameterConfig.get signature")
    out["passesGet"], tail = _group_loop(g, "ParameterConfig.get")
    _need([_T(x) for x in tail] == ["return self.__parse_parameter(el)"], "ParameterConfig.get: result is not the parsed parameter")
    s = _find_method(tree, "ParameterConfig", "set")
    _need([a.arg for a in s.args.args] == ["self", "group_id", "parameter_id", "new_value", "location_id", "model"],
          "ParameterConfig.set signature")
    out["passesSet"], tail = _group_loop(s, "ParameterConfig.set")
    _need(len(tail) == 1 and isinstance(tail[0], ast.For) and _T(tail[0].iter) == "el" and _T(tail[0].target) == "child"
          and len(tail[0].body) == 1 and isinstance(tail[0].body[0], ast.If), "ParameterConfig.set: child loop")
    arms = {}
    node = tail[0].body[0]
    while True:
        t = _T(node.test)
        _need(t.startswith("child.tag.endswith('") and t.endswith("Value')"), "ParameterConfig.set: tag test " + t)
        tag = t[len("child.tag.endswith('"):-len("Value')")]
        _need(tag in ("bool", "int", "dbl") and tag not in arms, "ParameterConfig.set: tag " + tag)
        b = [_T(x) for x in node.body]
        if b == ["if new_value is True: child.text = 'true' return elif new_value is False: child.text = 'false' return "
                 "else: raise Exception('Unsupported value for tag {}'.format(child.tag))"]:
            _need(tag == "bool", "ParameterConfig.set: boolean store under tag " + tag)
            arms[tag] = "match a with\n    | .bool true => some (.bool true)\n    | .bool false => some (.bool false)\n    | _ => none"
        elif b == ["child.text = str(int(new_value))", "return"]:
            arms[tag] = "some (.%s (C11.pyInt a))" % tag
        elif b == ["child.text = str(new_value)", "return"]:
            arms[tag] = {"dbl": "C11.strAsDbl a"}.get(tag) or _need(False, "ParameterConfig.set: str(new_value) under tag " + tag)
        else:
            raise TranslationError("ParameterConfig.set: unsupported store for %sValue: %s" % (tag, " ; ".join(b)[:160]))
        if len(node.orelse) == 1 and isinstance(node.orelse[0], ast.If):
            node = node.orelse[0]
            continue
        _need(len(node.orelse) == 1 and isinstance(node.orelse[0], ast.Raise), "ParameterConfig.set: other tags do not raise")
        break
    _need(set(arms) == {"bool", "int", "dbl"}, "ParameterConfig.set: tags " + str(sorted(arms)))
    out["coerce"] = "match old with\n  | .bool _ =>\n    %s\n  | .int _ => %s\n  | .dbl _ => %s\n  | .str _ => none" % (
        arms["bool"], arms["int"], arms["dbl"])
    return out


PARAM_TMPL = """import RtcVerif.Model.C11
import RtcVerif.Proofs.C11RecRef
/-!
GENERATED on every run of the C11 check by harness/translate_c11.py (gen_pi_param) from
pi.ParameterConfig.get / .set in src/rtctools/data/pi.py of the tree under check.  Do not edit.
-/
set_option linter.unusedVariables false
set_option linter.unusedSimpArgs false
namespace RtcVerif.Gen
open RtcVerif RtcVerif.C11

def passesGetGen (g : PGroup) (gid : Nat) (loc model : Option Nat) : Bool :=
  %(passesGet)s
def passesSetGen (g : PGroup) (gid : Nat) (loc model : Option Nat) : Bool :=
  %(passesSet)s
def coerceGen (old : PVal) (a : PArg) : Option PVal :=
  %(coerce)s
def pgetGen (c : PConf) (gid p : Nat) (loc model : Option Nat) : Option PVal :=
  C11.pgetWith passesGetGen c gid p loc model
def psetGen (c : PConf) (gid p : Nat) (a : PArg) (loc model : Option Nat) : Option PConf :=
  C11.psetWith passesSetGen coerceGen c gid p a loc model

theorem passesGetGen_eq_model (g : PGroup) (gid : Nat) (loc model : Option Nat) :
    passesGetGen g gid loc model = g.passes gid loc model := by
  unfold passesGetGen C11.PGroup.passes
  cases loc <;> cases g.loc <;> cases model <;> cases g.model <;> simp [bne_comm, Bool.and_comm] <;> grind

theorem passesSetGen_eq_model (g : PGroup) (gid : Nat) (loc model : Option Nat) :
    passesSetGen g gid loc model = g.passes gid loc model := by
  unfold passesSetGen C11.PGroup.passes
  cases loc <;> cases g.loc <;> cases model <;> cases g.model <;> simp [bne_comm, Bool.and_comm] <;> grind

theorem coerceGen_eq_model (old : PVal) (a : PArg) : coerceGen old a = C11.coerce old a := by
  cases old <;> cases a <;> first | rfl | (rename_i b; cases b <;> rfl) | (rename_i _ b; cases b <;> rfl)

theorem pgetGen_eq_model (c : PConf) (gid p : Nat) (loc model : Option Nat) :
    pgetGen c gid p loc model = C11.pget c gid p loc model :=
  C11.pgetWith_eq passesGetGen passesGetGen_eq_model c gid p loc model

theorem psetGen_eq_model (c : PConf) (gid p : Nat) (a : PArg) (loc model : Option Nat) :
    psetGen c gid p a loc model = C11.pset c gid p a loc model :=
  C11.psetWith_eq passesSetGen coerceGen passesSetGen_eq_model coerceGen_eq_model c gid p a loc model

end RtcVerif.Gen
"""


def gen_pi_param(c):
    """(re)generate lean/RtcVerif/Gen/PiParam.lean; returns the extra obligation spec for c.prove"""
    gdir = os.path.join(LEAN_DIR, "RtcVerif", "Gen")
    os.makedirs(gdir, exist_ok=True)
    path = os.path.join(gdir, "PiParam.lean")
    try:
        r = translate_param()
    except TranslationError as e:
        c.broken.append(("translator: ParameterConfig.get / set", str(e)))
        return []
    except Exception as e:
        c.broken.append(("translator: ParameterConfig.get / set", "%s: %s" % (type(e).__name__, e)))
        return []
    text = PARAM_TMPL % r
    old = open(path).read() if os.path.exists(path) else None
    if old != text:
        tmp = path + ".tmp%d" % os.getpid()
        with open(tmp, "w") as f:
            f.write(text)
        os.replace(tmp, path)
    return [("RtcVerif.Gen.PiParam", "RtcVerif.Gen",
             ["passesGetGen_eq_model", "passesSetGen_eq_model", "coerceGen_eq_model", "pgetGen_eq_model", "psetGen_eq_model"])]
