"""
Source-to-Lean translation for C12 (second tie between model and code, besides the correspondence).

On every run of the C12 check the time-axis kernels below are parsed with `ast` from
`$RTC_REPO/src/rtctools/...`, executed symbolically against the CLOSED table in this header and
written to `lean/RtcVerif/Gen/IoAxis.lean` as `…Gen` definitions with `…Gen_eq_model` theorems
(equality with the model functions the C12 theorems are about).  A construct outside the table is
rejected (`c.broken`), a behaviour change inside the table breaks a theorem; the failing-input
search of the check runs as usual.  A second generated module, `Gen/IoSlices.lean` (`gen_io_slices`, table
further down in this file), covers what the accessors hand out: optimisation `IOMixin.bounds / history /
seed / constant_inputs / parameters` (frame, loop roles, per-variable body incl. the store effect of the
in-place NaN replacement), `DataStore.set_timeseries / get_timeseries_sec`, and the feed / record dataflow
of simulation `IOMixin.initialize / update / __set_input_variables`.

translated                                             generated            proved equal to
----------------------------------------------------------------------------------------------------
DataStore.datetime_to_sec      (data/storage.py)       timesMapGen          the map of C12.timesSec
DataStore.__update_ensemble_size                       growGen              C12.grow (used by C12.ioSet)
IOMixin.times                  (optimization/io_mixin) horizonGen           C12.horizon
IOMixin.history  (end index, the two slices)           historyGen           C12.history
IOMixin.set_timeseries  (whole method incl. the inner  setTsGen             C12.setTs  (via C12.setTsRef)
                         stretch_values)
CSVMixin.write   (row labels)  (optimization/csv_mixin) csvStampsGen        C12.exportStamps
PIMixin.write    (event stamps, time-step detection)   piStampsGen, piDtGen C12.exportStamps, C12.exportDt

Python construct                                   ->  model term                       (TRUSTED mapping)
----------------------------------------------------------------------------------------------------
self.io.times_sec                                      ts : List Int  (seconds relative to the reference)
self.times()                                           horizon ts        [inside IOMixin / the mixins' write()]
self.initial_time                                      0                 (= times()[0]; C12_horizon_starts_at_t0)
0.0 / 0 / 1                                            0 / 0 / 1
bisect.bisect_left(a, x)                               bisectLeft a x
a[i:]  /  a[:i]                                        a.drop i  /  a.take i
a[0]   (a : stamps)                                    the head of a; IndexError (none) on the empty list
len(a)                                                 a.length
e + 1  (index)                                         e + 1
np.array([(t - t0).total_seconds() for t in d])        d.map (fun t => t - t0)     (whole-second datetimes)
[<ref> + timedelta(seconds=s) for s in <times>]        <times>.map (fun s => ref + s)
self.io.reference_datetime                             ref
self.__timeseries_import.times[self.__timeseries_import.forecast_index]
                                                       ref   (the forecast date IS the reference; pi_mixin.read)
len(set(t[1:] - t[:-1])) == 1                          (diffs t).eraseDups.length = 1
timedelta(seconds=t[1] - t[0])                         t.getD 1 0 - t.getD 0 0
while n > len(L): L.append(AliasDict(<rel>))           L ++ List.replicate (n - L.length) []   (fresh stores)
isinstance(timeseries, Timeseries)                     the constructor of `Arg` (.ts times values / .arr values)
timeseries.times / timeseries.values / timeseries      times / values / values
check_consistency                                      check = true
np.array_equal(a, b)                                   a = b
set(a).issuperset(b)                                   (b.all (fun t => a.contains t)) = true
not p ; a != b                                         ¬ p ; a ≠ b
np.full(a.shape, np.nan)                               nans a.length
v = np.full(..); v[np.searchsorted(a, t)] = w          scatter a t w (nans ..)     (NumPy fancy assignment)
def stretch_values(values, t_pos): n = np.full(self.io.times_sec.shape, np.nan);
    n[t_pos : t_pos + len(values)] = values; return n  stretch ts.length t_pos values   (slice assignment incl.
                                                       NumPy's shape check — inside C12.stretch)
raise ...                                              none
if output: self.__output_timeseries.add(variable)      no model state
self.io.set_timeseries(variable, self.io.datetimes, values, ensemble_member)     (last statement)
                                                       the method's result: some values
if / elif / else, local assignments, logging, docstrings   symbolic execution, path by path
anything else                                          TranslationError -> obligation broken
"""
import ast
import os

from .common import LEAN_DIR, REPO
from .translate import TranslationError, _find_method


def _u(node, n=90):
    try:
        return ast.unparse(node)[:n]
    except Exception:
        return ast.dump(node)[:n]


def _is_doc(st):
    return isinstance(st, ast.Expr) and isinstance(st.value, ast.Constant) and isinstance(st.value.value, str)


def _is_logging(st):
    if isinstance(st, ast.Expr) and isinstance(st.value, ast.Call) and isinstance(st.value.func, ast.Attribute) \
            and isinstance(st.value.func.value, ast.Name) and st.value.func.value.id == "logger":
        return True
    # `if logger.getEffectiveLevel() == logging.DEBUG: logger.debug(...)`
    if isinstance(st, ast.If) and "logger.getEffectiveLevel" in _u(st.test, 200) and not st.orelse \
            and all(_is_logging(s) for s in st.body):
        return True
    return False


def _attr_chain(node):
    """a.b.c -> ['a','b','c'] or None"""
    out = []
    while isinstance(node, ast.Attribute):
        out.append(node.attr)
        node = node.value
    if isinstance(node, ast.Name):
        out.append(node.id)
        return list(reversed(out))
    return None


def _parse(rel):
    path = os.path.join(REPO, "src", "rtctools", *rel.split("/"))
    return ast.parse(open(path).read())


def _call_name(node):
    if isinstance(node, ast.Call):
        ch = _attr_chain(node.func) if isinstance(node.func, ast.Attribute) else (
            [node.func.id] if isinstance(node.func, ast.Name) else None)
        return ".".join(ch) if ch else None
    return None


# ---------------------------------------------------------------------------------------------
# expressions (shared): returns (lean term, kind), kind in ints | vals | nat | int | prop | optvals | shape


class _Ex:
    def __init__(self, env, ts_ok=True):
        self.env = dict(env)
        self.head_of = None  # set when `<stamps>[0]` was evaluated: the list whose head `t0` stands for

    def is_times_sec(self, node):
        return _attr_chain(node) == ["self", "io", "times_sec"]

    def ex(self, node):
        if isinstance(node, ast.Name):
            if node.id in self.env:
                return self.env[node.id]
            raise TranslationError("unknown name " + node.id)
        if isinstance(node, ast.Constant) and not isinstance(node.value, bool) and node.value in (0, 0.0, 1):
            return (str(int(node.value)), "lit")
        if self.is_times_sec(node):
            return ("ts", "ints")
        ch = _attr_chain(node) if isinstance(node, ast.Attribute) else None
        if ch == ["self", "initial_time"]:
            return ("0", "int")
        if ch and len(ch) == 2 and ch[0] in self.env and self.env[ch[0]][1] == "tsobj" and ch[1] in ("times", "values"):
            return ("times", "ints") if ch[1] == "times" else ("values", "vals")
        if isinstance(node, ast.Attribute) and node.attr == "shape":
            t, k = self.ex(node.value)
            if k not in ("ints", "vals"):
                raise TranslationError(".shape of " + _u(node))
            return ("%s.length" % t, "shape")
        if isinstance(node, ast.UnaryOp) and isinstance(node.op, ast.Not):
            t, k = self.ex(node.operand)
            if k != "prop":
                raise TranslationError("`not` of a non-condition: " + _u(node))
            return ("¬ (%s)" % t, "prop")
        if isinstance(node, ast.Compare) and len(node.ops) == 1 and isinstance(node.ops[0], ast.NotEq):
            (a, ka), (b, kb) = self.ex(node.left), self.ex(node.comparators[0])
            if ka != "nat" or kb != "nat":
                raise TranslationError("!= between non-lengths: " + _u(node))
            return ("%s ≠ %s" % (a, b), "prop")
        if isinstance(node, ast.BinOp) and isinstance(node.op, ast.Add):
            (a, ka), (b, kb) = self.ex(node.left), self.ex(node.right)
            if ka == "lit" and kb == "nat":
                a, ka, b, kb = b, kb, a, ka
            if ka == "nat" and kb == "lit" and b == "1":
                return ("%s + 1" % a, "nat")
            raise TranslationError("unsupported sum " + _u(node))
        if isinstance(node, ast.Subscript):
            t, k = self.ex(node.value)
            sl = node.slice
            if isinstance(sl, ast.Slice) and sl.step is None and k in ("ints", "vals"):
                if sl.lower is not None and sl.upper is None:
                    i, ki = self.ex(sl.lower)
                    if ki == "nat":
                        return ("%s.drop (%s)" % (t, i), k)
                if sl.lower is None and sl.upper is not None:
                    i, ki = self.ex(sl.upper)
                    if ki == "nat":
                        return ("%s.take (%s)" % (t, i), k)
            if isinstance(sl, ast.Constant) and sl.value == 0 and not isinstance(sl.value, bool) and k == "ints":
                if t not in ("times",):
                    raise TranslationError("[0] of " + t)
                self.head_of = t
                return ("t0", "int")
            raise TranslationError("unsupported subscript " + _u(node))
        if isinstance(node, ast.Call) and not node.keywords:
            name = _call_name(node)
            a = node.args
            if name == "self.times" and not a:
                return ("(horizon ts)", "ints")
            if name == "len" and len(a) == 1:
                t, k = self.ex(a[0])
                if k not in ("ints", "vals"):
                    raise TranslationError("len of " + _u(a[0]))
                return ("%s.length" % t, "nat")
            if name == "bisect.bisect_left" and len(a) == 2:
                (l, kl), (x, kx) = self.ex(a[0]), self.ex(a[1])
                if kl != "ints" or kx not in ("int", "lit"):
                    raise TranslationError("bisect_left arguments: " + _u(node))
                return ("(bisectLeft %s %s)" % (l, x), "nat")
            if name == "np.array_equal" and len(a) == 2:
                (x, kx), (y, ky) = self.ex(a[0]), self.ex(a[1])
                if kx != "ints" or ky != "ints":
                    raise TranslationError("array_equal arguments: " + _u(node))
                return ("%s = %s" % (x, y), "prop")
            if isinstance(node.func, ast.Attribute) and node.func.attr == "issuperset" and len(a) == 1 \
                    and _call_name(node.func.value) == "set" and len(node.func.value.args) == 1:
                (x, kx), (y, ky) = self.ex(node.func.value.args[0]), self.ex(a[0])
                if kx != "ints" or ky != "ints":
                    raise TranslationError("issuperset arguments: " + _u(node))
                return ("(%s.all (fun t => %s.contains t)) = true" % (y, x), "prop")
            if name == "np.full" and len(a) == 2 and _attr_chain(a[1]) == ["np", "nan"]:
                s, ks = self.ex(a[0])
                if ks != "shape":
                    raise TranslationError("np.full shape: " + _u(node))
                return ("(nans %s)" % s, "vals")
            if name in self.env and self.env[name][1] == "stretchfn" and len(a) == 2:
                (v, kv), (p, kp) = self.ex(a[0]), self.ex(a[1])
                if kv != "vals" or kp != "nat":
                    raise TranslationError("stretch_values arguments: " + _u(node))
                return ("stretch ts.length %s %s" % (p, v), "optvals")
        raise TranslationError("unsupported expression " + _u(node))


# ---------------------------------------------------------------------------------------------
# IOMixin.set_timeseries: path-by-path execution producing a term of type Option (List XVal)


def _check_stretch_fn(fn):
    """the inner helper must be exactly: full-NaN array of the import length, slice assignment, return"""
    if [a.arg for a in fn.args.args] != ["values", "t_pos"] or fn.args.defaults:
        raise TranslationError("signature of stretch_values")
    body = [s for s in fn.body if not _is_doc(s)]
    if len(body) != 3:
        raise TranslationError("stretch_values is not (np.full; slice assignment; return)")
    s0, s1, s2 = body
    ok = isinstance(s0, ast.Assign) and len(s0.targets) == 1 and isinstance(s0.targets[0], ast.Name) \
        and _call_name(s0.value) == "np.full" and len(s0.value.args) == 2 \
        and _attr_chain(s0.value.args[0]) == ["self", "io", "times_sec", "shape"] \
        and _attr_chain(s0.value.args[1]) == ["np", "nan"]
    if not ok:
        raise TranslationError("stretch_values: first statement is not np.full(self.io.times_sec.shape, np.nan)")
    new = s0.targets[0].id
    ok = isinstance(s1, ast.Assign) and len(s1.targets) == 1 and isinstance(s1.targets[0], ast.Subscript) \
        and isinstance(s1.targets[0].value, ast.Name) and s1.targets[0].value.id == new \
        and isinstance(s1.value, ast.Name) and s1.value.id == "values" and isinstance(s1.targets[0].slice, ast.Slice)
    if ok:
        sl = s1.targets[0].slice
        up = sl.upper
        ok = sl.step is None and isinstance(sl.lower, ast.Name) and sl.lower.id == "t_pos" \
            and isinstance(up, ast.BinOp) and isinstance(up.op, ast.Add)
        if ok:
            parts = sorted([_u(up.left), _u(up.right)])
            ok = parts == ["len(values)", "t_pos"]
    if not ok:
        raise TranslationError("stretch_values: not `new[t_pos : t_pos + len(values)] = values`")
    if not (isinstance(s2, ast.Return) and isinstance(s2.value, ast.Name) and s2.value.id == new):
        raise TranslationError("stretch_values does not return the new array")


class _SetTs:
    def __init__(self):
        pass

    def run(self, stmts, env):
        """-> Lean term (Option (List XVal)) for the statement list executed to the end of the method"""
        if not stmts:
            raise TranslationError("set_timeseries: a path ends without storing the series")
        st, rest = stmts[0], stmts[1:]
        if _is_doc(st) or _is_logging(st):
            return self.run(rest, env)
        if isinstance(st, ast.Raise):
            return "none"
        if isinstance(st, ast.FunctionDef):
            if st.name != "stretch_values":
                raise TranslationError("unknown inner function " + st.name)
            _check_stretch_fn(st)
            env = dict(env)
            env["stretch_values"] = ("stretch_values", "stretchfn")
            return self.run(rest, env)
        if isinstance(st, ast.If):
            test = st.test
            # `if output: self.__output_timeseries.add(variable)` : no model state
            if isinstance(test, ast.Name) and test.id == "output" and not st.orelse and len(st.body) == 1 \
                    and "output_timeseries.add(variable)" in _u(st.body[0], 200):
                return self.run(rest, env)
            if isinstance(test, ast.Name) and test.id == "check_consistency":
                cond = "check = true"
            else:
                e = _Ex(env)
                cond, k = e.ex(test)
                if k != "prop" or e.head_of:
                    raise TranslationError("unsupported condition " + _u(test))
            a = self.run(list(st.body) + rest, env)
            b = self.run(list(st.orelse) + rest, env)
            return "(if %s then %s else %s)" % (cond, a, b)
        if isinstance(st, ast.Assign) and len(st.targets) == 1:
            tg = st.targets[0]
            if isinstance(tg, ast.Name):
                e = _Ex(env)
                term = e.ex(st.value)
                env2 = dict(env)
                env2[tg.id] = term
                cont = self.run(rest, env2)
                if e.head_of:
                    return "(match %s with | [] => none | t0 :: _ => %s)" % (e.head_of, cont)
                return cont
            # values[np.searchsorted(a, t)] = w   on a fresh all-NaN array
            if isinstance(tg, ast.Subscript) and isinstance(tg.value, ast.Name) and tg.value.id in env \
                    and _call_name(tg.slice) == "np.searchsorted" and len(tg.slice.args) == 2:
                base, kb = env[tg.value.id]
                e = _Ex(env)
                (a, ka), (t, kt), (w, kw) = e.ex(tg.slice.args[0]), e.ex(tg.slice.args[1]), e.ex(st.value)
                if kb != "vals" or not base.startswith("(nans ") or ka != "ints" or kt != "ints" or kw != "vals":
                    raise TranslationError("unsupported fancy assignment " + _u(st))
                env2 = dict(env)
                env2[tg.value.id] = ("(scatter %s %s %s %s)" % (a, t, w, base), "vals")
                return self.run(rest, env2)
        if isinstance(st, ast.Expr) and _call_name(st.value) == "self.io.set_timeseries":
            if rest:
                raise TranslationError("statements after the final io.set_timeseries")
            a = st.value.args
            if len(a) != 4 or st.value.keywords or _u(a[0]) != "variable" or _u(a[1]) != "self.io.datetimes" \
                    or _u(a[3]) != "ensemble_member" or not isinstance(a[2], ast.Name) or a[2].id not in env:
                raise TranslationError("unexpected arguments of the final io.set_timeseries: " + _u(st))
            term, k = env[a[2].id]
            if k == "optvals":
                return term
            if k == "vals":
                return "some %s" % term
            raise TranslationError("stored value has kind " + k)
        raise TranslationError("unsupported statement in set_timeseries: " + _u(st))


def translate_set_timeseries():
    fn = _find_method(_parse("optimization/io_mixin.py"), "IOMixin", "set_timeseries")
    names = [a.arg for a in fn.args.args]
    if names != ["self", "variable", "timeseries", "ensemble_member", "output", "check_consistency"]:
        raise TranslationError("unexpected signature of IOMixin.set_timeseries")
    body = [s for s in fn.body if not _is_doc(s)]
    # locate the `isinstance(timeseries, Timeseries)` split; statements before it are shared
    idx = None
    for i, s in enumerate(body):
        if isinstance(s, ast.If) and _u(s.test) == "isinstance(timeseries, Timeseries)":
            idx = i
            break
    if idx is None:
        raise TranslationError("no `if isinstance(timeseries, Timeseries)` in set_timeseries")
    pre, split, post = body[:idx], body[idx], body[idx + 1:]
    tr = _SetTs()
    ts_branch = tr.run(pre + list(split.body) + post, {"timeseries": ("timeseries", "tsobj")})
    arr_branch = tr.run(pre + list(split.orelse) + post, {"timeseries": ("values", "vals")})
    return ts_branch, arr_branch


# ---------------------------------------------------------------------------------------------
# the small ones


def translate_times():
    fn = _find_method(_parse("optimization/io_mixin.py"), "IOMixin", "times")
    env = {}
    body = [s for s in fn.body if not _is_doc(s)]
    for s in body[:-1]:
        if not (isinstance(s, ast.Assign) and len(s.targets) == 1 and isinstance(s.targets[0], ast.Name)):
            raise TranslationError("IOMixin.times: unsupported statement " + _u(s))
        env[s.targets[0].id] = _Ex(env).ex(s.value)
    if not body or not isinstance(body[-1], ast.Return):
        raise TranslationError("IOMixin.times does not end with return")
    t, k = _Ex(env).ex(body[-1].value)
    if k != "ints":
        raise TranslationError("IOMixin.times returns " + k)
    return t


def translate_history():
    fn = _find_method(_parse("optimization/io_mixin.py"), "IOMixin", "history")
    env, end = {}, None
    for s in fn.body:
        if isinstance(s, ast.Assign) and len(s.targets) == 1 and isinstance(s.targets[0], ast.Name) \
                and s.targets[0].id == "end_index":
            env["end_index"] = _Ex({}).ex(s.value)
            end = env["end_index"]
    if end is None or end[1] != "nat":
        raise TranslationError("IOMixin.history: no `end_index = <index>`")
    found = []
    for node in ast.walk(fn):
        if isinstance(node, ast.Assign) and len(node.targets) == 1 and isinstance(node.targets[0], ast.Subscript) \
                and _u(node.targets[0].value) == "history":
            found.append(node)
    if len(found) != 1 or _call_name(found[0].value) != "Timeseries" or len(found[0].value.args) != 2:
        raise TranslationError("IOMixin.history: not exactly one `history[variable] = Timeseries(a, b)`")
    # `times, values = self.io.get_timeseries_sec(variable, ensemble_member)` precedes it
    src = [n for n in ast.walk(fn) if isinstance(n, ast.Assign) and _call_name(n.value) == "self.io.get_timeseries_sec"
           and isinstance(n.targets[0], ast.Tuple) and [_u(e) for e in n.targets[0].elts] == ["times", "values"]
           and [_u(a) for a in n.value.args] == ["variable", "ensemble_member"]]
    if len(src) != 1:
        raise TranslationError("IOMixin.history: series not read with get_timeseries_sec(variable, ensemble_member)")
    env2 = dict(env)
    env2["times"] = ("ts", "ints")
    env2["values"] = ("vals", "vals")
    a, ka = _Ex(env2).ex(found[0].value.args[0])
    b, kb = _Ex(env2).ex(found[0].value.args[1])
    if ka != "ints" or kb != "vals":
        raise TranslationError("IOMixin.history: Timeseries arguments")
    return "(%s, %s)" % (a, b)


def translate_datetime_to_sec():
    fn = _find_method(_parse("data/storage.py"), "DataStore", "datetime_to_sec")
    if [a.arg for a in fn.args.args] != ["d", "t0"]:
        raise TranslationError("signature of datetime_to_sec")
    body = [s for s in fn.body if not _is_doc(s)]
    if len(body) != 1 or not isinstance(body[0], ast.If) or _u(body[0].test) != "hasattr(d, '__iter__')":
        raise TranslationError("datetime_to_sec is not `if hasattr(d, '__iter__'): … else: …`")
    br = body[0].body
    if len(br) != 1 or not isinstance(br[0], ast.Return) or _call_name(br[0].value) != "np.array" \
            or len(br[0].value.args) != 1 or not isinstance(br[0].value.args[0], ast.ListComp):
        raise TranslationError("datetime_to_sec: iterable branch is not `return np.array([… for t in d])`")
    lc = br[0].value.args[0]
    if len(lc.generators) != 1 or lc.generators[0].ifs or _u(lc.generators[0].iter) != "d" \
            or not isinstance(lc.generators[0].target, ast.Name):
        raise TranslationError("datetime_to_sec: unsupported comprehension")
    v = lc.generators[0].target.id
    if _u(lc.elt) != "(%s - t0).total_seconds()" % v:
        raise TranslationError("datetime_to_sec: element is not (t - t0).total_seconds(): " + _u(lc.elt))
    return "d.map (fun %s => %s - t0)" % (v, v)


def translate_grow():
    fn = _find_method(_parse("data/storage.py"), "DataStore", "__update_ensemble_size")
    loops = [s for s in fn.body if isinstance(s, (ast.While, ast.For)) or
             (isinstance(s, ast.Expr) and "timeseries_values" in _u(s, 300)) or
             (isinstance(s, ast.Assign) and "timeseries_values" in _u(s, 300))]
    mine = [s for s in loops if "timeseries_values" in _u(s, 400)]
    if len(mine) != 1 or not isinstance(mine[0], ast.While):
        raise TranslationError("__update_ensemble_size: the per-member stores are not grown by one `while` loop")
    w = mine[0]
    if _u(w.test) != "ensemble_size > len(self.__timeseries_values)" or w.orelse or len(w.body) != 1 \
            or _u(w.body[0]) != "self.__timeseries_values.append(AliasDict(self.__accessor.alias_relation))":
        raise TranslationError("__update_ensemble_size: loop is not `while n > len(L): L.append(AliasDict(rel))`: "
                               + _u(w, 160))
    return "st ++ List.replicate (n - st.length) []"


def _listcomp_stamps(node, times_name, ref_ok):
    """[<ref> + timedelta(seconds=s) for s in <times>] -> lean map over (horizon ts)"""
    if not isinstance(node, ast.ListComp) or len(node.generators) != 1 or node.generators[0].ifs \
            or not isinstance(node.generators[0].target, ast.Name) or _u(node.generators[0].iter) != times_name:
        raise TranslationError("stamp list is not a comprehension over `%s`: %s" % (times_name, _u(node)))
    s = node.generators[0].target.id
    e = node.elt
    if not (isinstance(e, ast.BinOp) and isinstance(e.op, ast.Add)):
        raise TranslationError("stamp is not a sum: " + _u(e))
    l, r = e.left, e.right
    if _u(l).startswith("timedelta("):
        l, r = r, l
        order = "s + ref"
    else:
        order = "ref + s"
    if " ".join(_u(l, 300).split()) not in ref_ok:
        raise TranslationError("stamp base is not the reference datetime: " + _u(l, 200))
    if _u(r) != "timedelta(seconds=%s)" % s:
        raise TranslationError("stamp offset is not timedelta(seconds=%s): %s" % (s, _u(r)))
    return "(horizon ts).map (fun s => %s)" % order


def _times_is_horizon(fn, name="times"):
    ok = [s for s in ast.walk(fn) if isinstance(s, ast.Assign) and len(s.targets) == 1 and _u(s.targets[0]) == name]
    if len(ok) != 1 or _u(ok[0].value) != "self.times()":
        raise TranslationError("`%s` is not assigned exactly once as self.times()" % name)


def translate_csv_stamps():
    fn = _find_method(_parse("optimization/csv_mixin.py"), "CSVMixin", "write")
    _times_is_horizon(fn)
    tgt = [s for s in ast.walk(fn) if isinstance(s, ast.Assign) and len(s.targets) == 1 and _u(s.targets[0]) == "data['time']"]
    if len(tgt) != 1:
        raise TranslationError("CSVMixin.write: not exactly one assignment of data['time']")
    return _listcomp_stamps(tgt[0].value, "times", ["self.io.reference_datetime"])


def translate_pi_write():
    fn = _find_method(_parse("optimization/pi_mixin.py"), "PIMixin", "write")
    _times_is_horizon(fn)
    tgt = [s for s in ast.walk(fn) if isinstance(s, ast.Assign) and len(s.targets) == 1
           and _u(s.targets[0]) == "self.__timeseries_export.times"]
    if len(tgt) != 1:
        raise TranslationError("PIMixin.write: not exactly one assignment of the export times")
    stamps = _listcomp_stamps(
        tgt[0].value, "times",
        ["self.__timeseries_import.times[self.__timeseries_import.forecast_index]", "self.io.reference_datetime"])
    # time-step detection
    ifs = [s for s in fn.body if isinstance(s, ast.If) and any(
        isinstance(x, ast.Assign) and _u(x.targets[0]) == "dt" for x in s.body)]
    if len(ifs) != 1:
        raise TranslationError("PIMixin.write: not exactly one `if …: dt = … else: dt = None`")
    s = ifs[0]
    if _u(s.test) != "len(set(times[1:] - times[:-1])) == 1":
        raise TranslationError("PIMixin.write: equidistance test is not len(set(times[1:] - times[:-1])) == 1: "
                               + _u(s.test, 120))
    if len(s.body) != 1 or _u(s.body[0]) != "dt = timedelta(seconds=times[1] - times[0])" \
            or len(s.orelse) != 1 or _u(s.orelse[0]) != "dt = None":
        raise TranslationError("PIMixin.write: dt branches: " + _u(s, 200))
    dt = "if (diffs hor).eraseDups.length = 1 then some (hor.getD 1 0 - hor.getD 0 0) else none"
    # and it is this dt that is handed to the export object
    use = [x for x in ast.walk(fn) if isinstance(x, ast.Assign) and _u(x.targets[0]) == "self.__timeseries_export.dt"]
    if len(use) != 1 or _u(use[0].value) != "dt":
        raise TranslationError("PIMixin.write: export dt is not the detected dt")
    return stamps, dt


# ---------------------------------------------------------------------------------------------

HEAD = """import RtcVerif.Model.C12
import RtcVerif.Proofs.C12Ref
/-!
GENERATED on every run of the C12 check by harness/translate_c12.py from the tree under check
(storage.py, optimization/io_mixin.py, csv_mixin.py, pi_mixin.py).  Do not edit.  The `…Gen`
definitions are the source read through the construct table in the translator's header; the
theorems tie them to the model functions the C12 theorems are about.
-/
set_option linter.unusedVariables false
set_option linter.unreachableTactic false
set_option linter.unusedTactic false
namespace RtcVerif.Gen
open RtcVerif RtcVerif.C12
"""

PIECES = {
    "timesMap": """
def timesMapGen (d : List Int) (t0 : Int) : List Int := %(t)s

theorem timesMapGen_eq_model (d : List Int) (t0 : Int) (h : t0 ∈ d) :
    C12.timesSec d t0 = some (timesMapGen d t0) := by
  unfold C12.timesSec timesMapGen
  rw [if_pos h]
""",
    "grow": """
def growGen (st : Store) (n : Nat) : Store := %(t)s

theorem growGen_eq_model (st : Store) (n : Nat) : growGen st n = C12.grow st n := rfl
""",
    "horizon": """
def horizonGen (ts : List Int) : List Int := %(t)s

theorem horizonGen_eq_model (ts : List Int) : horizonGen ts = C12.horizon ts := rfl
""",
    "history": """
def historyGen (ts : List Int) (vals : List XVal) : List Int × List XVal := %(t)s

theorem historyGen_eq_model (ts : List Int) (vals : List XVal) : historyGen ts vals = C12.history ts vals := rfl
""",
    "setTs": """
def setTsGen (ts : List Int) (arg : Arg) (check : Bool) : Option (List XVal) :=
  match arg with
  | .ts times values => %(a)s
  | .arr values => %(b)s

theorem setTsGen_eq_model (ts : List Int) (arg : Arg) (check : Bool) :
    setTsGen ts arg check = C12.setTs ts arg check := by
  have h : setTsGen ts arg check = C12.setTsRef ts arg check := by
    first
      | rfl
      | (cases arg <;> rfl)
      | (cases arg <;> cases check <;> simp only [setTsGen, C12.setTsRef] <;> rfl)
  rw [h, C12.setTsRef_eq]
""",
    "csvStamps": """
def csvStampsGen (ref : Int) (ts : List Int) : List Int := %(t)s

theorem csvStampsGen_eq_model (ref : Int) (ts : List Int) : csvStampsGen ref ts = C12.exportStamps ref ts := by
  unfold csvStampsGen C12.exportStamps
  apply List.map_congr_left
  intro s _
  omega
""",
    "piWrite": """
def piStampsGen (ref : Int) (ts : List Int) : List Int := %(t)s

theorem piStampsGen_eq_model (ref : Int) (ts : List Int) : piStampsGen ref ts = C12.exportStamps ref ts := by
  unfold piStampsGen C12.exportStamps
  apply List.map_congr_left
  intro s _
  omega

def piDtGen (hor : List Int) : Option Int := %(dt)s

theorem piDtGen_eq_model (hor : List Int) : piDtGen hor = C12.exportDt hor := rfl
""",
}


def gen_io_axis(c):
    """(re)generate lean/RtcVerif/Gen/IoAxis.lean; returns the extra obligation spec for c.prove"""
    gdir = os.path.join(LEAN_DIR, "RtcVerif", "Gen")
    os.makedirs(gdir, exist_ok=True)
    path = os.path.join(gdir, "IoAxis.lean")
    text, thms = HEAD, []

    def piece(name, what, fn, fmt, theorems):
        nonlocal text
        try:
            r = fn()
        except TranslationError as e:
            c.broken.append(("translator: " + what, str(e)))
            return
        except Exception as e:  # the source no longer parses / file missing
            c.broken.append(("translator: " + what, "%s: %s" % (type(e).__name__, e)))
            return
        text += PIECES[name] % fmt(r)
        thms.extend(theorems)

    piece("timesMap", "DataStore.datetime_to_sec", translate_datetime_to_sec, lambda r: {"t": r}, ["timesMapGen_eq_model"])
    piece("grow", "DataStore.__update_ensemble_size", translate_grow, lambda r: {"t": r}, ["growGen_eq_model"])
    piece("horizon", "IOMixin.times", translate_times, lambda r: {"t": r}, ["horizonGen_eq_model"])
    piece("history", "IOMixin.history", translate_history, lambda r: {"t": r}, ["historyGen_eq_model"])
    piece("setTs", "IOMixin.set_timeseries", translate_set_timeseries, lambda r: {"a": r[0], "b": r[1]},
          ["setTsGen_eq_model"])
    piece("csvStamps", "CSVMixin.write", translate_csv_stamps, lambda r: {"t": r}, ["csvStampsGen_eq_model"])
    piece("piWrite", "PIMixin.write", translate_pi_write, lambda r: {"t": r[0], "dt": r[1]},
          ["piStampsGen_eq_model", "piDtGen_eq_model"])
    text += "\nend RtcVerif.Gen\n"
    old = open(path).read() if os.path.exists(path) else None
    if old != text:
        tmp = path + ".tmp%d" % os.getpid()
        with open(tmp, "w") as f:
            f.write(text)
        os.replace(tmp, path)
    return [("RtcVerif.Gen.IoAxis", "RtcVerif.Gen", thms)] if thms else []


# =============================================================================================
# second generated module: Gen/IoSlices.lean  (gen_io_slices)
#
# translated                                             generated               proved equal to
# ----------------------------------------------------------------------------------------------------
# optimisation IOMixin.bounds   (frame, loop role, per-variable body;    boundsEntryGen          C12.boundsEntry
#     incl. the store effect of the in-place NaN replacement)            boundsStoreGen          C12.boundsStoreAfter
#                                                                        boundsRolesGen          C12.boundsRoles
# IOMixin.history  (frame, role list, per-variable body)                 historyEntryGen/RolesGen C12.historyEntry/Roles
# IOMixin.seed                                                           seedEntryGen/RolesGen   C12.seedEntry/Roles
# IOMixin.constant_inputs                                                constInputEntryGen/RolesGen  C12.constInputEntry/Roles
# IOMixin.parameters                                                     parametersGen           C12.parametersMerge
# DataStore.set_timeseries / get_timeseries_sec   (data/storage.py)      ioSetGen / ioGetGen     C12.ioSet / C12.ioGet
# simulation IOMixin.initialize / update  (feed / record dataflow)       simInitGen / simUpdateGen   C12.simInit / C12.simUpdate
# simulation IOMixin.__set_input_variables  (row read, finite test)      feedValueGen            C12.feedValue
#
# Python construct                                   ->  model term                       (TRUSTED mapping)
# ----------------------------------------------------------------------------------------------------
# X = super().<same method>(<same args>) … return X      parent : the parent's dictionary; X[v] its entry for v
# for variable in self.dae_variables["<role>"]           role list [<role>]; the body is read for one variable v
# L = self.dae_variables[a] + self.dae_variables[b] …    role list [a, b, …]
# variable.name()                                        v
# self.min_timeseries_id(v) / self.max_timeseries_id(v)  Key.min / Key.max   (the two methods must be
#                                                        `return "_".join((variable, "Min"/"Max"))`)
# self.io.get_timeseries_sec(<name>, <member>)           (ts, get <member> <key>) ; KeyError = none
#     member: literal 0 -> 0 ; the method's `ensemble_member` -> m ; omitted -> 0
# try: <a, b = get…> ; … except KeyError: pass [else: …] match get … with | none => <unchanged> | some vals => …
# None                                                   none
# a[i:] / a[:i]                                          a.drop i / a.take i     (a NumPy VIEW of a)
# a.copy()                                               a                       (no longer a view)
# Timeseries(t, v) ; Timeseries(*get…)                   (t, v)   (the constructor copies v: timeseries.py;
#                                                        lengths agree, so no single-value broadcast)
# s.times / s.values                                     s.1 / s.2
# np.finfo(a.dtype).min / .max                           -big / big
# a[np.isnan(a)] = c                                     a := a.map (replNan c) ; if a is still a view of a
#                                                        stored series the STORED series changes too
# if x is not None: <statements about x>                 match x with | none => none | some a => some …
# x is not None or y is not None                         (x.isSome || y.isSome) = true
# X[v] = e   (X the returned dictionary)                 Entry.io e   (otherwise Entry.inherited parent[v])
# inds = s.times >= self.initial_time                    s.1.map (fun t => decide (t ≥ 0))
# np.any(np.isnan(s.values[inds]))                       ((maskSel inds s.2).any (fun v => decide (v = XVal.nan))) = true
# if <cond>: raise …                                     if <cond> then none else …
# for k, v in self.io.parameters(ensemble_member).items(): P[k] = v      io.foldl (fun acc kv => aset kv.1 kv.2 acc) parent
# --- DataStore (st = the per-member stores, n = number of import stamps)
# self.__ensemble_size                                   st.length   (invariant asserted in __update_ensemble_size)
# len(self.__timeseries_datetimes)                       n
# datetimes normalisation / type test / "same datetimes" test / check_duplicates warning      no model effect
#     (IOMixin.set_timeseries passes self.io.datetimes; the readers pass one axis)
# self.__update_ensemble_size(k)                         grow' st k      (translated in gen_io_axis: growGen)
# self.__timeseries_values[m][v] = values                some (st.modify m (sset v x))
# self.__timeseries_values[m][v]                         (st[m]?).bind (sget v)
# --- simulation IOMixin (state s : SimSt)
# self.io.times_sec (also through a local alias)         ts
# self.__dt = T[1] - T[0]                                dtImport := b - a   on ts = a :: b :: _ (IndexError otherwise)
# self.setup_experiment(0, T[-1], self.__dt)             time := 0
# self.get_current_time()                                the current model time
# self._simulation_times.append(e)                       stamps := stamps ++ [e]
# self.__set_input_variables(i[, cache flag])            fed := fed ++ [(i, current model time)]
# super().initialize(config_file)                        model initialised (time unchanged; must come after the feed)
# super().update(dt)                                     time := time + dt     (C09: SimulationProblem.update)
# for … in self._io_output…: ….append(self.get_var(…))   recorded := recorded ++ [current model time]
#   / self._io_output[variable] = [self.get_var(variable)]
# if dt < 0: dt = self.__dt                              dt := if dtArg < 0 then s.dtImport else dtArg
# parameter loop, input-name set, output dictionaries, logger calls, cache flag      no model effect (closed list)
# value = values[t_idx]                                  vals[idx]?   (IndexError = none)
# isfinite(value)                                        v.isFinite
# self.set_var(variable, value)  / else: logger.debug    some v / none
# anything else                                          TranslationError -> obligation broken


class _V:
    __slots__ = ("t", "k", "view")

    def __init__(self, t, k, view=None):
        self.t, self.k, self.view = t, k, view


ROLE = {"states": "Role.states", "algebraics": "Role.algebraics", "control_inputs": "Role.controlInputs",
        "constant_inputs": "Role.constantInputs", "free_variables": "Role.freeVariables"}


def _role_of(node):
    """self.dae_variables['x'] -> Role term"""
    if isinstance(node, ast.Subscript) and _attr_chain(node.value) == ["self", "dae_variables"] \
            and isinstance(node.slice, ast.Constant) and node.slice.value in ROLE:
        return ROLE[node.slice.value]
    return None


def _roles_of(node):
    if isinstance(node, ast.BinOp) and isinstance(node.op, ast.Add):
        return _roles_of(node.left) + _roles_of(node.right)
    r = _role_of(node)
    if r is None:
        raise TranslationError("not a sum of self.dae_variables[...] lists: " + _u(node))
    return [r]


def _key_method(tree, name, suffix):
    fn = _find_method(tree, "IOMixin", name)
    body = [s for s in fn.body if not _is_doc(s)]
    arg = fn.args.args[1].arg if len(fn.args.args) == 2 else None
    if arg is None or len(body) != 1 or not isinstance(body[0], ast.Return) \
            or _u(body[0].value) != "'_'.join((%s, '%s'))" % (arg, suffix):
        raise TranslationError("%s is not `return '_'.join((variable, '%s'))`" % (name, suffix))


class _Acc:
    """symbolic execution of one accessor of the optimisation IOMixin for ONE variable of its loop"""

    def __init__(self, tree, method, has_member):
        self.tree, self.method, self.has_member = tree, method, has_member
        self.fn = _find_method(tree, "IOMixin", method)
        want = ["self", "ensemble_member"] if has_member else ["self"]
        if [a.arg for a in self.fn.args.args] != want:
            raise TranslationError("signature of IOMixin.%s" % method)
        self.dict = None
        self.roles = None
        self.store_after = {}   # Key term -> Lean term of the stored array after the call
        self.raises = False
        self.n = 0

    # ---- expressions
    def member(self, node):
        if isinstance(node, ast.Constant) and node.value == 0 and not isinstance(node.value, bool):
            return "0"
        if self.has_member and isinstance(node, ast.Name) and node.id == "ensemble_member":
            return "m"
        raise TranslationError("member argument " + _u(node))

    def getter(self, call, env):
        """self.io.get_timeseries_sec(name, member) -> Lean term of type Option (List XVal), key term"""
        if _call_name(call) != "self.io.get_timeseries_sec" or call.keywords or len(call.args) != 2:
            raise TranslationError("not self.io.get_timeseries_sec(name, member): " + _u(call))
        nm = self.ex(call.args[0], env)
        if nm.k == "name":
            key = "Key.var"
        elif nm.k == "key":
            key = nm.t
        else:
            raise TranslationError("series name " + _u(call.args[0]))
        return "(get %s %s)" % (self.member(call.args[1]), key), key

    def ex(self, node, env):
        if isinstance(node, ast.Constant) and node.value is None:
            return _V("none", "none")
        if isinstance(node, ast.Constant) and not isinstance(node.value, bool) and node.value in (0, 0.0, 1):
            return _V(str(int(node.value)), "lit")
        if isinstance(node, ast.Name):
            if node.id in env:
                return env[node.id]
            raise TranslationError("unknown name " + node.id)
        ch = _attr_chain(node) if isinstance(node, ast.Attribute) else None
        if ch == ["self", "io", "times_sec"]:
            return _V("ts", "ints")
        if ch == ["self", "initial_time"]:
            return _V("0", "int")
        if ch and len(ch) == 2 and ch[0] in env and env[ch[0]].k == "ser" and ch[1] in ("times", "values"):
            s = env[ch[0]]
            return _V("%s.1" % s.t, "ints") if ch[1] == "times" else _V("%s.2" % s.t, "vals")
        if isinstance(node, ast.Attribute) and node.attr in ("min", "max") and _call_name(node.value) == "np.finfo" \
                and len(node.value.args) == 1 and isinstance(node.value.args[0], ast.Attribute) \
                and node.value.args[0].attr == "dtype" and self.ex(node.value.args[0].value, env).k == "vals":
            return _V("(-big)" if node.attr == "min" else "big", "rat")
        if isinstance(node, ast.BinOp) and isinstance(node.op, ast.Add):
            a, b = self.ex(node.left, env), self.ex(node.right, env)
            if a.k == "lit" and b.k == "nat":
                a, b = b, a
            if a.k == "nat" and b.k == "lit" and b.t == "1":
                return _V("%s + 1" % a.t, "nat")
            raise TranslationError("unsupported sum " + _u(node))
        if isinstance(node, ast.Compare) and len(node.ops) == 1 and isinstance(node.ops[0], ast.GtE):
            a, b = self.ex(node.left, env), self.ex(node.comparators[0], env)
            if a.k == "ints" and b.k in ("int", "lit"):
                return _V("(%s.map (fun t => decide (t ≥ %s)))" % (a.t, b.t), "mask")
            raise TranslationError("unsupported comparison " + _u(node))
        if isinstance(node, ast.Subscript):
            a = self.ex(node.value, env)
            sl = node.slice
            if isinstance(sl, ast.Slice) and sl.step is None and a.k in ("ints", "vals"):
                if sl.lower is not None and sl.upper is None:
                    i = self.ex(sl.lower, env)
                    if i.k == "nat":
                        view = ("drop", i.t, a.view[1], a.view[2]) if a.view and a.view[0] == "whole" else None
                        return _V("(%s.drop (%s))" % (a.t, i.t), a.k, view)
                if sl.lower is None and sl.upper is not None:
                    i = self.ex(sl.upper, env)
                    if i.k == "nat":
                        return _V("(%s.take (%s))" % (a.t, i.t), a.k, None if not a.view else ("other",))
            if a.k == "vals" and isinstance(sl, ast.Name) and sl.id in env and env[sl.id].k == "mask":
                return _V("(maskSel %s %s)" % (env[sl.id].t, a.t), "vals")
            raise TranslationError("unsupported subscript " + _u(node))
        if isinstance(node, ast.Call) and not node.keywords:
            name = _call_name(node)
            a = node.args
            if name == "bisect.bisect_left" and len(a) == 2:
                l, x = self.ex(a[0], env), self.ex(a[1], env)
                if l.k != "ints" or x.k not in ("int", "lit"):
                    raise TranslationError("bisect_left arguments: " + _u(node))
                return _V("(bisectLeft %s %s)" % (l.t, x.t), "nat")
            if isinstance(node.func, ast.Attribute) and node.func.attr == "copy" and not a:
                v = self.ex(node.func.value, env)
                if v.k != "vals":
                    raise TranslationError(".copy() of " + _u(node.func.value))
                return _V(v.t, "vals", None)
            if isinstance(node.func, ast.Attribute) and node.func.attr == "name" and not a:
                v = self.ex(node.func.value, env)
                if v.k == "var":
                    return _V("v", "name")
            if name in ("self.min_timeseries_id", "self.max_timeseries_id") and len(a) == 1 \
                    and self.ex(a[0], env).k == "name":
                which = "min" if "min" in name else "max"
                _key_method(self.tree, which + "_timeseries_id", "Min" if which == "min" else "Max")
                return _V("Key." + which, "key")
            if name == "Timeseries" and len(a) == 2:
                t, v = self.ex(a[0], env), self.ex(a[1], env)
                if t.k != "ints" or v.k != "vals":
                    raise TranslationError("Timeseries arguments " + _u(node))
                return _V("(%s, %s)" % (t.t, v.t), "ser")
            if name == "np.any" and len(a) == 1 and _call_name(a[0]) == "np.isnan" and len(a[0].args) == 1:
                v = self.ex(a[0].args[0], env)
                if v.k != "vals":
                    raise TranslationError("np.isnan argument " + _u(node))
                return _V("(%s.any (fun v => decide (v = XVal.nan))) = true" % v.t, "prop")
        raise TranslationError("unsupported expression in IOMixin.%s: %s" % (self.method, _u(node)))

    # ---- statements; env maps names to _V; "@entry" holds the dictionary entry written for v
    def block(self, stmts, env):
        env = dict(env)
        for i, st in enumerate(stmts):
            if _is_doc(st) or _is_logging(st) or isinstance(st, ast.Pass):
                continue
            if isinstance(st, ast.Assign) and len(st.targets) == 1:
                tg = st.targets[0]
                if isinstance(tg, ast.Name):
                    env[tg.id] = self.ex(st.value, env)
                    continue
                if isinstance(tg, ast.Tuple) and isinstance(st.value, ast.Tuple) and len(tg.elts) == len(st.value.elts) \
                        and all(isinstance(e, ast.Name) for e in tg.elts):
                    vals = [self.ex(e, env) for e in st.value.elts]
                    for e, v in zip(tg.elts, vals):
                        env[e.id] = v
                    continue
                # a[np.isnan(a)] = c
                if isinstance(tg, ast.Subscript) and _call_name(tg.slice) == "np.isnan" and len(tg.slice.args) == 1 \
                        and _u(tg.slice.args[0]) == _u(tg.value):
                    c = self.ex(st.value, env)
                    if c.k == "lit":
                        c = _V("%s" % c.t, "rat")
                    if c.k != "rat":
                        raise TranslationError("NaN replacement value " + _u(st.value))
                    self.assign_into(tg.value, env, c.t)
                    continue
                # X[v] = e
                if isinstance(tg, ast.Subscript) and isinstance(tg.value, ast.Name) and tg.value.id == self.dict \
                        and self.ex(tg.slice, env).k == "name":
                    if isinstance(st.value, ast.Tuple) and len(st.value.elts) == 2:
                        a, b = [self.ex(e, env) for e in st.value.elts]
                        if a.k != "optser" or b.k != "optser":
                            raise TranslationError("bounds pair of kinds %s, %s" % (a.k, b.k))
                        env["@entry"] = _V("Entry.io (%s, %s)" % (a.t, b.t), "entry")
                    else:
                        e = self.ex(st.value, env)
                        if e.k != "ser":
                            raise TranslationError("dictionary value of kind " + e.k)
                        env["@entry"] = _V("Entry.io %s" % e.t, "entry")
                    continue
            if isinstance(st, ast.Try):
                env = self.do_try(st, env)
                continue
            if isinstance(st, ast.If):
                env = self.do_if(st, env, stmts[i + 1:])
                if env.get("@done"):
                    return env
                continue
            raise TranslationError("unsupported statement in IOMixin.%s: %s" % (self.method, _u(st)))
        return env

    def assign_into(self, target, env, c):
        """target[np.isnan(target)] = c"""
        if isinstance(target, ast.Name) and target.id in env and env[target.id].k == "vals":
            v = env[target.id]
            env[target.id] = _V("(%s.map (replNan %s))" % (v.t, c), "vals", v.view)
            if v.view:
                if v.view[0] == "drop":
                    _, k, base, key = v.view
                    self.store_after[key] = "(%s.take (%s) ++ (%s.drop (%s)).map (replNan %s))" % (base, k, base, k, c)
                elif v.view[0] == "whole":
                    self.store_after[v.view[2]] = "(%s.map (replNan %s))" % (v.view[1], c)
                else:
                    raise TranslationError("in-place write into a view of a stored series: " + _u(target))
            return
        ch = _attr_chain(target) if isinstance(target, ast.Attribute) else None
        if ch and len(ch) == 2 and ch[1] == "values" and ch[0] in env and env[ch[0]].k == "ser":
            s = env[ch[0]]
            env[ch[0]] = _V("(%s.1, %s.2.map (replNan %s))" % (s.t, s.t, c), "ser")
            return
        raise TranslationError("unsupported in-place write " + _u(target))

    def do_try(self, st, env):
        if len(st.handlers) != 1 or _u(st.handlers[0].type) != "KeyError" or st.handlers[0].name \
                or not all(isinstance(s, ast.Pass) for s in st.handlers[0].body) or st.finalbody:
            raise TranslationError("try without exactly `except KeyError: pass`")
        first = st.body[0]
        if not (isinstance(first, ast.Assign) and len(first.targets) == 1):
            raise TranslationError("try body does not start with a data-store read")
        tg, val = first.targets[0], first.value
        self.n += 1
        bv = "vals"
        inner = dict(env)
        if isinstance(tg, ast.Tuple) and len(tg.elts) == 2 and all(isinstance(e, ast.Name) for e in tg.elts):
            g, key = self.getter(val, env)
            inner[tg.elts[0].id] = _V("ts", "ints")
            inner[tg.elts[1].id] = _V(bv, "vals", ("whole", bv, key))
        elif isinstance(tg, ast.Name) and _call_name(val) == "Timeseries" and len(val.args) == 1 \
                and isinstance(val.args[0], ast.Starred):
            g, key = self.getter(val.args[0].value, env)
            inner[tg.id] = _V("(ts, %s)" % bv, "ser")
        else:
            raise TranslationError("try body does not start with a data-store read: " + _u(first))
        inner = self.block(list(st.body[1:]) + list(st.orelse), inner)
        out = dict(env)
        for name, v in inner.items():
            old = env.get(name)
            if old is v or name in (e.id for e in (tg.elts if isinstance(tg, ast.Tuple) else [tg])):
                continue
            if name == "@entry":
                if old is not None:
                    raise TranslationError("entry written twice")
                if v.k == "optentry":
                    out[name] = _V("(match %s with | none => some (Entry.inherited parent) | some %s => %s)" % (g, bv, v.t),
                                   "optentry")
                else:
                    out[name] = _V("(match %s with | none => Entry.inherited parent | some %s => %s)" % (g, bv, v.t), "entry")
                continue
            if name.startswith("@"):
                out[name] = v
                continue
            if old is not None and old.k == "none" and v.k == "vals":
                out[name] = _V("(match %s with | none => none | some %s => some %s)" % (g, bv, v.t), "optvals",
                               None)
                # the view (if any) is carried through the option
                out[name].view = v.view
                continue
            if old is None:
                continue  # a local of the try body
            raise TranslationError("name %s assigned in a try body with kinds %s -> %s" % (name, old.k, v.k))
        return out

    def do_if(self, st, env, rest):
        t = st.test
        # if x is not None: <statements about x>
        if isinstance(t, ast.Compare) and len(t.ops) == 1 and isinstance(t.ops[0], ast.IsNot) \
                and isinstance(t.comparators[0], ast.Constant) and t.comparators[0].value is None \
                and isinstance(t.left, ast.Name) and not st.orelse:
            x = t.left.id
            if x not in env or env[x].k != "optvals":
                raise TranslationError("`is not None` test of " + _u(t.left))
            inner = dict(env)
            # the payload is still a view of the stored series if the slice was never copied
            inner[x] = _V("a", "vals", env[x].view)
            inner = self.block(st.body, inner)
            changed = [n for n in inner if inner[n] is not env.get(n)]
            if changed != [x] or inner[x].k != "ser":
                raise TranslationError("`if %s is not None` assigns %s" % (x, changed))
            out = dict(env)
            out[x] = _V("(match %s with | none => none | some a => some %s)" % (env[x].t, inner[x].t), "optser")
            return out
        # if m is not None or M is not None: X[v] = (m, M)
        if isinstance(t, ast.BoolOp) and isinstance(t.op, ast.Or) and not st.orelse and all(
                isinstance(v, ast.Compare) and len(v.ops) == 1 and isinstance(v.ops[0], ast.IsNot)
                and isinstance(v.left, ast.Name) and isinstance(v.comparators[0], ast.Constant)
                and v.comparators[0].value is None for v in t.values):
            names = [v.left.id for v in t.values]
            for n in names:
                if n not in env or env[n].k != "optser":
                    raise TranslationError("`is not None` test of " + n)
            cond = "(%s) = true" % " || ".join("%s.isSome" % env[n].t for n in names)
            inner = self.block(st.body, env)
            if "@entry" not in inner or "@entry" in env:
                raise TranslationError("conditional does not write the entry")
            out = dict(env)
            out["@entry"] = _V("(if %s then %s else Entry.inherited parent)" % (cond, inner["@entry"].t), "entry")
            return out
        # if <cond>: raise …   (the rest of the block is the else branch)
        if len(st.body) == 1 and isinstance(st.body[0], ast.Raise) and not st.orelse:
            c = self.ex(t, env)
            if c.k != "prop":
                raise TranslationError("condition of a raise: " + _u(t))
            self.raises = True
            inner = self.block(rest, env)
            if "@entry" not in inner or inner["@entry"].k != "entry":
                raise TranslationError("no entry written after the raise test")
            out = dict(env)
            out["@entry"] = _V("(if %s then none else some (%s))" % (c.t, inner["@entry"].t), "optentry")
            out["@done"] = True
            return out
        raise TranslationError("unsupported `if` in IOMixin.%s: %s" % (self.method, _u(t)))

    # ---- the method frame
    def run(self):
        body = [s for s in self.fn.body if not _is_doc(s) and not _is_logging(s)]
        if len(body) < 3:
            raise TranslationError("IOMixin.%s: body too short" % self.method)
        s0, last = body[0], body[-1]
        args = "ensemble_member" if self.has_member else ""
        if not (isinstance(s0, ast.Assign) and isinstance(s0.targets[0], ast.Name)
                and _u(s0.value) == "super().%s(%s)" % (self.method, args)):
            raise TranslationError("IOMixin.%s does not start with X = super().%s(%s)" % (self.method, self.method, args))
        self.dict = s0.targets[0].id
        if not (isinstance(last, ast.Return) and isinstance(last.value, ast.Name) and last.value.id == self.dict):
            raise TranslationError("IOMixin.%s does not return the parent's dictionary" % self.method)
        env, loop = {}, None
        for st in body[1:-1]:
            if isinstance(st, ast.For):
                if loop is not None:
                    raise TranslationError("more than one loop")
                loop = st
                continue
            if loop is not None:
                raise TranslationError("statement after the loop: " + _u(st))
            if isinstance(st, ast.Assign) and len(st.targets) == 1 and isinstance(st.targets[0], ast.Name):
                try:
                    env[st.targets[0].id] = _V(_roles_of(st.value), "roles")
                    continue
                except TranslationError:
                    pass
            env = self.block([st], env)
        if loop is None or loop.orelse or not isinstance(loop.target, ast.Name):
            raise TranslationError("IOMixin.%s: no loop over the variables" % self.method)
        it = loop.iter
        if isinstance(it, ast.Name) and it.id in env and env[it.id].k == "roles":
            self.roles = env[it.id].t
        else:
            self.roles = _roles_of(it)
        env[loop.target.id] = _V("v", "var")
        lb = list(loop.body)
        # `variable = variable.name()` rebinding
        out = self.block(lb, env)
        if "@entry" not in out:
            raise TranslationError("IOMixin.%s: the loop body writes no entry" % self.method)
        return out["@entry"]


def _acc(method, has_member):
    tree = _parse("optimization/io_mixin.py")
    a = _Acc(tree, method, has_member)
    e = a.run()
    return a, e


def translate_bounds():
    a, e = _acc("bounds", False)
    if e.k != "entry":
        raise TranslationError("bounds(): entry kind " + e.k)
    after = {k: a.store_after.get(k, "vals") for k in ("Key.min", "Key.max")}
    return {"entry": e.t, "roles": "[%s]" % ", ".join(a.roles), "smin": after["Key.min"], "smax": after["Key.max"]}


def translate_history_entry():
    a, e = _acc("history", True)
    if e.k != "entry" or a.store_after:
        raise TranslationError("history(): entry kind " + e.k)
    return {"entry": e.t, "roles": "[%s]" % ", ".join(a.roles)}


def translate_seed():
    a, e = _acc("seed", True)
    if e.k != "entry" or a.store_after:
        raise TranslationError("seed(): entry kind %s / store written" % e.k)
    return {"entry": e.t, "roles": "[%s]" % ", ".join(a.roles)}


def translate_constant_inputs():
    a, e = _acc("constant_inputs", True)
    if e.k != "optentry" or a.store_after:
        raise TranslationError("constant_inputs(): entry kind %s / store written" % e.k)
    return {"entry": e.t, "roles": "[%s]" % ", ".join(a.roles)}


def translate_parameters():
    fn = _find_method(_parse("optimization/io_mixin.py"), "IOMixin", "parameters")
    if [a.arg for a in fn.args.args] != ["self", "ensemble_member"]:
        raise TranslationError("signature of IOMixin.parameters")
    body = [s for s in fn.body if not _is_doc(s) and not _is_logging(s)]
    if len(body) != 3:
        raise TranslationError("IOMixin.parameters is not (parent; loop; return)")
    s0, lp, rt = body
    if not (isinstance(s0, ast.Assign) and isinstance(s0.targets[0], ast.Name)
            and _u(s0.value) == "super().parameters(ensemble_member)"):
        raise TranslationError("IOMixin.parameters does not start with the parent's dictionary")
    d = s0.targets[0].id
    if not (isinstance(rt, ast.Return) and _u(rt.value) == d):
        raise TranslationError("IOMixin.parameters does not return the parent's dictionary")
    if not (isinstance(lp, ast.For) and _u(lp.iter) == "self.io.parameters(ensemble_member).items()"
            and isinstance(lp.target, ast.Tuple) and len(lp.target.elts) == 2 and not lp.orelse and len(lp.body) == 1):
        raise TranslationError("IOMixin.parameters: loop is not over self.io.parameters(ensemble_member).items()")
    k, v = [_u(e) for e in lp.target.elts]
    if _u(lp.body[0]) != "%s[%s] = %s" % (d, k, v):
        raise TranslationError("IOMixin.parameters: loop body is not P[k] = v: " + _u(lp.body[0]))
    return {"t": "io.foldl (fun acc kv => aset kv.1 kv.2 acc) parent"}


# ---- DataStore.set_timeseries / get_timeseries_sec


def _cmp_sides(node, op):
    if isinstance(node, ast.Compare) and len(node.ops) == 1 and isinstance(node.ops[0], op):
        return _u(node.left), _u(node.comparators[0])
    return None


def translate_store_set():
    fn = _find_method(_parse("data/storage.py"), "DataStore", "set_timeseries")
    if [a.arg for a in fn.args.args] != ["self", "variable", "datetimes", "values", "ensemble_member", "check_duplicates"]:
        raise TranslationError("signature of DataStore.set_timeseries")
    body = [s for s in fn.body if not _is_doc(s) and not _is_logging(s)]
    st, guard, result = "st", None, None
    NOEFFECT = ("datetimes = list(datetimes)", "self.__timeseries_datetimes = datetimes")
    LEN = {"len(self.__timeseries_datetimes)": "n", "len(values)": "x.length", "len(datetimes)": "n"}
    for s in body:
        if result is not None:
            raise TranslationError("DataStore.set_timeseries: statement after the store write: " + _u(s))
        if _u(s) in NOEFFECT:
            continue
        if isinstance(s, ast.If) and not s.orelse:
            t = _u(s.test, 300)
            if len(s.body) == 1 and isinstance(s.body[0], ast.Raise):
                if t == "not isinstance(datetimes[0], datetime)":
                    continue
                if t == "self.__timeseries_datetimes is not None and datetimes != self.__timeseries_datetimes":
                    continue
                ne = _cmp_sides(s.test, ast.NotEq)
                if ne and ne[0] in LEN and ne[1] in LEN and {LEN[ne[0]], LEN[ne[1]]} == {"n", "x.length"} and guard is None:
                    guard = "%s ≠ %s" % (LEN[ne[0]], LEN[ne[1]])
                    continue
                raise TranslationError("DataStore.set_timeseries: unknown raise test " + t)
            if t.startswith("check_duplicates and ") and all(_is_logging(b) for b in s.body):
                continue
            ge = _cmp_sides(s.test, ast.GtE)
            if ge == ("ensemble_member", "self.__ensemble_size") and len(s.body) == 1 \
                    and _call_name(getattr(s.body[0], "value", None)) == "self.__update_ensemble_size" \
                    and len(s.body[0].value.args) == 1:
                a = s.body[0].value.args[0]
                if not (isinstance(a, ast.BinOp) and isinstance(a.op, ast.Add)
                        and sorted([_u(a.left), _u(a.right)]) == ["1", "ensemble_member"]):
                    raise TranslationError("DataStore.set_timeseries: new ensemble size is " + _u(a))
                if guard is None:
                    raise TranslationError("DataStore.set_timeseries: the store grows before the length test")
                st = "(if m ≥ st.length then grow' st (%s) else st)" % ("m + 1" if _u(a.left) == "ensemble_member" else "1 + m")
                continue
            raise TranslationError("DataStore.set_timeseries: unsupported `if` " + t)
        if _u(s) == "self.__timeseries_values[ensemble_member][variable] = values":
            result = "some (%s.modify m (sset v x))" % st
            continue
        raise TranslationError("DataStore.set_timeseries: unsupported statement " + _u(s))
    if guard is None or result is None:
        raise TranslationError("DataStore.set_timeseries: no length test / no store write")
    return {"t": "if %s then none else %s" % (guard, result)}


def translate_store_get():
    fn = _find_method(_parse("data/storage.py"), "DataStore", "get_timeseries_sec")
    if [a.arg for a in fn.args.args] != ["self", "variable", "ensemble_member"]:
        raise TranslationError("signature of DataStore.get_timeseries_sec")
    if len(fn.args.defaults) != 1 or _u(fn.args.defaults[0]) != "0":
        raise TranslationError("DataStore.get_timeseries_sec: default member is not 0")
    body = [s for s in fn.body if not _is_doc(s) and not _is_logging(s)]
    guard, result = None, None
    for s in body:
        if result is not None:
            raise TranslationError("statement after return")
        if _u(s) == "self._datetimes_to_seconds()":
            continue
        if isinstance(s, ast.If) and not s.orelse and len(s.body) == 1 and isinstance(s.body[0], ast.Raise) \
                and _cmp_sides(s.test, ast.GtE) == ("ensemble_member", "self.__ensemble_size") \
                and "KeyError" in _u(s.body[0]):
            guard = "m ≥ st.length"
            continue
        if isinstance(s, ast.Return) and _u(s.value) == \
                "(self.__timeseries_times_sec, self.__timeseries_values[ensemble_member][variable])":
            result = "(st[m]?).bind (sget v)"
            continue
        raise TranslationError("DataStore.get_timeseries_sec: unsupported statement " + _u(s))
    if guard is None or result is None:
        raise TranslationError("DataStore.get_timeseries_sec: no member test / no return")
    return {"t": "if %s then none else %s" % (guard, result)}


# ---- simulation IOMixin.initialize / update / __set_input_variables


class _Sim:
    def __init__(self):
        self.time = None        # Lean term of the current model time
        self.stamps, self.fed, self.rec = [], [], []
        self.env = {}

    def ex(self, node):
        if isinstance(node, ast.Name) and node.id in self.env:
            return self.env[node.id]
        if isinstance(node, ast.Constant) and not isinstance(node.value, bool) and node.value in (0, 0.0):
            return ("0", "int")
        if _attr_chain(node) == ["self", "io", "times_sec"]:
            return ("ts", "ints")
        if _u(node) == "self.get_current_time()":
            if self.time is None:
                raise TranslationError("model time read before the experiment is set up")
            return (self.time, "int")
        if isinstance(node, ast.BinOp) and isinstance(node.op, ast.Add):
            (a, ka), (b, kb) = self.ex(node.left), self.ex(node.right)
            if ka == "int" and kb == "int":
                return ("(%s + %s)" % (a, b), "int")
        if _call_name(node) == "bisect.bisect_left" and len(node.args) == 2 and not node.keywords:
            (l, kl), (x, kx) = self.ex(node.args[0]), self.ex(node.args[1])
            if kl == "ints" and kx == "int":
                return ("(bisectLeft %s %s)" % (l, x), "nat")
        raise TranslationError("simulation IOMixin: unsupported expression " + _u(node))

    def feed(self, st):
        c = st.value
        if not (1 <= len(c.args) <= 2) or c.keywords:
            raise TranslationError("arguments of __set_input_variables: " + _u(st))
        i, k = self.ex(c.args[0])
        if k != "nat":
            raise TranslationError("row index of __set_input_variables: " + _u(c.args[0]))
        if self.time is None:
            raise TranslationError("inputs fed before the experiment is set up")
        self.fed.append("(%s, %s)" % (i, self.time))

    def is_record(self, st):
        """for … in self._io_output….: ….append(self.get_var(…))  /  self._io_output[variable] = [self.get_var(variable)]"""
        if not (isinstance(st, ast.For) and not st.orelse and len(st.body) == 1 and "self._io_output" in _u(st.iter)):
            return False
        b = _u(st.body[0], 200)
        if isinstance(st.target, ast.Tuple) and len(st.target.elts) == 2:
            k, v = [_u(e) for e in st.target.elts]
            return _u(st.iter) == "self._io_output.items()" and b == "%s.append(self.get_var(%s))" % (v, k)
        k = _u(st.target)
        return _u(st.iter) == "self._io_output_variables" and b == "self._io_output[%s] = [self.get_var(%s)]" % (k, k)


SIM_INIT_NOEFFECT = (
    "parameter_variables = set(self.get_parameter_variables())",
    "self.__input_variables = set(self.get_input_variables().keys())",
    "self._io_output_variables = self.get_output_variables()",
    "self._io_output = AliasDict(self.alias_relation)",
)


def translate_sim_initialize():
    fn = _find_method(_parse("simulation/io_mixin.py"), "IOMixin", "initialize")
    body = [s for s in fn.body if not _is_doc(s) and not _is_logging(s)]
    S = _Sim()
    dt_ok = initialised = False
    for st in body:
        u = _u(st, 300)
        if u in SIM_INIT_NOEFFECT:
            continue
        if isinstance(st, ast.For) and _u(st.iter) == "self.io.parameters().items()":
            continue  # parameters of the import set on the model: no time axis involved
        if isinstance(st, ast.Assign) and len(st.targets) == 1:
            tg = st.targets[0]
            if _attr_chain(tg) == ["self", "_IOMixin__dt"] or _u(tg) == "self.__dt":
                v = st.value
                if not (isinstance(v, ast.BinOp) and isinstance(v.op, ast.Sub)
                        and all(isinstance(x, ast.Subscript) and S.ex(x.value) == ("ts", "ints") for x in (v.left, v.right))
                        and _u(v.left.slice) == "1" and _u(v.right.slice) == "0"):
                    raise TranslationError("import step is not T[1] - T[0]: " + u)
                dt_ok = True
                continue
            if isinstance(tg, ast.Name):
                S.env[tg.id] = S.ex(st.value)
                continue
        if isinstance(st, ast.Expr) and isinstance(st.value, ast.Call):
            nm = _call_name(st.value)
            a = st.value.args
            if nm == "self.setup_experiment":
                if not dt_ok or len(a) != 3 or _u(a[0]) not in ("0", "0.0") or _u(a[2]) != "self.__dt" \
                        or not (isinstance(a[1], ast.Subscript) and S.ex(a[1].value) == ("ts", "ints") and _u(a[1].slice) == "-1"):
                    raise TranslationError("experiment is not set up as (0, T[-1], T[1] - T[0]): " + u)
                S.time = "0"
                continue
            if nm == "self.__set_input_variables":
                if initialised:
                    raise TranslationError("inputs fed after the model was initialised")
                S.feed(st)
                continue
            if nm == "self._simulation_times.append" and len(a) == 1:
                t, k = S.ex(a[0])
                if k != "int":
                    raise TranslationError("listed stamp " + u)
                S.stamps.append(t)
                continue
            if u == "super().initialize(config_file)":
                if not S.fed:
                    raise TranslationError("model initialised before the inputs of t0 were fed")
                initialised = True
                continue
        if S.is_record(st):
            if not initialised:
                raise TranslationError("outputs read before the model was initialised")
            S.rec.append(S.time)
            continue
        raise TranslationError("simulation IOMixin.initialize: unsupported statement " + u)
    if not (dt_ok and initialised and S.time is not None):
        raise TranslationError("simulation IOMixin.initialize: incomplete (step / experiment / initialisation)")
    return {"time": S.time, "stamps": "[%s]" % ", ".join(S.stamps), "fed": "[%s]" % ", ".join(S.fed),
            "rec": "[%s]" % ", ".join(S.rec)}


def translate_sim_update():
    fn = _find_method(_parse("simulation/io_mixin.py"), "IOMixin", "update")
    if [a.arg for a in fn.args.args] != ["self", "dt"]:
        raise TranslationError("signature of simulation IOMixin.update")
    body = [s for s in fn.body if not _is_doc(s) and not _is_logging(s)]
    S = _Sim()
    S.time = "s.time"
    S.env["dt"] = ("dtArg", "int")
    for st in body:
        u = _u(st, 300)
        if u == "self.__first_update_call = False":
            continue
        if isinstance(st, ast.If) and not st.orelse and _u(st.test) == "dt < 0" and len(st.body) == 1 \
                and _u(st.body[0]) == "dt = self.__dt":
            S.env["dt"] = ("(if %s < 0 then s.dtImport else %s)" % (S.env["dt"][0], S.env["dt"][0]), "int")
            continue
        if isinstance(st, ast.Assign) and len(st.targets) == 1 and isinstance(st.targets[0], ast.Name):
            S.env[st.targets[0].id] = S.ex(st.value)
            continue
        if isinstance(st, ast.Expr) and isinstance(st.value, ast.Call):
            nm = _call_name(st.value)
            a = st.value.args
            if nm == "self.__set_input_variables":
                S.feed(st)
                continue
            if nm == "self._simulation_times.append" and len(a) == 1:
                t, k = S.ex(a[0])
                if k != "int":
                    raise TranslationError("listed stamp " + u)
                S.stamps.append(t)
                continue
            if nm == "super.update" or _u(st.value.func) == "super().update":
                if len(a) != 1 or st.value.keywords:
                    raise TranslationError("super().update arguments")
                d, k = S.ex(a[0])
                if k != "int":
                    raise TranslationError("super().update argument " + u)
                S.time = "(%s + %s)" % (S.time, d)
                continue
        if S.is_record(st):
            S.rec.append(S.time)
            continue
        raise TranslationError("simulation IOMixin.update: unsupported statement " + u)
    return {"time": S.time, "stamps": "[%s]" % ", ".join(S.stamps), "fed": "[%s]" % ", ".join(S.fed),
            "rec": "[%s]" % ", ".join(S.rec)}


def translate_feed_value():
    fn = _find_method(_parse("simulation/io_mixin.py"), "IOMixin", "__set_input_variables")
    if [a.arg for a in fn.args.args] != ["self", "t_idx", "use_cache"]:
        raise TranslationError("signature of __set_input_variables")
    loops = [s for s in fn.body if isinstance(s, ast.For)]
    if len(loops) != 1 or _u(loops[0].iter) != "self.__cache_loop_timeseries.items()" \
            or not isinstance(loops[0].target, ast.Tuple) or len(loops[0].target.elts) != 2:
        raise TranslationError("__set_input_variables: no single loop over the cached series")
    var, vals = [_u(e) for e in loops[0].target.elts]
    body = [s for s in loops[0].body if not _is_logging(s)]
    if len(body) != 2 or not isinstance(body[0], ast.Assign) or not isinstance(body[1], ast.If):
        raise TranslationError("__set_input_variables: loop body is not (row read; finite test)")
    val = _u(body[0].targets[0])
    if _u(body[0].value) != "%s[t_idx]" % vals:
        raise TranslationError("__set_input_variables: row read is " + _u(body[0].value))
    iff = body[1]
    if _u(iff.test) != "isfinite(%s)" % val or len(iff.body) != 1 \
            or _u(iff.body[0]) != "self.set_var(%s, %s)" % (var, val) or not all(_is_logging(s) for s in iff.orelse):
        raise TranslationError("__set_input_variables: finite test / set_var: " + _u(iff, 200))
    # the cached series are the stored ones (member 0), read when the cache is (re)built
    fill = [n for n in ast.walk(fn) if isinstance(n, ast.Assign) and "self.__cache_loop_timeseries[" in _u(n.targets[0])]
    reads = [n for n in ast.walk(fn) if isinstance(n, ast.Assign) and _call_name(n.value) == "self.io.get_timeseries_sec"]
    if len(fill) != 1 or len(reads) != 1 or len(reads[0].value.args) != 1 or reads[0].value.keywords \
            or not isinstance(reads[0].targets[0], ast.Tuple) \
            or _u(fill[0]) != "self.__cache_loop_timeseries[%s] = %s" % (_u(reads[0].value.args[0]), _u(reads[0].targets[0].elts[1])):
        raise TranslationError("__set_input_variables: the cache is not filled with the stored series of member 0")
    return {"t": "match vals[idx]? with | none => none | some v => some (if v.isFinite then some v else none)"}


HEAD2 = """import RtcVerif.Model.C12Io
import RtcVerif.Proofs.C12Io
/-!
GENERATED on every run of the C12 check by harness/translate_c12.py (`gen_io_slices`) from the tree
under check (optimization/io_mixin.py, simulation/io_mixin.py, data/storage.py).  Do not edit.
-/
set_option linter.unusedVariables false
set_option linter.unreachableTactic false
set_option linter.unusedTactic false
set_option linter.unusedSimpArgs false
namespace RtcVerif.Gen
open RtcVerif RtcVerif.C12
"""

PIECES2 = {
    "bounds": """
def boundsEntryGen {β : Type} (ts : List Int) (get : Getter) (big : Rat) (parent : Option β) :
    Entry β (Option Ser × Option Ser) := %(entry)s

theorem boundsEntryGen_eq_model {β : Type} (ts : List Int) (get : Getter) (big : Rat) (parent : Option β) :
    boundsEntryGen ts get big parent = C12.boundsEntry ts get big parent := by
  unfold boundsEntryGen C12.boundsEntry C12.boundSide C12.boundSeries
  cases h1 : get 0 Key.min <;> cases h2 : get 0 Key.max <;> simp [C12.replNan_def, h1, h2]

def boundsStoreGen (ts : List Int) (vals : List XVal) (lower : Bool) (big : Rat) : List XVal :=
  if lower then %(smin)s else %(smax)s

theorem boundsStoreGen_eq_model (ts : List Int) (vals : List XVal) (lower : Bool) (big : Rat) :
    boundsStoreGen ts vals lower big = C12.boundsStoreAfter ts vals lower big := by
  cases lower <;> rfl

def boundsRolesGen : List Role := %(roles)s

theorem boundsRolesGen_eq_model : boundsRolesGen = C12.boundsRoles := rfl
""",
    "history": """
def historyEntryGen {β : Type} (ts : List Int) (get : Getter) (m : Nat) (parent : Option β) : Entry β Ser := %(entry)s

theorem historyEntryGen_eq_model {β : Type} (ts : List Int) (get : Getter) (m : Nat) (parent : Option β) :
    historyEntryGen ts get m parent = C12.historyEntry ts get m parent := by
  unfold historyEntryGen C12.historyEntry C12.history C12.histLen
  cases get m Key.var <;> rfl

def historyRolesGen : List Role := %(roles)s

theorem historyRolesGen_eq_model : historyRolesGen = C12.historyRoles := rfl
""",
    "seed": """
def seedEntryGen {β : Type} (ts : List Int) (get : Getter) (m : Nat) (parent : Option β) : Entry β Ser := %(entry)s

theorem seedEntryGen_eq_model {β : Type} (ts : List Int) (get : Getter) (m : Nat) (parent : Option β) :
    seedEntryGen ts get m parent = C12.seedEntry ts get m parent := by
  unfold seedEntryGen C12.seedEntry
  cases get m Key.var <;> rfl

def seedRolesGen : List Role := %(roles)s

theorem seedRolesGen_eq_model : seedRolesGen = C12.seedRoles := rfl
""",
    "constInputs": """
def constInputEntryGen {β : Type} (ts : List Int) (get : Getter) (m : Nat) (parent : Option β) :
    Option (Entry β Ser) := %(entry)s

theorem constInputEntryGen_eq_model {β : Type} (ts : List Int) (get : Getter) (m : Nat) (parent : Option β) :
    constInputEntryGen ts get m parent = C12.constInputEntry ts get m parent := by
  unfold constInputEntryGen C12.constInputEntry
  cases get m Key.var <;> rfl

def constInputRolesGen : List Role := %(roles)s

theorem constInputRolesGen_eq_model : constInputRolesGen = C12.constInputRoles := rfl
""",
    "parameters": """
def parametersGen {α : Type} (parent io : List (Nat × α)) : List (Nat × α) := %(t)s

theorem parametersGen_eq_model {α : Type} (parent io : List (Nat × α)) :
    parametersGen parent io = C12.parametersMerge parent io := rfl
""",
    "storeSet": """
def ioSetGen (n : Nat) (st : Store) (m v : Nat) (x : List XVal) : Option Store := %(t)s

theorem ioSetGen_eq_model (n : Nat) (st : Store) (m v : Nat) (x : List XVal) :
    ioSetGen n st m v x = C12.ioSet n st m v x := by
  rw [← C12.ioSetRef_eq]
  unfold ioSetGen C12.ioSetRef
  first
    | rfl
    | (by_cases h : n = x.length <;> simp [h, Nat.add_comm, eq_comm])
""",
    "storeGet": """
def ioGetGen (st : Store) (m v : Nat) : Option (List XVal) := %(t)s

theorem ioGetGen_eq_model (st : Store) (m v : Nat) : ioGetGen st m v = C12.ioGet st m v := by
  rw [← C12.ioGetRef_eq]
  rfl
""",
    "simInit": """
def simInitGen (ts : List Int) : Option SimSt :=
  match ts with
  | a :: b :: _ => some { dtImport := b - a, time := %(time)s, stamps := %(stamps)s, fed := %(fed)s, recorded := %(rec)s }
  | _ => none

theorem simInitGen_eq_model (ts : List Int) : simInitGen ts = C12.simInit ts := rfl
""",
    "simUpdate": """
def simUpdateGen (ts : List Int) (s : SimSt) (dtArg : Int) : SimSt :=
  { s with time := %(time)s, stamps := s.stamps ++ %(stamps)s, fed := s.fed ++ %(fed)s,
           recorded := s.recorded ++ %(rec)s }

theorem simUpdateGen_eq_model (ts : List Int) (s : SimSt) (dtArg : Int) :
    simUpdateGen ts s dtArg = C12.simUpdate ts s dtArg := by
  first
    | rfl
    | (simp only [simUpdateGen, C12.simUpdate, Int.add_comm])
""",
    "feedValue": """
def feedValueGen (vals : List XVal) (idx : Nat) : Option (Option XVal) := %(t)s

theorem feedValueGen_eq_model (vals : List XVal) (idx : Nat) : feedValueGen vals idx = C12.feedValue vals idx := rfl
""",
}


def gen_io_slices(c):
    """(re)generate lean/RtcVerif/Gen/IoSlices.lean; returns the extra obligation spec for c.prove"""
    gdir = os.path.join(LEAN_DIR, "RtcVerif", "Gen")
    os.makedirs(gdir, exist_ok=True)
    path = os.path.join(gdir, "IoSlices.lean")
    text, thms = HEAD2, []

    def piece(name, what, fn, theorems):
        nonlocal text
        try:
            r = fn()
        except TranslationError as e:
            c.broken.append(("translator: " + what, str(e)))
            return
        except Exception as e:
            c.broken.append(("translator: " + what, "%s: %s" % (type(e).__name__, e)))
            return
        text += PIECES2[name] % r
        thms.extend(theorems)

    piece("bounds", "IOMixin.bounds", translate_bounds,
          ["boundsEntryGen_eq_model", "boundsStoreGen_eq_model", "boundsRolesGen_eq_model"])
    piece("history", "IOMixin.history (entries)", translate_history_entry,
          ["historyEntryGen_eq_model", "historyRolesGen_eq_model"])
    piece("seed", "IOMixin.seed", translate_seed, ["seedEntryGen_eq_model", "seedRolesGen_eq_model"])
    piece("constInputs", "IOMixin.constant_inputs", translate_constant_inputs,
          ["constInputEntryGen_eq_model", "constInputRolesGen_eq_model"])
    piece("parameters", "IOMixin.parameters", translate_parameters, ["parametersGen_eq_model"])
    piece("storeSet", "DataStore.set_timeseries", translate_store_set, ["ioSetGen_eq_model"])
    piece("storeGet", "DataStore.get_timeseries_sec", translate_store_get, ["ioGetGen_eq_model"])
    piece("simInit", "simulation IOMixin.initialize", translate_sim_initialize, ["simInitGen_eq_model"])
    piece("simUpdate", "simulation IOMixin.update", translate_sim_update, ["simUpdateGen_eq_model"])
    piece("feedValue", "simulation IOMixin.__set_input_variables", translate_feed_value, ["feedValueGen_eq_model"])
    text += "\nend RtcVerif.Gen\n"
    old = open(path).read() if os.path.exists(path) else None
    if old != text:
        tmp = path + ".tmp%d" % os.getpid()
        with open(tmp, "w") as f:
            f.write(text)
        os.replace(tmp, path)
    return [("RtcVerif.Gen.IoSlices", "RtcVerif.Gen", thms)] if thms else []


# =============================================================================================
# third generated module: Gen/PiBinOrder.lean  (gen_pi_bin_order)  --  data/pi.py, Timeseries.write
#
# translated                                                          generated          proved equal to
# ----------------------------------------------------------------------------------------------------
# header loop nest of a new file (under `if self.make_new_file:`)     headerOrderGen     C12.headerOrder
# record loop nest (member loop, series in document order, member     recordOrderGen     C12.recordOrder
#   test, which values go into the block written to the .bin)                            (via recordOrderCode_eq)
#
# Python construct                                   ->  model term                       (TRUSTED mapping)
# ----------------------------------------------------------------------------------------------------
# for M in range(len(self.__values)):                    (List.range E).flatMap (fun m => …)
# for V in sorted(self.__values[M].keys()):              (vars m).map (fun v => …)     vars m = the sorted names of member m
# self.__add_header(V, …, ensemble_member=M, …)          one header (m, v) appended to the document
# for S in self.__xml_root.findall('pi:series', ns):     hs : the headers in document order
# H = S.find('pi:header', ns)                            h
# el = H.find('pi:ensembleMemberIndex', ns);
#   if el is not None: if M != int(el.text): continue    hs.filter (fun h => decide (h.1 = m))   (a file of a single
#                                                        member has no index element: every series is member 0's)
# X = self.__data_config.variable(H)                     h.2
# vals = self.__values[M][X]                             the values of series (m, h.2)
# if len(vals) == 0: <remove the series>; continue       no header and no block (consistent by itself)
# if self.__binary: f.write(vals.astype(…).tobytes())    one block (m, h.2) appended to the .bin
# date / unit / event updates, time-zone element         no effect on the order of headers and blocks
# any other loop order, `continue`, `break`, second write   TranslationError -> obligation broken


def _loops_in(stmts):
    return [s for s in stmts if isinstance(s, ast.For)]


def translate_pi_bin_order():
    fn = _find_method(_parse("data/pi.py"), "Timeseries", "write")
    # ---- header nest
    news = [s for s in fn.body if isinstance(s, ast.If) and _u(s.test) == "self.make_new_file"]
    if len(news) != 1 or news[0].orelse:
        raise TranslationError("pi.Timeseries.write: not exactly one `if self.make_new_file:` block")
    outer = _loops_in(news[0].body)
    if len(outer) != 1 or outer[0].orelse or not isinstance(outer[0].target, ast.Name) \
            or _u(outer[0].iter) != "range(len(self.__values))":
        raise TranslationError("pi.Timeseries.write: headers of a new file are not listed by `for M in range(len(self.__values))`")
    M = outer[0].target.id
    if len(outer[0].body) != 1 or not isinstance(outer[0].body[0], ast.For):
        raise TranslationError("pi.Timeseries.write: the member loop of the headers holds more than the variable loop")
    inner = outer[0].body[0]
    if inner.orelse or not isinstance(inner.target, ast.Name) or _u(inner.iter) != "sorted(self.__values[%s].keys())" % M:
        raise TranslationError("pi.Timeseries.write: inner header loop is not over sorted(self.__values[%s].keys()): %s"
                               % (M, _u(inner.iter)))
    V = inner.target.id
    adds = []
    for st in inner.body:
        if isinstance(st, ast.Assign):
            continue
        if isinstance(st, ast.Expr) and _call_name(st.value) == "self.__add_header":
            adds.append(st.value)
            continue
        raise TranslationError("pi.Timeseries.write: unsupported statement in the header loop: " + _u(st))
    if len(adds) != 1 or not adds[0].args or _u(adds[0].args[0]) != V \
            or [_u(k.value) for k in adds[0].keywords if k.arg == "ensemble_member"] != [M]:
        raise TranslationError("pi.Timeseries.write: not exactly one __add_header(%s, …, ensemble_member=%s)" % (V, M))
    header_term = "(List.range E).flatMap (fun m => (vars m).map (fun v => (m, v)))"
    # ---- record nest
    writes = [n for n in ast.walk(fn) if isinstance(n, ast.Call) and _call_name(n) == "f.write"]
    if len(writes) != 1:
        raise TranslationError("pi.Timeseries.write: not exactly one f.write(…) into the .bin")
    rec = [s for s in _loops_in(fn.body) if any(w is n for n in ast.walk(s) for w in writes)]
    if len(rec) != 1 or rec[0].orelse or not isinstance(rec[0].target, ast.Name) or _u(rec[0].iter) != "range(len(self.__values))":
        raise TranslationError("pi.Timeseries.write: the records are not written inside `for M in range(len(self.__values))`")
    M2 = rec[0].target.id
    sl = [s for s in _loops_in(rec[0].body) if any(w is n for n in ast.walk(s) for w in writes)]
    if len(sl) != 1 or sl[0].orelse or not isinstance(sl[0].target, ast.Name) \
            or _u(sl[0].iter) != "self.__xml_root.findall('pi:series', ns)":
        raise TranslationError("pi.Timeseries.write: the records are not written series by series in document order")
    S = sl[0].target.id
    env, filtered, values_of, written = {}, False, None, False
    for st in sl[0].body:
        if written:
            if any(isinstance(n, ast.Call) and _call_name(n) == "f.write" for n in ast.walk(st)):
                raise TranslationError("second write")
            continue
        u = _u(st, 400)
        if isinstance(st, ast.Assign) and len(st.targets) == 1 and isinstance(st.targets[0], ast.Name):
            nm, val = st.targets[0].id, _u(st.value, 300)
            if val == "%s.find('pi:header', ns)" % S:
                env[nm] = "header"
            elif nm in env:
                env.pop(nm)
            hdr = [k for k, v in env.items() if v == "header"]
            if hdr and val == "%s.find('pi:ensembleMemberIndex', ns)" % hdr[0]:
                env[nm] = "index"
            elif hdr and val == "self.__data_config.variable(%s)" % hdr[0]:
                env[nm] = "variable"
            else:
                var = [k for k, v in env.items() if v == "variable"]
                if var and val == "self.__values[%s][%s]" % (M2, var[0]):
                    env[nm] = "values"
                    values_of = True
            continue
        if isinstance(st, ast.If):
            idx = [k for k, v in env.items() if v == "index"]
            vals = [k for k, v in env.items() if v == "values"]
            if idx and _u(st.test) == "%s is not None" % idx[0] and not st.orelse and len(st.body) == 1 \
                    and isinstance(st.body[0], ast.If) and not st.body[0].orelse \
                    and _u(st.body[0].test) in ("%s != int(%s.text)" % (M2, idx[0]), "int(%s.text) != %s" % (idx[0], M2)) \
                    and len(st.body[0].body) == 1 and isinstance(st.body[0].body[0], ast.Continue):
                filtered = True
                continue
            if vals and _u(st.test) == "len(%s) == 0" % vals[0] and not st.orelse \
                    and [_u(b) for b in st.body] == ["self.__xml_root.remove(%s)" % S, "continue"]:
                continue
            if _u(st.test) == "self.__binary" and st.body and isinstance(st.body[0], ast.Expr) \
                    and _call_name(st.body[0].value) == "f.write" and vals \
                    and _u(st.body[0].value.args[0]).startswith("%s.astype(" % vals[0]) \
                    and _u(st.body[0].value.args[0]).endswith(".tobytes()"):
                if not filtered or not values_of:
                    raise TranslationError("pi.Timeseries.write: block written before the member test / not the values "
                                           "of (member, variable of the header)")
                written = True
                continue
        if any(isinstance(n, (ast.Continue, ast.Break, ast.Return)) for n in ast.walk(st)):
            raise TranslationError("pi.Timeseries.write: `continue` / `break` before the block is written: " + u[:120])
        # header updates (dates, units): no effect on the order
    if not written:
        raise TranslationError("pi.Timeseries.write: no `if self.__binary: f.write(values.astype(…).tobytes())` found")
    rec_term = "(List.range E).flatMap (fun m => (hs.filter (fun h => decide (h.1 = m))).map (fun h => ((m, h.2) : SKey)))"
    return {"hdr": header_term, "rec": rec_term}


HEAD3 = """import RtcVerif.Model.C12Io
import RtcVerif.Proofs.C12Io
/-!
GENERATED on every run of the C12 check by harness/translate_c12.py (`gen_pi_bin_order`) from
data/pi.py (`Timeseries.write`) of the tree under check.  Do not edit.
-/
set_option linter.unusedVariables false
namespace RtcVerif.Gen
open RtcVerif RtcVerif.C12

def headerOrderGen (vars : Nat → List Nat) (E : Nat) : List SKey := %(hdr)s

theorem headerOrderGen_eq_model (vars : Nat → List Nat) (E : Nat) :
    headerOrderGen vars E = C12.headerOrder vars E := rfl

def recordOrderGen (hs : List SKey) (E : Nat) : List SKey := %(rec)s

theorem recordOrderGen_eq_model (hs : List SKey) (E : Nat) : recordOrderGen hs E = C12.recordOrder hs E :=
  C12.recordOrderCode_eq hs E

/-- the two loop nests of the source agree: the blocks of a new binary file come in header order -/
theorem binOrderGen_consistent (vars : Nat → List Nat) (E : Nat) :
    recordOrderGen (headerOrderGen vars E) E = headerOrderGen vars E := by
  rw [recordOrderGen_eq_model, headerOrderGen_eq_model]
  exact C12.recordOrder_headerOrder vars E

end RtcVerif.Gen
"""


def gen_pi_bin_order(c):
    """(re)generate lean/RtcVerif/Gen/PiBinOrder.lean; returns the extra obligation spec for c.prove"""
    path = os.path.join(LEAN_DIR, "RtcVerif", "Gen", "PiBinOrder.lean")
    try:
        r = translate_pi_bin_order()
    except TranslationError as e:
        c.broken.append(("translator: pi.Timeseries.write (header / record order)", str(e)))
        return []
    except Exception as e:
        c.broken.append(("translator: pi.Timeseries.write (header / record order)", "%s: %s" % (type(e).__name__, e)))
        return []
    text = HEAD3 % r
    old = open(path).read() if os.path.exists(path) else None
    if old != text:
        tmp = path + ".tmp%d" % os.getpid()
        with open(tmp, "w") as f:
            f.write(text)
        os.replace(tmp, path)
    return [("RtcVerif.Gen.PiBinOrder", "RtcVerif.Gen",
             ["headerOrderGen_eq_model", "recordOrderGen_eq_model", "binOrderGen_consistent"])]
