"""
Source-to-Lean translation for C12 (second tie between model and code, besides the correspondence).

On every run of the C12 check the time-axis kernels below are parsed with `ast` from
`$RTC_REPO/src/rtctools/...`, executed symbolically against the CLOSED table in this header and
written to `lean/RtcVerif/Gen/IoAxis.lean` as `…Gen` definitions with `…Gen_eq_model` theorems
(equality with the model functions the C12 theorems are about).  A construct outside the table is
rejected (`c.broken`), a behaviour change inside the table breaks a theorem; the failing-input
search of the check runs as usual.

translated                                             generated            proved equal to
----------------------------------------------------------------------------------------------------
DataStore.datetime_to_sec      (data/storage.py)       timesMapGen          the map of C12.timesSec
DataStore.__update_ensemble_size                       growGen              C12.grow (used by C12.ioSet)
IOMixin.times                  (optimization/io_mixin) horizonGen           C12.horizon
IOMixin.history  (end index, the two slices)           historyGen           C12.history
IOMixin.set_timeseries  (whole method incl. the inner  setTsGen             C12.setTs  (via C12.setTsRef)
                         stretch_values)
CSVMixin.write   (row labels)  (optimization/csv_mixin) csvStampsGen        C12.exportStamps
PIMixin.write    (event stamps, time-step detection)   piStampsGen, piDtGen C12.exportStamps, C12.exportDt

Python construct                                   ->  model term                       (TRUSTED mapping)
----------------------------------------------------------------------------------------------------
self.io.times_sec                                      ts : List Int  (seconds relative to the reference)
self.times()                                           horizon ts        [inside IOMixin / the mixins' write()]
self.initial_time                                      0                 (= times()[0]; C12_horizon_starts_at_t0)
0.0 / 0 / 1                                            0 / 0 / 1
bisect.bisect_left(a, x)                               bisectLeft a x
a[i:]  /  a[:i]                                        a.drop i  /  a.take i
a[0]   (a : stamps)                                    the head of a; IndexError (none) on the empty list
len(a)                                                 a.length
e + 1  (index)                                         e + 1
np.array([(t - t0).total_seconds() for t in d])        d.map (fun t => t - t0)     (whole-second datetimes)
[<ref> + timedelta(seconds=s) for s in <times>]        <times>.map (fun s => ref + s)
self.io.reference_datetime                             ref
self.__timeseries_import.times[self.__timeseries_import.forecast_index]
                                                       ref   (the forecast date IS the reference; pi_mixin.read)
len(set(t[1:] - t[:-1])) == 1                          (diffs t).eraseDups.length = 1
timedelta(seconds=t[1] - t[0])                         t.getD 1 0 - t.getD 0 0
while n > len(L): L.append(AliasDict(<rel>))           L ++ List.replicate (n - L.length) []   (fresh stores)
isinstance(timeseries, Timeseries)                     the constructor of `Arg` (.ts times values / .arr values)
timeseries.times / timeseries.values / timeseries      times / values / values
check_consistency                                      check = true
np.array_equal(a, b)                                   a = b
set(a).issuperset(b)                                   (b.all (fun t => a.contains t)) = true
not p ; a != b                                         ¬ p ; a ≠ b
np.full(a.shape, np.nan)                               nans a.length
v = np.full(..); v[np.searchsorted(a, t)] = w          scatter a t w (nans ..)     (NumPy fancy assignment)
def stretch_values(values, t_pos): n = np.full(self.io.times_sec.shape, np.nan);
    n[t_pos : t_pos + len(values)] = values; return n  stretch ts.length t_pos values   (slice assignment incl.
                                                       NumPy's shape check — inside C12.stretch)
raise ...                                              none
if output: self.__output_timeseries.add(variable)      no model state
self.io.set_timeseries(variable, self.io.datetimes, values, ensemble_member)     (last statement)
                                                       the method's result: some values
if / elif / else, local assignments, logging, docstrings   symbolic execution, path by path
anything else                                          TranslationError -> obligation broken
"""
import ast
import os

from .common import LEAN_DIR, REPO
from .translate import TranslationError, _find_method


def _u(node, n=90):
    try:
        return ast.unparse(node)[:n]
    except Exception:
        return ast.dump(node)[:n]


def _is_doc(st):
    return isinstance(st, ast.Expr) and isinstance(st.value, ast.Constant) and isinstance(st.value.value, str)


def _is_logging(st):
    if isinstance(st, ast.Expr) and isinstance(st.value, ast.Call) and isinstance(st.value.func, ast.Attribute) \
            and isinstance(st.value.func.value, ast.Name) and st.value.func.value.id == "logger":
        return True
    # `if logger.getEffectiveLevel() == logging.DEBUG: logger.debug(...)`
    if isinstance(st, ast.If) and "logger.getEffectiveLevel" in _u(st.test, 200) and not st.orelse \
            and all(_is_logging(s) for s in st.body):
        return True
    return False


def _attr_chain(node):
    """a.b.c -> ['a','b','c'] or None"""
    out = []
    while isinstance(node, ast.Attribute):
        out.append(node.attr)
        node = node.value
    if isinstance(node, ast.Name):
        out.append(node.id)
        return list(reversed(out))
    return None


def _parse(rel):
    path = os.path.join(REPO, "src", "rtctools", *rel.split("/"))
    return ast.parse(open(path).read())


def _call_name(node):
    if isinstance(node, ast.Call):
        ch = _attr_chain(node.func) if isinstance(node.func, ast.Attribute) else (
            [node.func.id] if isinstance(node.func, ast.Name) else None)
        return ".".join(ch) if ch else None
    return None


# ---------------------------------------------------------------------------------------------
# expressions (shared): returns (lean term, kind), kind in ints | vals | nat | int | prop | optvals | shape


class _Ex:
    def __init__(self, env, ts_ok=True):
        self.env = dict(env)
        self.head_of = None  # set when `<stamps>[0]` was evaluated: the list whose head `t0` stands for

    def is_times_sec(self, node):
        return _attr_chain(node) == ["self", "io", "times_sec"]

    def ex(self, node):
        if isinstance(node, ast.Name):
            if node.id in self.env:
                return self.env[node.id]
            raise TranslationError("unknown name " + node.id)
        if isinstance(node, ast.Constant) and not isinstance(node.value, bool) and node.value in (0, 0.0, 1):
            return (str(int(node.value)), "lit")
        if self.is_times_sec(node):
            return ("ts", "ints")
        ch = _attr_chain(node) if isinstance(node, ast.Attribute) else None
        if ch == ["self", "initial_time"]:
            return ("0", "int")
        if ch and len(ch) == 2 and ch[0] in self.env and self.env[ch[0]][1] == "tsobj" and ch[1] in ("times", "values"):
            return ("times", "ints") if ch[1] == "times" else ("values", "vals")
        if isinstance(node, ast.Attribute) and node.attr == "shape":
            t, k = self.ex(node.value)
            if k not in ("ints", "vals"):
                raise TranslationError(".shape of " + _u(node))
            return ("%s.length" % t, "shape")
        if isinstance(node, ast.UnaryOp) and isinstance(node.op, ast.Not):
            t, k = self.ex(node.operand)
            if k != "prop":
                raise TranslationError("`not` of a non-condition: " + _u(node))
            return ("¬ (%s)" % t, "prop")
        if isinstance(node, ast.Compare) and len(node.ops) == 1 and isinstance(node.ops[0], ast.NotEq):
            (a, ka), (b, kb) = self.ex(node.left), self.ex(node.comparators[0])
            if ka != "nat" or kb != "nat":
                raise TranslationError("!= between non-lengths: " + _u(node))
            return ("%s ≠ %s" % (a, b), "prop")
        if isinstance(node, ast.BinOp) and isinstance(node.op, ast.Add):
            (a, ka), (b, kb) = self.ex(node.left), self.ex(node.right)
            if ka == "lit" and kb == "nat":
                a, ka, b, kb = b, kb, a, ka
            if ka == "nat" and kb == "lit" and b == "1":
                return ("%s + 1" % a, "nat")
            raise TranslationError("unsupported sum " + _u(node))
        if isinstance(node, ast.Subscript):
            t, k = self.ex(node.value)
            sl = node.slice
            if isinstance(sl, ast.Slice) and sl.step is None and k in ("ints", "vals"):
                if sl.lower is not None and sl.upper is None:
                    i, ki = self.ex(sl.lower)
                    if ki == "nat":
                        return ("%s.drop (%s)" % (t, i), k)
                if sl.lower is None and sl.upper is not None:
                    i, ki = self.ex(sl.upper)
                    if ki == "nat":
                        return ("%s.take (%s)" % (t, i), k)
            if isinstance(sl, ast.Constant) and sl.value == 0 and not isinstance(sl.value, bool) and k == "ints":
                if t not in ("times",):
                    raise TranslationError("[0] of " + t)
                self.head_of = t
                return ("t0", "int")
            raise TranslationError("unsupported subscript " + _u(node))
        if isinstance(node, ast.Call) and not node.keywords:
            name = _call_name(node)
            a = node.args
            if name == "self.times" and not a:
                return ("(horizon ts)", "ints")
            if name == "len" and len(a) == 1:
                t, k = self.ex(a[0])
                if k not in ("ints", "vals"):
                    raise TranslationError("len of " + _u(a[0]))
                return ("%s.length" % t, "nat")
            if name == "bisect.bisect_left" and len(a) == 2:
                (l, kl), (x, kx) = self.ex(a[0]), self.ex(a[1])
                if kl != "ints" or kx not in ("int", "lit"):
                    raise TranslationError("bisect_left arguments: " + _u(node))
                return ("(bisectLeft %s %s)" % (l, x), "nat")
            if name == "np.array_equal" and len(a) == 2:
                (x, kx), (y, ky) = self.ex(a[0]), self.ex(a[1])
                if kx != "ints" or ky != "ints":
                    raise TranslationError("array_equal arguments: " + _u(node))
                return ("%s = %s" % (x, y), "prop")
            if isinstance(node.func, ast.Attribute) and node.func.attr == "issuperset" and len(a) == 1 \
                    and _call_name(node.func.value) == "set" and len(node.func.value.args) == 1:
                (x, kx), (y, ky) = self.ex(node.func.value.args[0]), self.ex(a[0])
                if kx != "ints" or ky != "ints":
                    raise TranslationError("issuperset arguments: " + _u(node))
                return ("(%s.all (fun t => %s.contains t)) = true" % (y, x), "prop")
            if name == "np.full" and len(a) == 2 and _attr_chain(a[1]) == ["np", "nan"]:
                s, ks = self.ex(a[0])
                if ks != "shape":
                    raise TranslationError("np.full shape: " + _u(node))
                return ("(nans %s)" % s, "vals")
            if name in self.env and self.env[name][1] == "stretchfn" and len(a) == 2:
                (v, kv), (p, kp) = self.ex(a[0]), self.ex(a[1])
                if kv != "vals" or kp != "nat":
                    raise TranslationError("stretch_values arguments: " + _u(node))
                return ("stretch ts.length %s %s" % (p, v), "optvals")
        raise TranslationError("unsupported expression " + _u(node))


# ---------------------------------------------------------------------------------------------
# IOMixin.set_timeseries: path-by-path execution producing a term of type Option (List XVal)


def _check_stretch_fn(fn):
    """the inner helper must be exactly: full-NaN array of the import length, slice assignment, return"""
    if [a.arg for a in fn.args.args] != ["values", "t_pos"] or fn.args.defaults:
        raise TranslationError("signature of stretch_values")
    body = [s for s in fn.body if not _is_doc(s)]
    if len(body) != 3:
        raise TranslationError("stretch_values is not (np.full; slice assignment; return)")
    s0, s1, s2 = body
    ok = isinstance(s0, ast.Assign) and len(s0.targets) == 1 and isinstance(s0.targets[0], ast.Name) \
        and _call_name(s0.value) == "np.full" and len(s0.value.args) == 2 \
        and _attr_chain(s0.value.args[0]) == ["self", "io", "times_sec", "shape"] \
        and _attr_chain(s0.value.args[1]) == ["np", "nan"]
    if not ok:
        raise TranslationError("stretch_values: first statement is not np.full(self.io.times_sec.shape, np.nan)")
    new = s0.targets[0].id
    ok = isinstance(s1, ast.Assign) and len(s1.targets) == 1 and isinstance(s1.targets[0], ast.Subscript) \
        and isinstance(s1.targets[0].value, ast.Name) and s1.targets[0].value.id == new \
        and isinstance(s1.value, ast.Name) and s1.value.id == "values" and isinstance(s1.targets[0].slice, ast.Slice)
    if ok:
        sl = s1.targets[0].slice
        up = sl.upper
        ok = sl.step is None and isinstance(sl.lower, ast.Name) and sl.lower.id == "t_pos" \
            and isinstance(up, ast.BinOp) and isinstance(up.op, ast.Add)
        if ok:
            parts = sorted([_u(up.left), _u(up.right)])
            ok = parts == ["len(values)", "t_pos"]
    if not ok:
        raise TranslationError("stretch_values: not `new[t_pos : t_pos + len(values)] = values`")
    if not (isinstance(s2, ast.Return) and isinstance(s2.value, ast.Name) and s2.value.id == new):
        raise TranslationError("stretch_values does not return the new array")


class _SetTs:
    def __init__(self):
        pass

    def run(self, stmts, env):
        """-> Lean term (Option (List XVal)) for the statement list executed to the end of the method"""
        if not stmts:
            raise TranslationError("set_timeseries: a path ends without storing the series")
        st, rest = stmts[0], stmts[1:]
        if _is_doc(st) or _is_logging(st):
            return self.run(rest, env)
        if isinstance(st, ast.Raise):
            return "none"
        if isinstance(st, ast.FunctionDef):
            if st.name != "stretch_values":
                raise TranslationError("unknown inner function " + st.name)
            _check_stretch_fn(st)
            env = dict(env)
            env["stretch_values"] = ("stretch_values", "stretchfn")
            return self.run(rest, env)
        if isinstance(st, ast.If):
            test = st.test
            # `if output: self.__output_timeseries.add(variable)` : no model state
            if isinstance(test, ast.Name) and test.id == "output" and not st.orelse and len(st.body) == 1 \
                    and "output_timeseries.add(variable)" in _u(st.body[0], 200):
                return self.run(rest, env)
            if isinstance(test, ast.Name) and test.id == "check_consistency":
                cond = "check = true"
            else:
                e = _Ex(env)
                cond, k = e.ex(test)
                if k != "prop" or e.head_of:
                    raise TranslationError("unsupported condition " + _u(test))
            a = self.run(list(st.body) + rest, env)
            b = self.run(list(st.orelse) + rest, env)
            return "(if %s then %s else %s)" % (cond, a, b)
        if isinstance(st, ast.Assign) and len(st.targets) == 1:
            tg = st.targets[0]
            if isinstance(tg, ast.Name):
                e = _Ex(env)
                term = e.ex(st.value)
                env2 = dict(env)
                env2[tg.id] = term
                cont = self.run(rest, env2)
                if e.head_of:
                    return "(match %s with | [] => none | t0 :: _ => %s)" % (e.head_of, cont)
                return cont
            # values[np.searchsorted(a, t)] = w   on a fresh all-NaN array
            if isinstance(tg, ast.Subscript) and isinstance(tg.value, ast.Name) and tg.value.id in env \
                    and _call_name(tg.slice) == "np.searchsorted" and len(tg.slice.args) == 2:
                base, kb = env[tg.value.id]
                e = _Ex(env)
                (a, ka), (t, kt), (w, kw) = e.ex(tg.slice.args[0]), e.ex(tg.slice.args[1]), e.ex(st.value)
                if kb != "vals" or not base.startswith("(nans ") or ka != "ints" or kt != "ints" or kw != "vals":
                    raise TranslationError("unsupported fancy assignment " + _u(st))
                env2 = dict(env)
                env2[tg.value.id] = ("(scatter %s %s %s %s)" % (a, t, w, base), "vals")
                return self.run(rest, env2)
        if isinstance(st, ast.Expr) and _call_name(st.value) == "self.io.set_timeseries":
            if rest:
                raise TranslationError("statements after the final io.set_timeseries")
            a = st.value.args
            if len(a) != 4 or st.value.keywords or _u(a[0]) != "variable" or _u(a[1]) != "self.io.datetimes" \
                    or _u(a[3]) != "ensemble_member" or not isinstance(a[2], ast.Name) or a[2].id not in env:
                raise TranslationError("unexpected arguments of the final io.set_timeseries: " + _u(st))
            term, k = env[a[2].id]
            if k == "optvals":
                return term
            if k == "vals":
                return "some %s" % term
            raise TranslationError("stored value has kind " + k)
        raise TranslationError("unsupported statement in set_timeseries: " + _u(st))


def translate_set_timeseries():
    fn = _find_method(_parse("optimization/io_mixin.py"), "IOMixin", "set_timeseries")
    names = [a.arg for a in fn.args.args]
    if names != ["self", "variable", "timeseries", "ensemble_member", "output", "check_consistency"]:
        raise TranslationError("unexpected signature of IOMixin.set_timeseries")
    body = [s for s in fn.body if not _is_doc(s)]
    # locate the `isinstance(timeseries, Timeseries)` split; statements before it are shared
    idx = None
    for i, s in enumerate(body):
        if isinstance(s, ast.If) and _u(s.test) == "isinstance(timeseries, Timeseries)":
            idx = i
            break
    if idx is None:
        raise TranslationError("no `if isinstance(timeseries, Timeseries)` in set_timeseries")
    pre, split, post = body[:idx], body[idx], body[idx + 1:]
    tr = _SetTs()
    ts_branch = tr.run(pre + list(split.body) + post, {"timeseries": ("timeseries", "tsobj")})
    arr_branch = tr.run(pre + list(split.orelse) + post, {"timeseries": ("values", "vals")})
    return ts_branch, arr_branch


# ---------------------------------------------------------------------------------------------
# the small ones


def translate_times():
    fn = _find_method(_parse("optimization/io_mixin.py"), "IOMixin", "times")
    env = {}
    body = [s for s in fn.body if not _is_doc(s)]
    for s in body[:-1]:
        if not (isinstance(s, ast.Assign) and len(s.targets) == 1 and isinstance(s.targets[0], ast.Name)):
            raise TranslationError("IOMixin.times: unsupported statement " + _u(s))
        env[s.targets[0].id] = _Ex(env).ex(s.value)
    if not body or not isinstance(body[-1], ast.Return):
        raise TranslationError("IOMixin.times does not end with return")
    t, k = _Ex(env).ex(body[-1].value)
    if k != "ints":
        raise TranslationError("IOMixin.times returns " + k)
    return t


def translate_history():
    fn = _find_method(_parse("optimization/io_mixin.py"), "IOMixin", "history")
    env, end = {}, None
    for s in fn.body:
        if isinstance(s, ast.Assign) and len(s.targets) == 1 and isinstance(s.targets[0], ast.Name) \
                and s.targets[0].id == "end_index":
            env["end_index"] = _Ex({}).ex(s.value)
            end = env["end_index"]
    if end is None or end[1] != "nat":
        raise TranslationError("IOMixin.history: no `end_index = <index>`")
    found = []
    for node in ast.walk(fn):
        if isinstance(node, ast.Assign) and len(node.targets) == 1 and isinstance(node.targets[0], ast.Subscript) \
                and _u(node.targets[0].value) == "history":
            found.append(node)
    if len(found) != 1 or _call_name(found[0].value) != "Timeseries" or len(found[0].value.args) != 2:
        raise TranslationError("IOMixin.history: not exactly one `history[variable] = Timeseries(a, b)`")
    # `times, values = self.io.get_timeseries_sec(variable, ensemble_member)` precedes it
    src = [n for n in ast.walk(fn) if isinstance(n, ast.Assign) and _call_name(n.value) == "self.io.get_timeseries_sec"
           and isinstance(n.targets[0], ast.Tuple) and [_u(e) for e in n.targets[0].elts] == ["times", "values"]
           and [_u(a) for a in n.value.args] == ["variable", "ensemble_member"]]
    if len(src) != 1:
        raise TranslationError("IOMixin.history: series not read with get_timeseries_sec(variable, ensemble_member)")
    env2 = dict(env)
    env2["times"] = ("ts", "ints")
    env2["values"] = ("vals", "vals")
    a, ka = _Ex(env2).ex(found[0].value.args[0])
    b, kb = _Ex(env2).ex(found[0].value.args[1])
    if ka != "ints" or kb != "vals":
        raise TranslationError("IOMixin.history: Timeseries arguments")
    return "(%s, %s)" % (a, b)


def translate_datetime_to_sec():
    fn = _find_method(_parse("data/storage.py"), "DataStore", "datetime_to_sec")
    if [a.arg for a in fn.args.args] != ["d", "t0"]:
        raise TranslationError("signature of datetime_to_sec")
    body = [s for s in fn.body if not _is_doc(s)]
    if len(body) != 1 or not isinstance(body[0], ast.If) or _u(body[0].test) != "hasattr(d, '__iter__')":
        raise TranslationError("datetime_to_sec is not `if hasattr(d, '__iter__'): … else: …`")
    br = body[0].body
    if len(br) != 1 or not isinstance(br[0], ast.Return) or _call_name(br[0].value) != "np.array" \
            or len(br[0].value.args) != 1 or not isinstance(br[0].value.args[0], ast.ListComp):
        raise TranslationError("datetime_to_sec: iterable branch is not `return np.array([… for t in d])`")
    lc = br[0].value.args[0]
    if len(lc.generators) != 1 or lc.generators[0].ifs or _u(lc.generators[0].iter) != "d" \
            or not isinstance(lc.generators[0].target, ast.Name):
        raise TranslationError("datetime_to_sec: unsupported comprehension")
    v = lc.generators[0].target.id
    if _u(lc.elt) != "(%s - t0).total_seconds()" % v:
        raise TranslationError("datetime_to_sec: element is not (t - t0).total_seconds(): " + _u(lc.elt))
    return "d.map (fun %s => %s - t0)" % (v, v)


def translate_grow():
    fn = _find_method(_parse("data/storage.py"), "DataStore", "__update_ensemble_size")
    loops = [s for s in fn.body if isinstance(s, (ast.While, ast.For)) or
             (isinstance(s, ast.Expr) and "timeseries_values" in _u(s, 300)) or
             (isinstance(s, ast.Assign) and "timeseries_values" in _u(s, 300))]
    mine = [s for s in loops if "timeseries_values" in _u(s, 400)]
    if len(mine) != 1 or not isinstance(mine[0], ast.While):
        raise TranslationError("__update_ensemble_size: the per-member stores are not grown by one `while` loop")
    w = mine[0]
    if _u(w.test) != "ensemble_size > len(self.__timeseries_values)" or w.orelse or len(w.body) != 1 \
            or _u(w.body[0]) != "self.__timeseries_values.append(AliasDict(self.__accessor.alias_relation))":
        raise TranslationError("__update_ensemble_size: loop is not `while n > len(L): L.append(AliasDict(rel))`: "
                               + _u(w, 160))
    return "st ++ List.replicate (n - st.length) []"


def _listcomp_stamps(node, times_name, ref_ok):
    """[<ref> + timedelta(seconds=s) for s in <times>] -> lean map over (horizon ts)"""
    if not isinstance(node, ast.ListComp) or len(node.generators) != 1 or node.generators[0].ifs \
            or not isinstance(node.generators[0].target, ast.Name) or _u(node.generators[0].iter) != times_name:
        raise TranslationError("stamp list is not a comprehension over `%s`: %s" % (times_name, _u(node)))
    s = node.generators[0].target.id
    e = node.elt
    if not (isinstance(e, ast.BinOp) and isinstance(e.op, ast.Add)):
        raise TranslationError("stamp is not a sum: " + _u(e))
    l, r = e.left, e.right
    if _u(l).startswith("timedelta("):
        l, r = r, l
        order = "s + ref"
    else:
        order = "ref + s"
    if " ".join(_u(l, 300).split()) not in ref_ok:
        raise TranslationError("stamp base is not the reference datetime: " + _u(l, 200))
    if _u(r) != "timedelta(seconds=%s)" % s:
        raise TranslationError("stamp offset is not timedelta(seconds=%s): %s" % (s, _u(r)))
    return "(horizon ts).map (fun s => %s)" % order


def _times_is_horizon(fn, name="times"):
    ok = [s for s in ast.walk(fn) if isinstance(s, ast.Assign) and len(s.targets) == 1 and _u(s.targets[0]) == name]
    if len(ok) != 1 or _u(ok[0].value) != "self.times()":
        raise TranslationError("`%s` is not assigned exactly once as self.times()" % name)


def translate_csv_stamps():
    fn = _find_method(_parse("optimization/csv_mixin.py"), "CSVMixin", "write")
    _times_is_horizon(fn)
    tgt = [s for s in ast.walk(fn) if isinstance(s, ast.Assign) and len(s.targets) == 1 and _u(s.targets[0]) == "data['time']"]
    if len(tgt) != 1:
        raise TranslationError("CSVMixin.write: not exactly one assignment of data['time']")
    return _listcomp_stamps(tgt[0].value, "times", ["self.io.reference_datetime"])


def translate_pi_write():
    fn = _find_method(_parse("optimization/pi_mixin.py"), "PIMixin", "write")
    _times_is_horizon(fn)
    tgt = [s for s in ast.walk(fn) if isinstance(s, ast.Assign) and len(s.targets) == 1
           and _u(s.targets[0]) == "self.__timeseries_export.times"]
    if len(tgt) != 1:
        raise TranslationError("PIMixin.write: not exactly one assignment of the export times")
    stamps = _listcomp_stamps(
        tgt[0].value, "times",
        ["self.__timeseries_import.times[self.__timeseries_import.forecast_index]", "self.io.reference_datetime"])
    # time-step detection
    ifs = [s for s in fn.body if isinstance(s, ast.If) and any(
        isinstance(x, ast.Assign) and _u(x.targets[0]) == "dt" for x in s.body)]
    if len(ifs) != 1:
        raise TranslationError("PIMixin.write: not exactly one `if …: dt = … else: dt = None`")
    s = ifs[0]
    if _u(s.test) != "len(set(times[1:] - times[:-1])) == 1":
        raise TranslationError("PIMixin.write: equidistance test is not len(set(times[1:] - times[:-1])) == 1: "
                               + _u(s.test, 120))
    if len(s.body) != 1 or _u(s.body[0]) != "dt = timedelta(seconds=times[1] - times[0])" \
            or len(s.orelse) != 1 or _u(s.orelse[0]) != "dt = None":
        raise TranslationError("PIMixin.write: dt branches: " + _u(s, 200))
    dt = "if (diffs hor).eraseDups.length = 1 then some (hor.getD 1 0 - hor.getD 0 0) else none"
    # and it is this dt that is handed to the export object
    use = [x for x in ast.walk(fn) if isinstance(x, ast.Assign) and _u(x.targets[0]) == "self.__timeseries_export.dt"]
    if len(use) != 1 or _u(use[0].value) != "dt":
        raise TranslationError("PIMixin.write: export dt is not the detected dt")
    return stamps, dt


# ---------------------------------------------------------------------------------------------

HEAD = """import RtcVerif.Model.C12
import RtcVerif.Proofs.C12Ref
/-!
GENERATED on every run of the C12 check by harness/translate_c12.py from the tree under check
(storage.py, optimization/io_mixin.py, csv_mixin.py, pi_mixin.py).  Do not edit.  The `…Gen`
definitions are the source read through the construct table in the translator's header; the
theorems tie them to the model functions the C12 theorems are about.
-/
set_option linter.unusedVariables false
set_option linter.unreachableTactic false
set_option linter.unusedTactic false
namespace RtcVerif.Gen
open RtcVerif RtcVerif.C12
"""

PIECES = {
    "timesMap": """
def timesMapGen (d : List Int) (t0 : Int) : List Int := %(t)s

theorem timesMapGen_eq_model (d : List Int) (t0 : Int) (h : t0 ∈ d) :
    C12.timesSec d t0 = some (timesMapGen d t0) := by
  unfold C12.timesSec timesMapGen
  rw [if_pos h]
""",
    "grow": """
def growGen (st : Store) (n : Nat) : Store := %(t)s

theorem growGen_eq_model (st : Store) (n : Nat) : growGen st n = C12.grow st n := rfl
""",
    "horizon": """
def horizonGen (ts : List Int) : List Int := %(t)s

theorem horizonGen_eq_model (ts : List Int) : horizonGen ts = C12.horizon ts := rfl
""",
    "history": """
def historyGen (ts : List Int) (vals : List XVal) : List Int × List XVal := %(t)s

theorem historyGen_eq_model (ts : List Int) (vals : List XVal) : historyGen ts vals = C12.history ts vals := rfl
""",
    "setTs": """
def setTsGen (ts : List Int) (arg : Arg) (check : Bool) : Option (List XVal) :=
  match arg with
  | .ts times values => %(a)s
  | .arr values => %(b)s

theorem setTsGen_eq_model (ts : List Int) (arg : Arg) (check : Bool) :
    setTsGen ts arg check = C12.setTs ts arg check := by
  have h : setTsGen ts arg check = C12.setTsRef ts arg check := by
    first
      | rfl
      | (cases arg <;> rfl)
      | (cases arg <;> cases check <;> simp only [setTsGen, C12.setTsRef] <;> rfl)
  rw [h, C12.setTsRef_eq]
""",
    "csvStamps": """
def csvStampsGen (ref : Int) (ts : List Int) : List Int := %(t)s

theorem csvStampsGen_eq_model (ref : Int) (ts : List Int) : csvStampsGen ref ts = C12.exportStamps ref ts := by
  unfold csvStampsGen C12.exportStamps
  apply List.map_congr_left
  intro s _
  omega
""",
    "piWrite": """
def piStampsGen (ref : Int) (ts : List Int) : List Int := %(t)s

theorem piStampsGen_eq_model (ref : Int) (ts : List Int) : piStampsGen ref ts = C12.exportStamps ref ts := by
  unfold piStampsGen C12.exportStamps
  apply List.map_congr_left
  intro s _
  omega

def piDtGen (hor : List Int) : Option Int := %(dt)s

theorem piDtGen_eq_model (hor : List Int) : piDtGen hor = C12.exportDt hor := rfl
""",
}


def gen_io_axis(c):
    """(re)generate lean/RtcVerif/Gen/IoAxis.lean; returns the extra obligation spec for c.prove"""
    gdir = os.path.join(LEAN_DIR, "RtcVerif", "Gen")
    os.makedirs(gdir, exist_ok=True)
    path = os.path.join(gdir, "IoAxis.lean")
    text, thms = HEAD, []

    def piece(name, what, fn, fmt, theorems):
        nonlocal text
        try:
            r = fn()
        except TranslationError as e:
            c.broken.append(("translator: " + what, str(e)))
            return
        except Exception as e:  # the source no longer parses / file missing
            c.broken.append(("translator: " + what, "%s: %s" % (type(e).__name__, e)))
            return
        text += PIECES[name] % fmt(r)
        thms.extend(theorems)

    piece("timesMap", "DataStore.datetime_to_sec", translate_datetime_to_sec, lambda r: {"t": r}, ["timesMapGen_eq_model"])
    piece("grow", "DataStore.__update_ensemble_size", translate_grow, lambda r: {"t": r}, ["growGen_eq_model"])
    piece("horizon", "IOMixin.times", translate_times, lambda r: {"t": r}, ["horizonGen_eq_model"])
    piece("history", "IOMixin.history", translate_history, lambda r: {"t": r}, ["historyGen_eq_model"])
    piece("setTs", "IOMixin.set_timeseries", translate_set_timeseries, lambda r: {"a": r[0], "b": r[1]},
          ["setTsGen_eq_model"])
    piece("csvStamps", "CSVMixin.write", translate_csv_stamps, lambda r: {"t": r}, ["csvStampsGen_eq_model"])
    piece("piWrite", "PIMixin.write", translate_pi_write, lambda r: {"t": r[0], "dt": r[1]},
          ["piStampsGen_eq_model", "piDtGen_eq_model"])
    text += "\nend RtcVerif.Gen\n"
    old = open(path).read() if os.path.exists(path) else None
    if old != text:
        tmp = path + ".tmp%d" % os.getpid()
        with open(tmp, "w") as f:
            f.write(text)
        os.replace(tmp, path)
    return [("RtcVerif.Gen.IoAxis", "RtcVerif.Gen", thms)] if thms else []
