"""
Source-to-Lean translation of the small methods of `AliasDict`
($RTC_REPO/src/rtctools/_internal/alias_tools.py) -- a second tie between the C13 model and the
code besides the correspondence check.  On every run of C13 the methods are parsed with `ast`,
executed symbolically path by path and written to `lean/RtcVerif/Gen/AliasDict.lean` as
`csignedGen / setGen / getGen / delGen / containsGen / updateGen / getDGen / keysGen / valuesGen /
itemsGen / lenGen` together with theorems `...Gen_eq_model` stating equality with the functions of
`RtcVerif/Model/C13.lean` (instantiated at the concrete value type `Val`) that the C13 property
theorems are about.  A change of the source breaks one of these proof obligations, or the
translator rejects it (`c.broken`), and the check goes on to its failing-input search.

Paths: the sign of the key is +1 or -1 (pymoca's contract for `canonical_signed`), the value is an
atom (anything with a unary minus), a tuple or a list; every method is executed once per
(sign, value kind) and conditions are evaluated on that path.

Python construct                                    -> model term
--------------------------------------------------------------------------------------------------
self.__relation.canonical_signed(key)               -> `r key`  (a pair name x sign)
self.__signed_values                                 -> `sv` (= `a.signedValues`); `if` on it -> match
a, b = <pair>        /  return a, b                  -> `.1`, `.2`  /  `(a, b)`
1 / -1 in a sign position                           -> `Sign.pos` / `Sign.neg`
self.__canonical_signed(key)                        -> `csignedGen r a.signedValues key` (translated method)
sign <cmp> <int> , <int> <cmp> sign , not/and/or    -> evaluated with sign = +1 / -1 on the path
isinstance(val, tuple) / isinstance(val, list)      -> case split on `Val.tup` / `Val.list` / `Val.atom`
assert len(val) == N   (val a tuple)                -> pattern `.tup [x0, ..., x(N-1)]`, any other length
                                                       `.error .assertion`; N is the representation
                                                       invariant of stored tuples used by `__getitem__`
val[i]  (constant i, tuple of known length)         -> `xi` on a path where side i is present (`some xi`),
                                                       `None` on a path where it is missing (`none`); a tuple of
                                                       known length N is executed on all 2^N present/missing paths
None                                                -> a missing side (`none`), only as a tuple element
e is None / e is not None  (e a tuple element)      -> evaluated on the path
-e  (e a missing side)                              -> rejected: `-None` is a TypeError at run time (finding F56)
-e  (e an atom)   /  -val  (val an atom)            -> `Atom.neg e`  /  `.atom (Atom.neg x)`
(e0, e1, ...)                                       -> `.tup [some e0, none, ...]` (each ei an atom or None)
[-x for x in val] / [x for x in val]  (val a list)  -> `.list (xs.map Atom.neg)` / `.list xs`
X if c else Y ,  if / elif / else                   -> the branch taken on the path
self.__d[var] = e                                   -> `a.d.set var e`
self.__d[var]   (read)                              -> `a.d.get var`, `none` -> `.error .keyError`
del self.__d[var]                                   -> `if a.d.has var then a.d.del var else .error .keyError`
var in self.__d                                     -> `a.d.has var`
for k, v in other.items(): self[k] = v              -> fold of `setGen` over the item list (stops at an error)
if key in self: return self[key] else: return d     -> `if containsGen .. then getGen .. else .ok d`
self.__d.keys() / .values() / .items() / len(self.__d) -> `a.d.keys` / `a.d.values` / `a.d` / `a.d.length`
anything else                                       -> rejected (TranslationError)
"""
import ast
import os

from .common import LEAN_DIR, REPO

SRC = os.path.join("src", "rtctools", "_internal", "alias_tools.py")


class TranslationError(Exception):
    pass


def _methods(tree):
    for node in ast.walk(tree):
        if isinstance(node, ast.ClassDef) and node.name == "AliasDict":
            return {i.name: i for i in node.body if isinstance(i, ast.FunctionDef)}
    raise TranslationError("class AliasDict not found")


def _is_self_attr(node, *names):
    """self.__x (any of the given private names, mangled or not)"""
    return (isinstance(node, ast.Attribute) and isinstance(node.value, ast.Name) and node.value.id == "self"
            and node.attr in names)


def _dump(node):
    return ast.dump(node)[:110]


# symbolic values ---------------------------------------------------------------------------------


class Name:  # a variable name (dictionary key)
    def __init__(self, lean):
        self.lean = lean


class SignT:  # a sign; `conc` = +1 / -1 when fixed on the path
    def __init__(self, lean, conc=None):
        self.lean, self.conc = lean, conc


class Pair:
    def __init__(self, a, b):
        self.a, self.b = a, b


class AtomT:  # something with a unary minus
    def __init__(self, lean):
        self.lean = lean


class NoneT:  # Python's None as a tuple element (a missing side)
    lean = "none"


class WholeVal:  # the value argument / the stored value
    def __init__(self, kind, elems=None):
        self.kind, self.elems = kind, elems  # kind: atom | tup | list ; elems: tuple element terms or None
        self.syms = None  # symbolic values of the tuple elements (AtomT / NoneT), parallel to elems

    def fill(self, n, nones=None):
        """a tuple of known length n; nones[i] = side i is missing on this path"""
        nones = nones if nones is not None else (False,) * n
        self.syms = [NoneT() if nones[i] else AtomT("x%d" % i) for i in range(n)]
        self.elems = ["none" if nones[i] else "some x%d" % i for i in range(n)]

    def lean(self):
        if self.kind == "atom":
            return "(.atom x)"
        if self.kind == "list":
            return "(.list xs)"
        if self.elems is None:
            return "(.tup xs)"
        return "(.tup [%s])" % ", ".join(self.elems)


class ValT:  # a constructed value
    def __init__(self, lean):
        self.lean = lean


class Stop(Exception):
    def __init__(self, outcome):
        self.outcome = outcome


class Exec:
    """one path through one method"""

    def __init__(self, tr, sign=None, val=None, lenok=True, tuple_len=None, sv=None, nones=None):
        self.tr, self.sign, self.val, self.lenok, self.tuple_len, self.sv = tr, sign, val, lenok, tuple_len, sv
        self.nones = nones
        self.env = {}
        self.effects = []
        self.asserted_len = None

    # expressions
    def ev(self, n):
        if isinstance(n, ast.Name):
            if n.id not in self.env:
                raise TranslationError("unknown name " + n.id)
            return self.env[n.id]
        if isinstance(n, ast.Constant) and isinstance(n.value, bool):
            return n.value
        if isinstance(n, ast.Constant) and n.value is None:
            return NoneT()
        if isinstance(n, ast.Constant) and isinstance(n.value, int):
            return n.value
        if isinstance(n, ast.UnaryOp) and isinstance(n.op, ast.USub):
            v = self.ev(n.operand)
            if isinstance(v, int) and not isinstance(v, bool):
                return -v
            if isinstance(v, AtomT):
                return AtomT("(Atom.neg %s)" % v.lean)
            if isinstance(v, NoneT):
                raise TranslationError("unary minus applied to a missing (None) tuple side: TypeError at run time (F56)")
            if isinstance(v, WholeVal) and v.kind == "atom":
                return ValT("(.atom (Atom.neg x))")
            raise TranslationError("unary minus on a non-atom (%s)" % type(v).__name__)
        if isinstance(n, ast.UnaryOp) and isinstance(n.op, ast.Not):
            return not self.truth(self.ev(n.operand))
        if isinstance(n, ast.BoolOp):
            vals = [self.truth(self.ev(v)) for v in n.values]
            return all(vals) if isinstance(n.op, ast.And) else any(vals)
        if isinstance(n, ast.Compare) and len(n.ops) == 1:
            return self.compare(n.left, n.ops[0], n.comparators[0])
        if isinstance(n, ast.IfExp):
            return self.ev(n.body) if self.truth(self.ev(n.test)) else self.ev(n.orelse)
        if isinstance(n, ast.Tuple):
            elts = [self.ev(e) for e in n.elts]
            if len(elts) == 2 and isinstance(elts[0], Name):
                b = elts[1]
                if isinstance(b, int) and b in (1, -1):
                    b = SignT("Sign.pos" if b == 1 else "Sign.neg", b)
                if isinstance(b, SignT):
                    return Pair(elts[0], b)
            if all(isinstance(e, (AtomT, NoneT)) for e in elts):
                return ValT("(.tup [%s])" % ", ".join("none" if isinstance(e, NoneT) else "some " + e.lean for e in elts))
            raise TranslationError("unsupported tuple display " + _dump(n))
        if isinstance(n, ast.ListComp):
            return self.listcomp(n)
        if isinstance(n, ast.Subscript):
            return self.subscript(n)
        if isinstance(n, ast.Call):
            return self.call(n)
        if _is_self_attr(n, "__d", "_AliasDict__d"):
            return "@d"
        if _is_self_attr(n, "__signed_values", "_AliasDict__signed_values"):
            if self.sv is None:
                raise TranslationError("signed_values read outside __canonical_signed")
            return self.sv
        raise TranslationError("unsupported expression " + _dump(n))

    def truth(self, v):
        if isinstance(v, bool):
            return v
        raise TranslationError("condition is not decided on the path (%s)" % type(v).__name__)

    def compare(self, left, op, right):
        l, r = self.ev(left), self.ev(right)
        # `e is None` / `e is not None` for a tuple element
        if isinstance(op, (ast.Is, ast.IsNot)) and isinstance(r, NoneT) and isinstance(l, (AtomT, NoneT)):
            return isinstance(l, NoneT) == isinstance(op, ast.Is)
        # membership in the private dict
        if isinstance(op, ast.In) and isinstance(l, Name) and r == "@d":
            return ("has", l.lean)
        if isinstance(op, ast.In) and isinstance(l, Name) and r == "@self":
            return ("contains", l.lean)

        def num(x):
            if isinstance(x, SignT) and x.conc is not None:
                return x.conc
            if isinstance(x, int) and not isinstance(x, bool):
                return x
            raise TranslationError("comparison of something that is neither the path sign nor an integer")

        a, b = num(l), num(r)
        table = {ast.Lt: a < b, ast.LtE: a <= b, ast.Gt: a > b, ast.GtE: a >= b, ast.Eq: a == b, ast.NotEq: a != b}
        for k, v in table.items():
            if isinstance(op, k):
                return v
        raise TranslationError("unsupported comparison " + type(op).__name__)

    def listcomp(self, n):
        if len(n.generators) != 1 or n.generators[0].ifs or not isinstance(n.generators[0].target, ast.Name):
            raise TranslationError("unsupported comprehension")
        it = self.ev(n.generators[0].iter)
        if not (isinstance(it, WholeVal) and it.kind == "list"):
            raise TranslationError("comprehension over something that is not a list value")
        var = n.generators[0].target.id
        e = n.elt
        if isinstance(e, ast.Name) and e.id == var:
            return ValT("(.list xs)")
        if isinstance(e, ast.UnaryOp) and isinstance(e.op, ast.USub) and isinstance(e.operand, ast.Name) and e.operand.id == var:
            return ValT("(.list (xs.map Atom.neg))")
        raise TranslationError("unsupported comprehension element " + _dump(e))

    def subscript(self, n):
        base = n.value
        if _is_self_attr(base, "__d", "_AliasDict__d"):
            k = self.ev(n.slice)
            if not isinstance(k, Name):
                raise TranslationError("private dict indexed with a non-name")
            if self.val is None:
                raise TranslationError("read of the private dict on a path without stored value")
            self.effects.append(("read", k.lean))
            return self.val
        if isinstance(base, ast.Name) and base.id == "self":
            k = self.ev(n.slice)
            if isinstance(k, Name):
                return ("self-get", k.lean)
        v = self.ev(base)
        if isinstance(v, WholeVal) and v.kind == "tup" and isinstance(n.slice, ast.Constant) and isinstance(n.slice.value, int):
            if v.elems is None or not 0 <= n.slice.value < len(v.elems):
                raise TranslationError("tuple element %r read without a known tuple length" % n.slice.value)
            return v.syms[n.slice.value]
        raise TranslationError("unsupported subscript " + _dump(n))

    def call(self, n):
        f = n.func
        if isinstance(f, ast.Name) and f.id == "isinstance" and len(n.args) == 2 and isinstance(n.args[1], ast.Name):
            v = self.ev(n.args[0])
            if not isinstance(v, WholeVal) or n.args[1].id not in ("tuple", "list"):
                raise TranslationError("unsupported isinstance test " + _dump(n))
            return v.kind == {"tuple": "tup", "list": "list"}[n.args[1].id]
        if isinstance(f, ast.Name) and f.id == "len" and len(n.args) == 1:
            if _is_self_attr(n.args[0], "__d", "_AliasDict__d"):
                return ValT("@len")
            v = self.ev(n.args[0])
            if isinstance(v, WholeVal) and v.kind == "tup":
                return ("len", v)
            raise TranslationError("len of something that is not a tuple value")
        if isinstance(f, ast.Attribute) and f.attr == "canonical_signed" and _is_self_attr(
                f.value, "__relation", "_AliasDict__relation") and len(n.args) == 1:
            k = self.ev(n.args[0])
            if not isinstance(k, Name):
                raise TranslationError("canonical_signed of a non-name")
            return Pair(Name("(r %s).1" % k.lean), SignT("(r %s).2" % k.lean))
        if _is_self_attr(f, "__canonical_signed", "_AliasDict__canonical_signed") and len(n.args) == 1:
            k = self.ev(n.args[0])
            if not isinstance(k, Name):
                raise TranslationError("__canonical_signed of a non-name")
            if self.sign is None:
                raise TranslationError("__canonical_signed called on a path without a sign")
            cs = "(csignedGen r a.signedValues %s)" % k.lean
            return Pair(Name(cs + ".1"), SignT(cs + ".2", self.sign))
        if isinstance(f, ast.Attribute) and _is_self_attr(f.value, "__d", "_AliasDict__d") and not n.args \
                and f.attr in ("keys", "values", "items"):
            return ValT("@" + f.attr)
        if isinstance(f, ast.Name) and f.id == "iter" and len(n.args) == 1 and _is_self_attr(n.args[0], "__d", "_AliasDict__d"):
            return ValT("@keys")
        raise TranslationError("unsupported call " + _dump(n))

    # statements
    def run(self, fn):
        try:
            self.block(fn.body)
        except Stop as s:
            return s.outcome
        return ("none",)

    def block(self, stmts):
        for st in stmts:
            self.stmt(st)

    def stmt(self, st):
        if isinstance(st, ast.Expr) and isinstance(st.value, ast.Constant):
            return
        if isinstance(st, ast.Assert):
            t = st.test
            if isinstance(t, ast.Compare) and len(t.ops) == 1 and isinstance(t.ops[0], ast.Eq) \
                    and isinstance(t.comparators[0], ast.Constant) and isinstance(t.comparators[0].value, int):
                l = self.ev(t.left)
                if isinstance(l, tuple) and l[0] == "len" and l[1].elems is None:
                    n = t.comparators[0].value
                    self.asserted_len = n
                    if not self.lenok:
                        raise Stop(("error", "assertion"))
                    if self.nones is not None and len(self.nones) != n:
                        raise TranslationError("asserted tuple length differs between paths")
                    l[1].fill(n, self.nones)
                    return
            raise TranslationError("unsupported assert " + _dump(t))
        if isinstance(st, ast.Assign) and len(st.targets) == 1:
            tgt = st.targets[0]
            if isinstance(tgt, ast.Tuple) and len(tgt.elts) == 2 and all(isinstance(e, ast.Name) for e in tgt.elts):
                v = self.ev(st.value)
                if not isinstance(v, Pair):
                    raise TranslationError("tuple assignment from a non-pair")
                self.env[tgt.elts[0].id], self.env[tgt.elts[1].id] = v.a, v.b
                return
            if isinstance(tgt, ast.Name):
                self.env[tgt.id] = self.ev(st.value)
                return
            if isinstance(tgt, ast.Subscript) and _is_self_attr(tgt.value, "__d", "_AliasDict__d"):
                k, v = self.ev(tgt.slice), self.ev(st.value)
                if not isinstance(k, Name):
                    raise TranslationError("store under a non-name")
                if isinstance(v, WholeVal):
                    v = ValT(v.lean())
                if not isinstance(v, ValT):
                    raise TranslationError("stored value is not a value term (%s)" % type(v).__name__)
                self.effects.append(("store", k.lean, v.lean))
                return
            raise TranslationError("unsupported assignment target " + _dump(tgt))
        if isinstance(st, ast.Delete) and len(st.targets) == 1 and isinstance(st.targets[0], ast.Subscript) \
                and _is_self_attr(st.targets[0].value, "__d", "_AliasDict__d"):
            k = self.ev(st.targets[0].slice)
            if not isinstance(k, Name):
                raise TranslationError("delete of a non-name")
            self.effects.append(("delete", k.lean))
            return
        if isinstance(st, ast.If):
            return self.block(st.body if self.truth(self.ev(st.test)) else st.orelse)
        if isinstance(st, ast.Return) and st.value is not None:
            v = self.ev(st.value)
            raise Stop(("return", v))
        raise TranslationError("unsupported statement " + _dump(st))



def _none_patterns(n):
    import itertools

    return list(itertools.product((False, True), repeat=n))


def _run_paths(fn, kinds, tuple_len=None, need_val_arg=True):
    """execute `fn` on every (sign, kind) path; returns {(sign, kind, lenok, nones): (outcome, exec)};
    `nones` = None for non-tuples / rejected tuples, else the present/missing pattern of the sides.
    For `__setitem__` (tuple_len unknown) the all-present path is run first to learn the asserted
    length, then every pattern of that length."""
    out = {}
    args = [a.arg for a in fn.args.args]

    def one(sign, kind, lenok, nones):
        ex = Exec(None, sign=sign, lenok=lenok, tuple_len=tuple_len, nones=nones)
        wv = WholeVal(kind)
        if kind == "tup" and tuple_len is not None:
            wv.fill(tuple_len, nones)
        ex.env[args[1]] = Name("k")
        if need_val_arg:
            ex.env[args[2]] = wv
        else:
            ex.val = wv
        return (_exec_with_last(ex, fn), ex)

    for sign in (1, -1):
        for kind in kinds:
            if kind != "tup":
                out[(sign, kind, True, None)] = one(sign, kind, True, None)
                continue
            if tuple_len is None:
                first = one(sign, "tup", True, None)
                n = first[1].asserted_len
                out[(sign, "tup", False, None)] = one(sign, "tup", False, None)
                if n is None:
                    out[(sign, "tup", True, None)] = first
                    continue
            else:
                n = tuple_len
            for nones in _none_patterns(n):
                out[(sign, "tup", True, nones)] = one(sign, "tup", True, nones)
    return out


def _exec_with_last(ex, fn):
    """run the whole method on the path; the outcome is the return value plus ALL effects on the
    private dict (nothing is skipped)"""
    ret = ex.run(fn)
    eff = [e for e in ex.effects if e[0] != "read"]
    if ret[0] == "none" and len(eff) == 1:
        return eff[0]
    if ret[0] == "none" and not eff:
        return ("none",)
    if ret[0] in ("return", "error") and not eff:
        return ret
    raise TranslationError("more than one effect on the private dict, or an effect together with a return")


SIGN = {1: ".pos", -1: ".neg"}
PAT = {"atom": ".atom x", "list": ".list xs"}


def _val_cases(paths, mode, tuple_len):
    """Lean match arms `| sign, pattern => Except Err Val` from the path outcomes"""
    arms = []
    keyterms = set()

    def arm(sign, kind, nones, n):
        outcome, ex = paths[(sign, kind, True, nones)]
        if mode == "set":
            if outcome[0] != "store":
                raise TranslationError("__setitem__: path (sign %+d, %s) does not end in a store: %r" % (sign, kind, outcome[:1]))
            keyterms.add(outcome[1])
            term = outcome[2]
        else:
            if outcome[0] != "return" or not isinstance(outcome[1], (ValT, WholeVal)):
                raise TranslationError("__getitem__: path (sign %+d, %s) does not return a value" % (sign, kind))
            reads = [e for e in ex.effects if e[0] == "read"]
            if len(reads) != 1:
                raise TranslationError("__getitem__: expected exactly one read of the private dict")
            keyterms.add(reads[0][1])
            v = outcome[1]
            term = v.lean if isinstance(v, ValT) else v.lean()
        if kind == "tup":
            if n is None:
                pat = ".tup xs"
            else:
                pat = ".tup [%s]" % ", ".join("none" if nones[i] else "some x%d" % i for i in range(n))
        else:
            pat = PAT[kind]
        arms.append("  | %s, %s => .ok %s" % (SIGN[sign], pat, term))

    for kind in ("atom", "tup", "list"):
        if kind != "tup":
            for sign in (1, -1):
                arm(sign, kind, None, None)
            continue
        if mode == "set":
            ns = {paths[(s, "tup", False, None)][1].asserted_len for s in (1, -1)}
            if len(ns) != 1:
                raise TranslationError("__setitem__: the asserted tuple length depends on the sign")
            n = ns.pop()
        else:
            n = tuple_len
        for sign in (1, -1):
            for nones in (_none_patterns(n) if n is not None else [None]):
                arm(sign, "tup", nones, n)
        if mode == "set":
            if n is not None:
                bad = {paths[(s, "tup", False, None)][0] for s in (1, -1)}
                if bad != {("error", "assertion")}:
                    raise TranslationError("__setitem__: tuples of another length are not rejected on every path")
                arms.append("  | _, .tup _ => .error .assertion")
        elif tuple_len is not None:
            arms.append("  | _, .tup _ => .error .assertion  -- unreachable: __setitem__ stores %d-tuples only" % tuple_len)
    if len(keyterms) != 1:
        raise TranslationError("paths use different dictionary keys: %r" % sorted(keyterms))
    return "\n".join(arms), keyterms.pop()


def translate(path):
    tree = ast.parse(open(path).read())
    ms = _methods(tree)
    pieces, failed = {}, []

    def piece(name, fn):
        try:
            if name not in ms and name != "csigned":
                raise TranslationError("method not found")
            pieces[name] = fn()
        except TranslationError as e:
            failed.append((name, str(e)))
        except RecursionError:
            failed.append((name, "recursion"))

    # __canonical_signed -------------------------------------------------------------------------
    def csigned():
        fn = ms.get("__canonical_signed") or ms.get("_AliasDict__canonical_signed")
        if fn is None:
            raise TranslationError("method not found")
        res = {}
        for sv in (True, False):
            ex = Exec(None, sv=sv)
            ex.env[fn.args.args[1].arg] = Name("k")
            out = _exec_with_last(ex, fn)
            if out[0] != "return" or not isinstance(out[1], Pair):
                raise TranslationError("does not return a (name, sign) pair")
            res[sv] = "(%s, %s)" % (out[1].a.lean, out[1].b.lean)
        return res

    piece("csigned", csigned)

    tuple_len = [None]

    def setitem():
        paths = _run_paths(ms["__setitem__"], ("atom", "tup", "list"))
        tuple_len[0] = paths[(1, "tup", False, None)][1].asserted_len
        return _val_cases(paths, "set", None)

    piece("__setitem__", setitem)

    def getitem():
        if "__setitem__" not in pieces:
            raise TranslationError("needs the tuple length asserted by __setitem__")
        paths = _run_paths(ms["__getitem__"], ("atom", "tup", "list"), tuple_len=tuple_len[0], need_val_arg=False)
        return _val_cases(paths, "get", tuple_len[0])

    piece("__getitem__", getitem)

    def simple(name, want):
        fn = ms[name]
        res = set()
        for sign in (1, -1):
            ex = Exec(None, sign=sign)
            ex.env["self"] = "@self"
            if len(fn.args.args) > 1:
                ex.env[fn.args.args[1].arg] = Name("k")
            out = _exec_with_last(ex, fn)
            if any(e[0] == "read" for e in ex.effects):
                raise TranslationError("unexpected read of the private dict")
            res.add(repr(out if out[0] != "return" else ("return", out[1].lean if isinstance(out[1], ValT) else out[1])))
            last = out
        if len(res) != 1:
            raise TranslationError("result depends on the sign")
        if last[0] != want[0]:
            raise TranslationError("expected a %s, found %r" % (want[0], last[:1]))
        return last

    def delitem():
        return simple("__delitem__", ("delete",))[1]

    piece("__delitem__", delitem)

    def contains():
        out = simple("__contains__", ("return",))
        if not (isinstance(out[1], tuple) and out[1][0] == "has"):
            raise TranslationError("does not return a membership test on the private dict")
        return out[1][1]

    piece("__contains__", contains)

    def raw(name, expect):
        def f():
            out = simple(name, ("return",))
            if not (isinstance(out[1], ValT) and out[1].lean == expect):
                raise TranslationError("does not return %s of the private dict" % expect[1:])
            return True
        return f

    piece("keys", raw("keys", "@keys"))
    piece("values", raw("values", "@values"))
    piece("items", raw("items", "@items"))
    piece("__len__", raw("__len__", "@len"))
    piece("__iter__", raw("__iter__", "@keys"))

    def update():
        fn = ms["update"]
        body = [s for s in fn.body if not (isinstance(s, ast.Expr) and isinstance(s.value, ast.Constant))]
        if len(body) != 1 or not isinstance(body[0], ast.For) or body[0].orelse:
            raise TranslationError("not a single for loop")
        lp = body[0]
        other = fn.args.args[1].arg
        it = lp.iter
        if not (isinstance(it, ast.Call) and isinstance(it.func, ast.Attribute) and it.func.attr == "items"
                and isinstance(it.func.value, ast.Name) and it.func.value.id == other and not it.args):
            raise TranslationError("loop is not over other.items()")
        if not (isinstance(lp.target, ast.Tuple) and len(lp.target.elts) == 2 and all(isinstance(e, ast.Name) for e in lp.target.elts)):
            raise TranslationError("loop target is not (key, value)")
        kn, vn = (e.id for e in lp.target.elts)
        if len(lp.body) != 1 or not isinstance(lp.body[0], ast.Assign):
            raise TranslationError("loop body is not a single assignment")
        a = lp.body[0]
        t = a.targets[0]
        if not (isinstance(t, ast.Subscript) and isinstance(t.value, ast.Name) and t.value.id == "self"
                and isinstance(t.slice, ast.Name) and t.slice.id == kn and isinstance(a.value, ast.Name) and a.value.id == vn):
            raise TranslationError("loop body is not self[key] = value")
        return True

    piece("update", update)

    def getd():
        fn = ms["get"]
        args = [x.arg for x in fn.args.args]
        if len(args) != 3:
            raise TranslationError("unexpected signature")
        body = [s for s in fn.body if not (isinstance(s, ast.Expr) and isinstance(s.value, ast.Constant))]
        if len(body) == 2 and isinstance(body[0], ast.If) and not body[0].orelse and isinstance(body[1], ast.Return):
            body = [ast.If(test=body[0].test, body=body[0].body, orelse=[body[1]])]
        if len(body) != 1 or not isinstance(body[0], ast.If):
            raise TranslationError("not a single if/else")
        st = body[0]
        t = st.test
        if not (isinstance(t, ast.Compare) and len(t.ops) == 1 and isinstance(t.ops[0], ast.In) and isinstance(t.left, ast.Name)
                and t.left.id == args[1] and isinstance(t.comparators[0], ast.Name) and t.comparators[0].id == "self"):
            raise TranslationError("condition is not `key in self`")

        def ret(b, want):
            if len(b) != 1 or not isinstance(b[0], ast.Return):
                raise TranslationError("branch is not a single return")
            v = b[0].value
            if want == "get":
                ok = isinstance(v, ast.Subscript) and isinstance(v.value, ast.Name) and v.value.id == "self" \
                    and isinstance(v.slice, ast.Name) and v.slice.id == args[1]
            else:
                ok = isinstance(v, ast.Name) and v.id == args[2]
            if not ok:
                raise TranslationError("branch does not return %s" % ("self[key]" if want == "get" else "the default"))

        ret(st.body, "get")
        ret(st.orelse, "default")
        return True

    piece("get", getd)
    return pieces, failed, tuple_len[0]


HEADER = """import RtcVerif.Model.C13
import RtcVerif.Proofs.C13Lemmas
/-!
GENERATED on every run of the C13 check by harness/translate_c13.py from class `AliasDict` in
src/rtctools/_internal/alias_tools.py (symbolic execution per sign / value kind).  Do not edit.
Each `...Gen` is the source; each `...Gen_eq_model` ties it to the model function the C13 property
theorems are about (value type `Val`: atoms, tuples, lists).
-/
namespace RtcVerif.Gen
open RtcVerif.C13

"""


def emit(pieces, tuple_len):
    out, thms = [HEADER], []
    have = set(pieces)
    if "csigned" in have:
        cs = pieces["csigned"]
        out.append("""def csignedGen (r : Rel) (sv : Bool) (k : VName) : VName × Sign :=
  match sv with
  | true => %s
  | false => %s

theorem csignedGen_eq_model (r : Rel) (sv : Bool) (k : VName) : csignedGen r sv k = csigned r sv k := by
  cases sv <;> rfl

""" % (cs[True], cs[False]))
        thms.append("csignedGen_eq_model")
    else:
        return "".join(out) + "end RtcVerif.Gen\n", thms
    if "__setitem__" in have:
        arms, key = pieces["__setitem__"]
        out.append("""/-- the value `__setitem__` stores (or the AssertionError) -/
def setValGen : Sign → Val → Except Err Val
%s

def setGen (r : Rel) (a : ADict Val) (k : VName) (v : Val) : Except Err (ADict Val) :=
  match setValGen (csignedGen r a.signedValues k).2 v with
  | .ok w => .ok { a with d := a.d.set %s w }
  | .error e => .error e

theorem setValGen_eq (s : Sign) (v : Val) :
    setValGen s v = if ok v then .ok (signed s v) else .error .assertion := by
  cases s <;> cases v with
  | atom x => rfl
  | list xs => rfl
  | tup xs => rcases xs with _ | ⟨_ | x0, _ | ⟨_ | x1, _ | ⟨x2, rest⟩⟩⟩ <;> rfl

theorem setGen_eq_model (r : Rel) (a : ADict Val) (k : VName) (v : Val) :
    setGen r a k v = ADict.set r a k v := by
  simp only [setGen, ADict.set, setValGen_eq, csignedGen_eq_model]
  cases ok v <;> rfl

""" % (arms, key))
        thms += ["setValGen_eq", "setGen_eq_model"]
    if "__getitem__" in have:
        arms, key = pieces["__getitem__"]
        out.append("""/-- the value `__getitem__` returns for a stored value -/
def getValGen : Sign → Val → Except Err Val
%s

def getGen (r : Rel) (a : ADict Val) (k : VName) : Except Err Val :=
  match a.d.get %s with
  | some v => getValGen (csignedGen r a.signedValues k).2 v
  | none => .error .keyError

theorem getValGen_eq (s : Sign) (v : Val) (h : ok v = true) : getValGen s v = .ok (signed s v) := by
  cases s <;> cases v with
  | atom x => rfl
  | list xs => rfl
  | tup xs =>
    rcases xs with _ | ⟨_ | x0, _ | ⟨_ | x1, _ | ⟨x2, rest⟩⟩⟩
    all_goals first | rfl | (simp [NegVal.ok, Val.ok] at h)

/-- under the representation invariant (stored tuples are pairs, as `__setitem__` guarantees) -/
theorem getGen_eq_model (r : Rel) (a : ADict Val) (k : VName)
    (hinv : ∀ c v, a.d.get c = some v → ok v = true) : getGen r a k = ADict.get r a k := by
  simp only [getGen, ADict.get, csignedGen_eq_model]
  cases h : a.d.get (csigned r a.signedValues k).1 with
  | none => rfl
  | some v => exact getValGen_eq _ v (hinv _ v h)

""" % (arms, key))
        thms += ["getValGen_eq", "getGen_eq_model"]
    if "__delitem__" in have:
        out.append("""def delGen (r : Rel) (a : ADict Val) (k : VName) : Except Err (ADict Val) :=
  if a.d.has %s then .ok { a with d := a.d.del %s } else .error .keyError

theorem delGen_eq_model (r : Rel) (a : ADict Val) (k : VName) : delGen r a k = ADict.del r a k := by
  simp only [delGen, ADict.del, csignedGen_eq_model]

""" % (pieces["__delitem__"], pieces["__delitem__"]))
        thms.append("delGen_eq_model")
    if "__contains__" in have:
        out.append("""def containsGen (r : Rel) (a : ADict Val) (k : VName) : Bool := a.d.has %s

theorem containsGen_eq_model (r : Rel) (a : ADict Val) (k : VName) :
    containsGen r a k = ADict.contains r a k := by
  simp only [containsGen, ADict.contains, csignedGen_eq_model]

""" % pieces["__contains__"])
        thms.append("containsGen_eq_model")
    if "update" in have and "__setitem__" in have:
        out.append("""def updateGen (r : Rel) : ADict Val → List (VName × Val) → ADict Val × Option Err
  | a, [] => (a, none)
  | a, (k, v) :: rest =>
    match setGen r a k v with
    | .ok a' => updateGen r a' rest
    | .error e => (a, some e)

theorem updateGen_eq_model (r : Rel) (l : List (VName × Val)) :
    ∀ a : ADict Val, updateGen r a l = ADict.update r a l := by
  induction l with
  | nil => intro a; rfl
  | cons p rest ih =>
    intro a
    obtain ⟨k, v⟩ := p
    simp only [updateGen, ADict.update, setGen_eq_model]
    cases ADict.set r a k v with
    | ok a' => exact ih a'
    | error e => rfl

""")
        thms.append("updateGen_eq_model")
    if "get" in have and "__getitem__" in have and "__contains__" in have:
        out.append("""def getDGen (r : Rel) (a : ADict Val) (k : VName) (dflt : Val) : Except Err Val :=
  if containsGen r a k then getGen r a k else .ok dflt

theorem getDGen_eq_model (r : Rel) (a : ADict Val) (k : VName) (dflt : Val)
    (hinv : ∀ c v, a.d.get c = some v → ok v = true) :
    getDGen r a k dflt = .ok (ADict.getD r a k dflt) := by
  simp only [getDGen, ADict.getD, containsGen_eq_model, getGen_eq_model r a k hinv]
  cases hc : ADict.contains r a k
  · rfl
  · simp only [ADict.contains, PyDict.has] at hc
    simp only [ADict.get, if_true]
    cases hg : a.d.get (csigned r a.signedValues k).1 with
    | none => rw [hg] at hc; cases hc
    | some v => rfl

""")
        thms.append("getDGen_eq_model")
    raws = [("keys", "keysGen", "List VName", "a.d.keys", "ADict.keys a"),
            ("values", "valuesGen", "List Val", "a.d.values", "ADict.values a"),
            ("items", "itemsGen", "List (VName × Val)", "a.d", "ADict.items a"),
            ("__len__", "lenGen", "Nat", "a.d.length", "ADict.len a"),
            ("__iter__", "iterGen", "List VName", "a.d.keys", "ADict.keys a")]
    for py, nm, ty, term, model in raws:
        if py in have:
            out.append("def %s (a : ADict Val) : %s := %s\n\ntheorem %s_eq_model (a : ADict Val) : %s a = %s := rfl\n\n"
                       % (nm, ty, term, nm, nm, model))
            thms.append(nm + "_eq_model")
    out.append("end RtcVerif.Gen\n")
    return "".join(out), thms


EXPECTED = ["csigned", "__setitem__", "__getitem__", "__delitem__", "__contains__", "update", "get", "keys", "values",
            "items", "__len__", "__iter__"]


def gen_alias_dict(c):
    """(re)generate lean/RtcVerif/Gen/AliasDict.lean; returns the extra obligation spec for c.prove"""
    gdir = os.path.join(LEAN_DIR, "RtcVerif", "Gen")
    os.makedirs(gdir, exist_ok=True)
    path = os.path.join(gdir, "AliasDict.lean")
    try:
        pieces, failed, tuple_len = translate(os.path.join(REPO, SRC))
    except (TranslationError, SyntaxError, OSError) as e:
        c.broken.append(("translator: AliasDict", str(e)))
        return []
    for name, why in failed:
        c.broken.append(("translator: AliasDict.%s" % name.replace("csigned", "__canonical_signed"), why))
    text, thms = emit(pieces, tuple_len)
    old = open(path).read() if os.path.exists(path) else None
    if old != text:
        tmp = path + ".tmp%d" % os.getpid()
        with open(tmp, "w") as f:
            f.write(text)
        os.replace(tmp, path)
    if not thms:
        return []
    return [("RtcVerif.Gen.AliasDict", "RtcVerif.Gen", thms)]
