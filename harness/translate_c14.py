"""
Source-to-Lean translation of the attribute handling of `ModelicaMixin`
($RTC_REPO/src/rtctools/optimization/modelica_mixin.py): the per-variable loop bodies of
`bounds()`, `history()`, `seed()` and the nominal dictionary (`__nominals`), the role classification of
the inputs in `__init__` and `output_variables` (second table below), together with WHICH
ensemble member's parameters they substitute and WHICH pymoca variable lists they run over -- a
second tie for C14 besides the correspondence check.  On every run of C14 the methods are parsed
with `ast`, the loop body is executed symbolically path by path (form of the attribute x result of
the substitution x fixed x type x inherited entry), and `lean/RtcVerif/Gen/ModelicaAttrs.lean` is
(re)generated with `boundsGen / historyGen / seedGen / nominalGen`, `...EnvGen`, `...ScopeGen` and
theorems `..._eq_model` against `boundsOf / historyOf / seedOf / nominalOf / envOf / scopeOf` of
RtcVerif/Model/C14.lean.  Anything outside the table below is REJECTED (c.broken).

Method frame (every method):
  <dict> = super().<method>(...)   |  <dict> = AliasDict(self.alias_relation, signed_values=False)
                                                        the inherited / empty dictionary
  initial_time = np.array([self.initial_time])          the stamp t0
  parameters = self.parameters(<ensemble_member> | 0)   `envs member` / `envs 0`   (-> ...EnvGen)
  parameter_values = [parameters.get(param.name(), param) for param in self.__mx["parameters"]]
                                                        the environment `env` of `Attr.resolve`
  for <v> in itertools.chain(self.__pymoca_model.states | alg_states | inputs ...) / a single list
                                                        the scope (-> ...ScopeGen); body = one variable `d`
  return <dict>
Loop body, Python construct                          -> model term   (TRUSTED mapping of library calls)
  <v>.symbol.name()                                  -> the name of `d`
  <v>.min / .max / .nominal / .start                 -> `d.min` ... : `Attr` (`.lit x mx` | `.sym a p b`)
  <v>.fixed                                          -> `d.fixed`
  isinstance(e, ca.MX)                               -> `.lit _ true` or `.sym ..` (pymoca hands over an MX)
  e.is_constant()            (e an MX attribute)     -> `.lit _ true`: yes; `.sym`: no; after substitution:
                                                        `Attr.resolve env` is `.val` / `.nan`: yes, `.unresolved`: no
  [e] = substitute_in_external([e], self.__mx["parameters"], parameter_values)
                                                     -> `e` becomes `(d.<attr>).resolve env`  (CasADi substitute)
  float(e)                                           -> the number `x` of `.lit x _` / `.val x`; NaN for `.nan`
  np.isnan(float(e))  /  np.isnan(x)                 -> true exactly for `.nan` (literals are never NaN)
  not / and / or  (short-circuit)                    -> evaluated on the path
  <dict>[name] inside try/except KeyError            -> `inherited : Option (EVal x EVal)`
  self.__python_types.get(name, float) == bool       -> `d.ptype = .bool`;  self.variable_is_discrete(name) -> `isDiscrete d.ptype`
  (0, 1) / (-np.inf, np.inf) / (a, b)                -> `(.fin 0, .fin 1)` / `(.ninf, .pinf)` / `(a, b)`
  max(a, b) / min(a, b) / abs(a)                     -> `EVal.max a b` / `EVal.min a b` / `eabs a`
  x in (0.0, 1.0)                                    -> `x = .fin 0 ∨ x = .fin 1`
  x != 0.0                                           -> `x ≠ .fin 0`
  <v>.python_type(x)                                 -> `cast d.ptype x`
  self.times(name)  /  np.full_like(times, x)  /  Timeseries(times, ..)  -> the constant `x` over the variable's times
  Timeseries(initial_time, x)                        -> the value `x` at t0
  <dict>[name] = e                                   -> outcome `put e`   (at most once per path)
  continue / end of body without a store             -> outcome `keep`
  raise Exception(...)                               -> outcome `raise`
  logger.<level>(...) , if logger.getEffectiveLevel() == logging.DEBUG: ...   -> nothing

Role classification (`__init__`) and `output_variables` (-> inputRoleGen / roleListGen / outputsGen / exportedGen,
theorems `..._eq_model` against `inputRoleOpt` / `roleListOf` / `outputsOf` / `exportedOf`):
  self.__mx["control_inputs" | "constant_inputs" | "lookup_tables"] = []   (top level of __init__, before the loop)
                                                     -> the role lists start empty
  for <v> in self.__pymoca_model.inputs:  (the one top-level loop of __init__ over the inputs)
                                                     -> `List.foldl` over the `InputRec`s (one record `i` per input)
  if <c>: <A> else: <B>     (both branches present, one statement or one nested `if` each)
                                                     -> `if <c> then <A> else <B>`
  <v>.symbol.name() in self.__pymoca_model.delay_states      -> `isDelay`
  <v>.symbol.name() in kwargs.get("lookup_tables", [])       -> `isLookup`
  <v>.fixed                                                  -> `fixed`
  not c / c and c / c or c                                   -> `!c` / `c && c` / `c || c`
  self.__mx["algebraics" | "lookup_tables" | "constant_inputs" | "control_inputs"].append(<v>.symbol)
                                                     -> the role `.algebraic | .lookup | .constantInput | .control`
  (no other statement of the class may assign, delete or call a mutating method on these three lists)
  output_variables:  decorators @property, @cached only
  [ca.MX.sym(<x>) for <x> in self.__pymoca_model.outputs]    -> `declared`  (a symbol named as the declared output)
  self.__mx["control_inputs"]                                -> `controls`
  list(e) / e.copy() / e + e                                 -> `e` / `e` / `e ++ e`
  <L> = e  (e a fresh list: not the bare controls list)      -> binding
  <L>.extend(e)                                              -> `L := L ++ e`
  return e                                                   -> the value
  (a comprehension with a filter, a set, a conditional, any other call -> REJECTED)
"""
import ast
import os

from .common import LEAN_DIR, REPO

SRC = os.path.join("src", "rtctools", "optimization", "modelica_mixin.py")
ATTRS = ("min", "max", "nominal", "start")
LISTS = {"states": ".states", "alg_states": ".algs", "inputs": ".inputs"}


class TranslationError(Exception):
    pass


def _u(node, n=90):
    try:
        return ast.unparse(node)[:n]
    except Exception:
        return ast.dump(node)[:n]


def _is_priv(node, name):
    return (isinstance(node, ast.Attribute) and isinstance(node.value, ast.Name) and node.value.id == "self"
            and node.attr in ("__" + name, "_ModelicaMixin__" + name))


def _is_mx_parameters(node):
    return (isinstance(node, ast.Subscript) and _is_priv(node.value, "mx") and isinstance(node.slice, ast.Constant)
            and node.slice.value == "parameters")


# symbolic values ---------------------------------------------------------------------------------


class AttrV:
    def __init__(self, attr, subst=False):
        self.attr, self.subst = attr, subst


class NumV:
    def __init__(self, lean):
        self.lean = lean


class NaNV:
    pass


class PairV:
    def __init__(self, a, b):
        self.a, self.b = a, b


class TsV:  # a Timeseries carrying one constant
    def __init__(self, where, num):
        self.where, self.num = where, num


class Tok:  # opaque marker objects
    def __init__(self, what):
        self.what = what


class KeyErr(Exception):
    pass


class Done(Exception):
    def __init__(self, outcome):
        self.outcome = outcome


class Path:
    """one execution of a loop body under a list of decisions"""

    def __init__(self, choices, ctx):
        self.choices, self.ctx = list(choices), ctx
        self.asked = []  # (question, answer, options)
        self.env = dict(ctx["env"])
        self.puts = []

    def ask(self, q, options):
        i = len(self.asked)
        for (qq, aa, _) in self.asked:
            if qq == q:
                return aa
        a = self.choices[i] if i < len(self.choices) else options[0]
        self.asked.append((q, a, options))
        return a

    # ---- expressions
    def form(self, attr):
        return self.ask(("form", attr), ["litF", "litMX", "sym"])

    def resolve(self, attr):
        if self.form(attr) != "sym":
            return "val"
        return self.ask(("resolve", attr), ["val", "nan", "unresolved"])

    def num_of(self, v):
        if isinstance(v, NumV):
            return v
        if isinstance(v, AttrV):
            f = self.form(v.attr)
            if not v.subst:
                if f == "sym":
                    raise TranslationError("float() of an unsubstituted parameter expression")
                return NumV("x_" + v.attr)
            r = self.resolve(v.attr)
            if r == "unresolved":
                raise TranslationError("float() of an expression that is still symbolic")
            if r == "nan":
                return NaNV()
            return NumV("x_" + v.attr if f != "sym" else "r_" + v.attr)
        if isinstance(v, NaNV):
            return v
        raise TranslationError("not a number: " + type(v).__name__)

    def truth(self, v):
        if isinstance(v, bool):
            return v
        raise TranslationError("condition not decided on the path (%s)" % type(v).__name__)

    def ev(self, n):
        vname = self.ctx["v"]
        if isinstance(n, ast.Name):
            if n.id in self.env:
                return self.env[n.id]
            raise TranslationError("unknown name " + n.id)
        if isinstance(n, ast.Constant):
            if isinstance(n.value, bool):
                return n.value
            if isinstance(n.value, (int, float)):
                return NumV("(.fin %d)" % n.value) if float(n.value) == int(n.value) else self._bad(n)
            return self._bad(n)
        if isinstance(n, ast.Attribute):
            if isinstance(n.value, ast.Name) and n.value.id == vname:
                if n.attr in ATTRS:
                    return AttrV(n.attr)
                if n.attr == "fixed":
                    return self.ask(("fixed",), [True, False])
            if isinstance(n.value, ast.Name) and n.value.id == "np" and n.attr == "inf":
                return NumV(".pinf")
            return self._bad(n)
        if isinstance(n, ast.UnaryOp) and isinstance(n.op, ast.Not):
            return not self.truth(self.ev(n.operand))
        if isinstance(n, ast.UnaryOp) and isinstance(n.op, ast.USub):
            v = self.ev(n.operand)
            if isinstance(v, NumV) and v.lean == ".pinf":
                return NumV(".ninf")
            return self._bad(n)
        if isinstance(n, ast.BoolOp):
            for sub in n.values:  # short-circuit
                t = self.truth(self.ev(sub))
                if isinstance(n.op, ast.Or) and t:
                    return True
                if isinstance(n.op, ast.And) and not t:
                    return False
            return isinstance(n.op, ast.And)
        if isinstance(n, ast.Tuple) and len(n.elts) == 2:
            a, b = (self.num_of(self.ev(e)) for e in n.elts)
            return PairV(a, b)
        if isinstance(n, ast.Compare) and len(n.ops) == 1:
            return self.compare(n)
        if isinstance(n, ast.Subscript):
            d = self.ev(n.value)
            k = self.ev(n.slice)
            if isinstance(d, Tok) and d.what == "dict" and isinstance(k, Tok) and k.what == "name":
                if self.ctx.get("inherit_ok") and self.ask(("inherited",), [True, False]):
                    return PairV(NumV("mM.1"), NumV("mM.2"))
                raise KeyErr()
            return self._bad(n)
        if isinstance(n, ast.Call):
            return self.call(n)
        return self._bad(n)

    def _bad(self, n):
        raise TranslationError("unsupported expression `%s`" % _u(n))

    def compare(self, n):
        op, l, r = n.ops[0], n.left, n.comparators[0]
        # python type test
        if isinstance(op, ast.Eq) and isinstance(l, ast.Call) and isinstance(l.func, ast.Attribute) and l.func.attr == "get" \
                and _is_priv(l.func.value, "python_types") and len(l.args) == 2 and isinstance(l.args[1], ast.Name) \
                and l.args[1].id == "float" and isinstance(r, ast.Name) and r.id in ("bool", "int", "float"):
            k = self.ev(l.args[0])
            if not (isinstance(k, Tok) and k.what == "name"):
                raise TranslationError("type looked up for something that is not the variable's name")
            return self.ask(("cond", "(d.ptype = .%s)" % {"bool": "bool", "int": "int", "float": "real"}[r.id]), [True, False])
        # logger.getEffectiveLevel() == logging.DEBUG
        if _u(l).startswith("logger.getEffectiveLevel"):
            return False
        lv = self.ev(l)
        if isinstance(op, ast.NotEq) and isinstance(r, ast.Constant) and float(r.value) == 0.0:
            if isinstance(lv, AttrV) and not lv.subst:
                # `start != 0.0` on a literal attribute
                if self.form(lv.attr) == "sym":
                    raise TranslationError("numeric comparison of a parameter expression")
                lv = NumV("x_" + lv.attr)
            x = self.num_of(lv)
            if isinstance(x, NaNV):
                return True
            return self.ask(("cond", "(%s ≠ .fin 0)" % x.lean), [True, False])
        if isinstance(op, ast.In) and isinstance(r, ast.Tuple) and [getattr(e, "value", None) for e in r.elts] in ([0.0, 1.0], [0, 1]):
            x = self.num_of(lv)
            if isinstance(x, NaNV):
                return False
            return self.ask(("cond", "(%s = .fin 0 ∨ %s = .fin 1)" % (x.lean, x.lean)), [True, False])
        raise TranslationError("unsupported comparison `%s`" % _u(n))

    def call(self, n):
        f, vname = n.func, self.ctx["v"]
        src = _u(f, 200)
        if src == "%s.symbol.name" % vname and not n.args:
            return Tok("name")
        if isinstance(f, ast.Name) and f.id == "isinstance" and len(n.args) == 2 and _u(n.args[1]) == "ca.MX":
            v = self.ev(n.args[0])
            if isinstance(v, AttrV):
                return True if v.subst else self.form(v.attr) != "litF"
            if isinstance(v, (NumV, NaNV)):
                return False
            raise TranslationError("isinstance(.., ca.MX) of " + type(v).__name__)
        if isinstance(f, ast.Attribute) and f.attr == "is_constant" and not n.args:
            v = self.ev(f.value)
            if not isinstance(v, AttrV):
                raise TranslationError("is_constant() of something that is not an attribute expression")
            fm = self.form(v.attr)
            if fm == "litF":
                raise TranslationError("is_constant() on a plain number (AttributeError in Python)")
            if not v.subst:
                return fm == "litMX"
            return self.resolve(v.attr) != "unresolved"
        if isinstance(f, ast.Name) and f.id == "float" and len(n.args) == 1:
            return self.num_of(self.ev(n.args[0]))
        if src == "np.isnan" and len(n.args) == 1:
            return isinstance(self.num_of(self.ev(n.args[0])), NaNV)
        if isinstance(f, ast.Name) and f.id in ("max", "min") and len(n.args) == 2:
            a, b = (self.num_of(self.ev(e)) for e in n.args)
            if isinstance(a, NaNV) or isinstance(b, NaNV):
                raise TranslationError("max/min of NaN")
            return NumV("(EVal.%s %s %s)" % (f.id, a.lean, b.lean))
        if isinstance(f, ast.Name) and f.id == "abs" and len(n.args) == 1:
            a = self.num_of(self.ev(n.args[0]))
            if isinstance(a, NaNV):
                return a
            return NumV("(eabs %s)" % a.lean)
        if src == "%s.python_type" % vname and len(n.args) == 1:
            a = self.num_of(self.ev(n.args[0]))
            if isinstance(a, NaNV):
                raise TranslationError("python_type of NaN")
            return NumV("(cast d.ptype %s)" % a.lean)
        if src == "self.times" and len(n.args) == 1:
            k = self.ev(n.args[0])
            if isinstance(k, Tok) and k.what == "name":
                return Tok("times")
        if src == "np.full_like" and len(n.args) == 2:
            t, x = self.ev(n.args[0]), self.num_of(self.ev(n.args[1]))
            if isinstance(t, Tok) and t.what == "times" and isinstance(x, NumV):
                return TsV("times-values", x)
        if isinstance(f, ast.Name) and f.id == "Timeseries" and len(n.args) == 2:
            t, x = self.ev(n.args[0]), self.ev(n.args[1])
            if isinstance(t, Tok) and t.what == "times" and isinstance(x, TsV) and x.where == "times-values":
                return TsV("times", x.num)
            if isinstance(t, Tok) and t.what == "t0":
                x = self.num_of(x)
                if isinstance(x, NumV):
                    return TsV("t0", x)
        if src.startswith("logger."):
            return Tok("log")
        if src.endswith(".format") or src == "str":
            return Tok("log")
        if src == "self.variable_is_discrete" and len(n.args) == 1:
            return self.ask(("cond", "(isDiscrete d.ptype = true)"), [True, False])
        raise TranslationError("unsupported call `%s`" % _u(n))

    # ---- statements
    def block(self, stmts):
        for st in stmts:
            self.stmt(st)

    def stmt(self, st):
        if isinstance(st, ast.Expr):
            if isinstance(st.value, ast.Constant):
                return
            v = self.ev(st.value)
            if isinstance(v, Tok) and v.what == "log":
                return
            raise TranslationError("expression statement with an effect: `%s`" % _u(st))
        if isinstance(st, ast.If):
            return self.block(st.body if self.truth(self.ev(st.test)) else st.orelse)
        if isinstance(st, ast.Continue):
            raise Done(None)
        if isinstance(st, ast.Raise):
            raise Done("raise")
        if isinstance(st, ast.Try):
            if len(st.handlers) != 1 or _u(st.handlers[0].type) != "KeyError" or st.orelse or st.finalbody:
                raise TranslationError("unsupported try statement")
            try:
                self.block(st.body)
            except KeyErr:
                self.block(st.handlers[0].body)
            return
        if isinstance(st, ast.Assign) and len(st.targets) == 1:
            return self.assign(st.targets[0], st.value)
        raise TranslationError("unsupported statement `%s`" % _u(st))

    def assign(self, tgt, value):
        # [x] = substitute_in_external([x], self.__mx["parameters"], parameter_values)
        if isinstance(tgt, ast.List) and len(tgt.elts) == 1 and isinstance(tgt.elts[0], ast.Name):
            c = value
            if not (isinstance(c, ast.Call) and _u(c.func) == "substitute_in_external" and len(c.args) == 3
                    and isinstance(c.args[0], ast.List) and len(c.args[0].elts) == 1 and _is_mx_parameters(c.args[1])
                    and isinstance(c.args[2], ast.Name) and c.args[2].id == self.ctx["pv"]):
                raise TranslationError("unsupported list assignment `%s`" % _u(value))
            v = self.ev(c.args[0].elts[0])
            if not (isinstance(v, AttrV) and not v.subst):
                raise TranslationError("substitution of something that is not a raw attribute")
            self.env[tgt.elts[0].id] = AttrV(v.attr, True)
            return
        if isinstance(tgt, ast.Tuple) and len(tgt.elts) == 2 and all(isinstance(e, ast.Name) for e in tgt.elts):
            v = self.ev(value)
            if not isinstance(v, PairV):
                raise TranslationError("pair assignment from a non-pair")
            self.env[tgt.elts[0].id], self.env[tgt.elts[1].id] = v.a, v.b
            return
        if isinstance(tgt, ast.Name):
            self.env[tgt.id] = self.ev(value)
            return
        if isinstance(tgt, ast.Subscript):
            d, k = self.ev(tgt.value), self.ev(tgt.slice)
            if isinstance(d, Tok) and d.what == "dict" and isinstance(k, Tok) and k.what == "name":
                self.puts.append(self.ev(value))
                return
        raise TranslationError("unsupported assignment target `%s`" % _u(tgt))


def run_paths(body, ctx):
    """all paths of a loop body: [(decisions, outcome)]"""
    paths, stack = [], [[]]
    while stack:
        choices = stack.pop()
        p = Path(choices, ctx)
        try:
            p.block(body)
            out = None
        except Done as d:
            out = d.outcome
        except KeyErr:
            raise TranslationError("KeyError outside a try block")
        if len(p.puts) > 1 or (p.puts and out == "raise"):
            raise TranslationError("more than one store on a path")
        if out is None and p.puts:
            out = ("put", p.puts[0])
        elif out is None:
            out = "keep"
        paths.append(([(q, a) for q, a, _ in p.asked], out))
        # siblings
        for i in range(len(p.asked) - 1, len(choices) - 1, -1):
            q, a, options = p.asked[i]
            for alt in options[options.index(a) + 1:]:
                stack.append([x[1] for x in p.asked[:i]] + [alt])
        if len(paths) > 400:
            raise TranslationError("too many paths")
    return paths


def tree_to_lean(paths, render, indent="  "):
    """decision tree -> nested Lean matches; `render(outcome)` gives the leaf term"""
    if all(not dec for dec, _ in paths):
        outs = {repr(_leaf_key(o)) for _, o in paths}
        if len(outs) != 1:
            raise TranslationError("non-deterministic outcome")
        return indent + render(paths[0][1])
    q = paths[0][0][0][0]
    if any((not dec) or dec[0][0] != q for dec, _ in paths):
        raise TranslationError("paths do not form a decision tree")
    groups = {}
    for dec, out in paths:
        groups.setdefault(dec[0][1], []).append((dec[1:], out))
    ni = indent + "  "
    if q[0] == "form":
        a = q[1]
        arms = [("litF", "| .lit x_%s false" % a), ("litMX", "| .lit x_%s true" % a), ("sym", "| .sym a_%s p_%s b_%s" % (a, a, a))]
        s = indent + "match d.%s with\n" % a
    elif q[0] == "resolve":
        a = q[1]
        arms = [("val", "| .val r_%s" % a), ("nan", "| .nan"), ("unresolved", "| .unresolved")]
        s = indent + "match (Attr.sym a_%s p_%s b_%s).resolve env with\n" % (a, a, a)
    elif q[0] == "fixed":
        arms = [(True, "| true"), (False, "| false")]
        s = indent + "match d.fixed with\n"
    elif q[0] == "inherited":
        arms = [(True, "| some mM"), (False, "| none")]
        s = indent + "match inherited with\n"
    elif q[0] == "cond":
        if set(groups) != {True, False}:
            raise TranslationError("incomplete condition")
        return (indent + "if %s then\n" % q[1] + tree_to_lean(groups[True], render, ni) + "\n" + indent + "else\n"
                + tree_to_lean(groups[False], render, ni))
    else:
        raise TranslationError("unknown question")
    for key, pat in arms:
        if key not in groups:
            raise TranslationError("missing branch %r of %r" % (key, q))
        s += indent + pat + " =>\n" + tree_to_lean(groups[key], render, ni) + "\n"
    return s.rstrip("\n")


def _leaf_key(o):
    if isinstance(o, tuple):
        v = o[1]
        if isinstance(v, PairV):
            return ("put", v.a.lean, v.b.lean)
        if isinstance(v, TsV):
            return ("put", v.where, v.num.lean)
        if isinstance(v, NumV):
            return ("put", v.lean)
        return ("put", type(v).__name__)
    return o


# method frames -----------------------------------------------------------------------------------


def _find(tree, name):
    for node in ast.walk(tree):
        if isinstance(node, ast.ClassDef) and node.name == "ModelicaMixin":
            for i in node.body:
                if isinstance(i, ast.FunctionDef) and i.name == name:
                    return i
    raise TranslationError("method not found")


def frame(fn, member_arg):
    """-> dict(dictname, env ('member'|'zero'), pv name, scope [lists], v name, body, t0 name)"""
    info = {"dict": None, "env": None, "pv": None, "t0": None}
    loop = None
    body = [s for s in fn.body if not (isinstance(s, ast.Expr) and isinstance(s.value, ast.Constant))]
    for st in body:
        if isinstance(st, ast.Assign) and len(st.targets) == 1 and isinstance(st.targets[0], ast.Name):
            nm, val, src = st.targets[0].id, st.value, _u(st.value, 300)
            if loop is not None:
                raise TranslationError("assignment after the loop: `%s`" % _u(st))
            if src.startswith("super().%s(" % fn.name) or src == "AliasDict(self.alias_relation, signed_values=False)":
                if info["dict"]:
                    raise TranslationError("two dictionaries")
                info["dict"] = nm
            elif src == "np.array([self.initial_time])":
                info["t0"] = nm
            elif src.startswith("self.parameters("):
                arg = _u(val.args[0]) if len(val.args) == 1 and not val.keywords else None
                if arg == "0":
                    info["env"], info["parname"] = "zero", nm
                elif member_arg and arg == member_arg:
                    info["env"], info["parname"] = "member", nm
                else:
                    raise TranslationError("parameters of an unexpected member: `%s`" % src)
            elif isinstance(val, ast.ListComp):
                g = val.generators
                if not (len(g) == 1 and not g[0].ifs and isinstance(g[0].target, ast.Name) and _is_mx_parameters(g[0].iter)
                        and info.get("parname")
                        and _u(val.elt) == "%s.get(%s.name(), %s)" % (info["parname"], g[0].target.id, g[0].target.id)):
                    raise TranslationError("parameter values are not `parameters.get(param.name(), param)` over the model's parameters")
                info["pv"] = nm
            else:
                raise TranslationError("unsupported statement in the method frame: `%s`" % _u(st))
        elif isinstance(st, ast.For) and loop is None:
            loop = st
        elif isinstance(st, ast.Return):
            if not (isinstance(st.value, ast.Name) and st.value.id == info["dict"]):
                raise TranslationError("does not return the dictionary")
        else:
            raise TranslationError("unsupported statement in the method frame: `%s`" % _u(st))
    if loop is None or loop.orelse or not isinstance(loop.target, ast.Name):
        raise TranslationError("no single for loop over the variables")
    it = loop.iter
    lists = it.args if (isinstance(it, ast.Call) and _u(it.func) == "itertools.chain") else [it]
    scope = []
    for l in lists:
        if not (isinstance(l, ast.Attribute) and _is_priv(l.value, "pymoca_model") and l.attr in LISTS):
            raise TranslationError("loop over something that is not a pymoca variable list: `%s`" % _u(l))
        scope.append(LISTS[l.attr])
    if not info["dict"] or not info["env"] or not info["pv"]:
        raise TranslationError("dictionary / parameters / parameter values not set up before the loop")
    info.update(scope=scope, v=loop.target.id, body=loop.body)
    return info


def translate_method(tree, name, kind):
    fn = _find(tree, name)
    args = [a.arg for a in fn.args.args]
    member = args[1] if len(args) > 1 else None
    info = frame(fn, member)
    env = {info["dict"]: Tok("dict"), info["pv"]: Tok("pv")}
    if info["t0"]:
        env[info["t0"]] = Tok("t0")
    ctx = {"env": env, "v": info["v"], "pv": info["pv"], "inherit_ok": kind == "bounds"}
    paths = run_paths(info["body"], ctx)

    def render(o):
        if kind == "bounds":
            if o == "raise":
                return "none"
            if isinstance(o, tuple) and isinstance(o[1], PairV):
                return "some (%s, %s)" % (o[1].a.lean, o[1].b.lean)
            raise TranslationError("bounds: a path neither stores a pair nor raises")
        if kind == "nominal":
            if o == "keep":
                return ".fin 1"
            if isinstance(o, tuple) and isinstance(o[1], NumV):
                return o[1].lean
            raise TranslationError("nominal: a path neither stores a number nor skips")
        want = "t0" if kind == "history" else "times"
        if o == "keep":
            return ".keep"
        if o == "raise":
            return ".raise"
        if isinstance(o, tuple) and isinstance(o[1], TsV) and o[1].where == want:
            return ".put %s" % o[1].num.lean
        raise TranslationError("%s: a path stores something that is not a Timeseries over %s" % (kind, want))

    return tree_to_lean(paths, render, "  "), info


HEADER = """import RtcVerif.Model.C14
import RtcVerif.Proofs.C14Lemmas
/-!
GENERATED on every run of the C14 check by harness/translate_c14.py from `ModelicaMixin.bounds`,
`history`, `seed`, `__nominals` (symbolic execution of the per-variable loop body, path by path), the
role classification loop of `__init__` and `output_variables` in
src/rtctools/optimization/modelica_mixin.py.  Do not edit.  Each `...Gen` is the source;
each `..._eq_model` ties it to the model function the C14 property theorems are about.
-/
set_option linter.unusedVariables false
namespace RtcVerif.Gen
open RtcVerif RtcVerif.C14

"""

SPECS = [
    ("bounds", "bounds", "bounds", "(env : Env) (inherited : Option (EVal × EVal)) (d : Decl) : Option (EVal × EVal)",
     "boundsOf env inherited d", "env inherited d", """  obtain ⟨nm, pt, mn, mx, nom, st, fx⟩ := d
  cases inherited <;> cases mn <;> cases mx <;> cases pt <;>
    simp only [boundsGen, boundsOf, defaultBounds, Attr.resolve, Option.getD] <;>
    (repeat' split) <;> simp_all <;>
    (first | exact ⟨EVal.max_comm' _ _, EVal.min_comm' _ _⟩ | exact ⟨EVal.max_comm' _ _, rfl⟩
           | exact ⟨rfl, EVal.min_comm' _ _⟩)"""),
    ("history", "history", "history", "(env : Env) (d : Decl) : Outcome EVal", "historyOf env d", "env d",
     """  obtain ⟨nm, pt, mn, mx, nom, st, fx⟩ := d
  cases fx <;> cases st <;> simp only [historyGen, historyOf, Attr.resolve] <;>
    (repeat' split) <;> simp_all"""),
    ("seed", "seed", "seed", "(env : Env) (d : Decl) : Outcome EVal", "seedOf env d", "env d",
     """  obtain ⟨nm, pt, mn, mx, nom, st, fx⟩ := d
  cases fx <;> cases st <;> simp only [seedGen, seedOf, Attr.resolve] <;>
    (repeat' split) <;> simp_all"""),
    ("nominal", "__nominals", "nominal", "(env : Env) (d : Decl) : EVal", "nominalOf env d", "env d",
     """  obtain ⟨nm, pt, mn, mx, nom, st, fx⟩ := d
  cases nom <;> simp only [nominalGen, nominalOf, Attr.resolve] <;>
    (repeat' split) <;> simp_all"""),
]


# role classification and output_variables --------------------------------------------------------

ROLE_KEYS = {"algebraics": ".algebraic", "lookup_tables": ".lookup", "constant_inputs": ".constantInput",
             "control_inputs": ".control"}
ROLE_LISTS = ("control_inputs", "constant_inputs", "lookup_tables")
MUTATORS = ("append", "extend", "insert", "remove", "pop", "clear", "sort", "reverse", "__iadd__", "__setitem__", "__delitem__")


def _mx_key(node):
    if isinstance(node, ast.Subscript) and _is_priv(node.value, "mx") and isinstance(node.slice, ast.Constant) \
            and isinstance(node.slice.value, str):
        return node.slice.value
    return None


def _class(tree):
    for node in ast.walk(tree):
        if isinstance(node, ast.ClassDef) and node.name == "ModelicaMixin":
            return node
    raise TranslationError("class ModelicaMixin not found")


def _is_pymoca_list(node, name):
    return isinstance(node, ast.Attribute) and _is_priv(node.value, "pymoca_model") and node.attr == name


def translate_roles(tree):
    cls = _class(tree)
    fn = _find(tree, "__init__")
    kw = fn.args.kwarg.arg if fn.args.kwarg else None
    loops = [st for st in fn.body if isinstance(st, ast.For) and _is_pymoca_list(st.iter, "inputs")
             and any(_mx_key(n) for n in ast.walk(st))]
    if len(loops) != 1:
        raise TranslationError("__init__: expected one top-level loop over the pymoca inputs that fills the role lists, found %d" % len(loops))
    loop = loops[0]
    if loop.orelse or not isinstance(loop.target, ast.Name):
        raise TranslationError("__init__: unsupported loop header `%s`" % _u(loop))
    v = loop.target.id
    # the role lists start empty, before the loop
    inits = {}
    for st in fn.body[:fn.body.index(loop)]:
        if isinstance(st, ast.Assign) and len(st.targets) == 1 and _mx_key(st.targets[0]) in ROLE_LISTS:
            if not (isinstance(st.value, ast.List) and not st.value.elts):
                raise TranslationError("__init__: `%s` does not start a role list empty" % _u(st))
            inits[_mx_key(st.targets[0])] = st
    if set(inits) != set(ROLE_LISTS):
        raise TranslationError("__init__: role lists not initialised to [] before the loop: %s" % sorted(set(ROLE_LISTS) - set(inits)))
    leaves = []

    def cond(n):
        if isinstance(n, ast.UnaryOp) and isinstance(n.op, ast.Not):
            return "(!%s)" % cond(n.operand)
        if isinstance(n, ast.BoolOp):
            return "(" + (" && " if isinstance(n.op, ast.And) else " || ").join(cond(x) for x in n.values) + ")"
        if isinstance(n, ast.Attribute) and isinstance(n.value, ast.Name) and n.value.id == v and n.attr == "fixed":
            return "fixed"
        if isinstance(n, ast.Compare) and len(n.ops) == 1 and isinstance(n.ops[0], (ast.In, ast.NotIn)) \
                and _u(n.left) == "%s.symbol.name()" % v:
            r = n.comparators[0]
            if _is_pymoca_list(r, "delay_states"):
                a = "isDelay"
            elif kw and _u(r) in ("%s.get('lookup_tables', [])" % kw, "%s.get('lookup_tables', ())" % kw):
                a = "isLookup"
            else:
                raise TranslationError("__init__: unsupported membership test `%s`" % _u(n))
            return a if isinstance(n.ops[0], ast.In) else "(!%s)" % a
        raise TranslationError("__init__: unsupported condition `%s`" % _u(n))

    def block(stmts, ind):
        stmts = [s for s in stmts if not (isinstance(s, ast.Expr) and isinstance(s.value, ast.Constant))]
        if len(stmts) != 1:
            raise TranslationError("__init__: a branch of the role classification must be one statement, got %d" % len(stmts))
        st = stmts[0]
        if isinstance(st, ast.If):
            if not st.orelse:
                raise TranslationError("__init__: `if` without `else` in the role classification (an input would get no role)")
            return "%sif %s then\n%s\n%selse\n%s" % (ind, cond(st.test), block(st.body, ind + "  "), ind, block(st.orelse, ind + "  "))
        if isinstance(st, ast.Expr) and isinstance(st.value, ast.Call) and isinstance(st.value.func, ast.Attribute) \
                and st.value.func.attr == "append" and _mx_key(st.value.func.value) in ROLE_KEYS \
                and len(st.value.args) == 1 and not st.value.keywords and _u(st.value.args[0]) == "%s.symbol" % v:
            leaves.append(st.value.func)
            return ind + ROLE_KEYS[_mx_key(st.value.func.value)]
        raise TranslationError("__init__: unsupported statement in the role classification `%s`" % _u(st))

    body = block(loop.body, "  ")
    # nothing else in the class changes the role lists
    allowed_targets = {id(st.targets[0]) for st in inits.values()}
    for node in ast.walk(cls):
        if isinstance(node, ast.Attribute) and _mx_key(node.value) in ROLE_LISTS and node.attr in MUTATORS \
                and not any(node is l for l in leaves):
            raise TranslationError("a role list is changed outside the classification loop: `%s`" % _u(node))
        tg = []
        if isinstance(node, ast.Assign):
            tg = node.targets
        elif isinstance(node, (ast.AugAssign, ast.AnnAssign)):
            tg = [node.target]
        elif isinstance(node, ast.Delete):
            tg = node.targets
        for t in tg:
            for sub in ast.walk(t):
                if _mx_key(sub) in ROLE_LISTS and id(sub) not in allowed_targets:
                    raise TranslationError("a role list is assigned outside its initialisation: `%s`" % _u(node))
    text = "def inputRoleGen (isDelay isLookup fixed : Bool) : Role :=\n%s\n\n" % body
    text += ("theorem inputRoleGen_eq_model (isDelay isLookup fixed : Bool) :\n"
             "    inputRoleGen isDelay isLookup fixed = inputRoleOpt isDelay isLookup fixed := by\n"
             "  cases isDelay <;> cases isLookup <;> cases fixed <;> rfl\n\n")
    text += ("/-- the role lists start empty and get the input's name appended when the classification says so -/\n"
             "def roleListGen (r : Role) (inputs : List InputRec) : List String :=\n"
             "  inputs.foldl (fun acc i => if inputRoleGen i.isDelay i.isLookup i.fixed = r then acc ++ [i.name] else acc) []\n\n"
             "theorem roleListGen_eq_model (r : Role) (inputs : List InputRec) :\n"
             "    roleListGen r inputs = roleListOf r inputs := by\n"
             "  unfold roleListGen\n"
             "  rw [foldl_collect (fun i => inputRoleGen i.isDelay i.isLookup i.fixed) r]\n"
             "  simp only [roleListOf, InputRec.role, inputRoleGen_eq_model, List.nil_append]\n"
             "  congr\n\n")
    return text, ["inputRoleGen_eq_model", "roleListGen_eq_model"]


def translate_outputs(tree):
    fn = _find(tree, "output_variables")
    decos = sorted(_u(d) for d in fn.decorator_list)
    if decos != ["cached", "property"]:
        raise TranslationError("output_variables: unexpected decorators %s" % decos)
    env = {}

    def ev(n):
        """-> (lean term, fresh?)   fresh = a new list object (extending it does not touch the role list)"""
        if isinstance(n, ast.Name):
            if n.id not in env:
                raise TranslationError("output_variables: unknown name " + n.id)
            return env[n.id], False
        if _mx_key(n) == "control_inputs":
            return "controls", False
        if isinstance(n, ast.ListComp):
            g = n.generators
            if len(g) == 1 and not g[0].ifs and not g[0].is_async and isinstance(g[0].target, ast.Name) \
                    and _is_pymoca_list(g[0].iter, "outputs") and _u(n.elt) == "ca.MX.sym(%s)" % g[0].target.id:
                return "declared", True
            raise TranslationError("output_variables: unsupported comprehension `%s`" % _u(n))
        if isinstance(n, ast.Call) and isinstance(n.func, ast.Name) and n.func.id == "list" and len(n.args) == 1 and not n.keywords:
            return ev(n.args[0])[0], True
        if isinstance(n, ast.Call) and isinstance(n.func, ast.Attribute) and n.func.attr == "copy" and not n.args and not n.keywords:
            return ev(n.func.value)[0], True
        if isinstance(n, ast.BinOp) and isinstance(n.op, ast.Add):
            return "(%s ++ %s)" % (ev(n.left)[0], ev(n.right)[0]), True
        raise TranslationError("output_variables: unsupported expression `%s`" % _u(n))

    result = None
    body = [s for s in fn.body if not (isinstance(s, ast.Expr) and isinstance(s.value, ast.Constant))]
    for k, st in enumerate(body):
        if isinstance(st, ast.Assign) and len(st.targets) == 1 and isinstance(st.targets[0], ast.Name):
            term, fresh = ev(st.value)
            if not fresh:
                raise TranslationError("output_variables: `%s` binds a list that is not a fresh copy" % _u(st))
            env[st.targets[0].id] = term
        elif isinstance(st, ast.Expr) and isinstance(st.value, ast.Call) and isinstance(st.value.func, ast.Attribute) \
                and st.value.func.attr == "extend" and isinstance(st.value.func.value, ast.Name) \
                and len(st.value.args) == 1 and not st.value.keywords:
            nm = st.value.func.value.id
            if nm not in env:
                raise TranslationError("output_variables: extend of an unknown list " + nm)
            env[nm] = "(%s ++ %s)" % (env[nm], ev(st.value.args[0])[0])
        elif isinstance(st, ast.Return) and st.value is not None and k == len(body) - 1:
            result = ev(st.value)[0]
        else:
            raise TranslationError("output_variables: unsupported statement `%s`" % _u(st))
    if result is None:
        raise TranslationError("output_variables: no return value")
    text = "def outputsGen (declared controls : List String) : List String :=\n  %s\n\n" % result
    text += ("theorem outputsGen_eq_model (declared controls : List String) :\n"
             "    outputsGen declared controls = outputsOf declared controls := by\n"
             "  simp [outputsGen, outputsOf]\n\n")
    return text, ["outputsGen_eq_model"]


EXPORTED = ("/-- `output_variables` on top of the role lists `__init__` builds -/\n"
            "def exportedGen (declared : List String) (inputs : List InputRec) : List String :=\n"
            "  outputsGen declared (roleListGen .control inputs)\n\n"
            "theorem exportedGen_eq_model (declared : List String) (inputs : List InputRec) :\n"
            "    exportedGen declared inputs = exportedOf declared inputs := by\n"
            "  simp [exportedGen, exportedOf, controlsOf, outputsGen_eq_model, roleListGen_eq_model]\n\n")


def translate(path):
    tree = ast.parse(open(path).read())
    out, thms, failed = [HEADER], [], []
    done = []
    for nm, fnc in (("__init__ (role classification)", translate_roles), ("output_variables", translate_outputs)):
        try:
            text, t = fnc(tree)
        except TranslationError as e:
            failed.append((nm, str(e)))
            continue
        out.append(text)
        thms += t
        done.append(nm)
    if len(done) == 2:
        out.append(EXPORTED)
        thms.append("exportedGen_eq_model")
    for (gen, method, use, sig, model, args, proof) in SPECS:
        try:
            body, info = translate_method(tree, method, gen)
        except TranslationError as e:
            failed.append((method, str(e)))
            continue
        except RecursionError:
            failed.append((method, "recursion limit"))
            continue
        out.append("def %sGen %s :=\n%s\n\n" % (gen, sig, body))
        out.append("theorem %sGen_eq_model %s : %sGen %s = %s := by\n%s\n\n" % (
            gen, sig.rsplit(" : ", 1)[0], gen, args, model, proof))
        envterm = "envs 0" if info["env"] == "zero" else "envs member"
        out.append("def %sEnvGen (envs : Nat → Env) (member : Nat) : Env := %s\n\n" % (gen, envterm))
        out.append("theorem %sEnvGen_eq_model (envs : Nat → Env) (member : Nat) :\n    %sEnvGen envs member = envOf envs .%s member := rfl\n\n"
                   % (gen, gen, use))
        out.append("def %sScopeGen : List VarList := [%s]\n\n" % (gen, ", ".join(info["scope"])))
        out.append("theorem %sScopeGen_eq_model : %sScopeGen = scopeOf .%s := rfl\n\n" % (gen, gen, use))
        thms += ["%sGen_eq_model" % gen, "%sEnvGen_eq_model" % gen, "%sScopeGen_eq_model" % gen]
    out.append("end RtcVerif.Gen\n")
    return "".join(out), thms, failed


def gen_modelica_attrs(c):
    """(re)generate lean/RtcVerif/Gen/ModelicaAttrs.lean; returns the extra obligation spec for c.prove"""
    gdir = os.path.join(LEAN_DIR, "RtcVerif", "Gen")
    os.makedirs(gdir, exist_ok=True)
    path = os.path.join(gdir, "ModelicaAttrs.lean")
    try:
        text, thms, failed = translate(os.path.join(REPO, SRC))
    except (SyntaxError, OSError) as e:
        c.broken.append(("translator: ModelicaMixin", "cannot read/parse the source: %s" % e))
        return []
    for name, why in failed:
        c.broken.append(("translator: ModelicaMixin.%s" % name, why))
    old = open(path).read() if os.path.exists(path) else None
    if old != text:
        tmp = path + ".tmp%d" % os.getpid()
        with open(tmp, "w") as f:
            f.write(text)
        os.replace(tmp, path)
    if not thms:
        return []
    return [("RtcVerif.Gen.ModelicaAttrs", "RtcVerif.Gen", thms)]
