"""
Source-to-Lean translation of the index / end-point / quadrature logic of the trajectory accessors
(second tie for C15, besides the correspondence check).  On every run of the C15 check the methods
are parsed from `$RTC_REPO/src/rtctools/optimization/collocated_integrated_optimization_problem.py`,
executed symbolically against the CLOSED table below and `lean/RtcVerif/Gen/Accessors.lean` is
(re)generated with

  derAtGen          the whole of `der_at`                              = C15.derAt
  assembleGen       `__states_times_in` from "Collect time stamps" on  = C15.assemble
                    (window selection, the two end-point decisions, order of concatenation), which
                    `C15.statesTimesIn` ends with (`statesTimesIn_eq_assemble`, by `rfl`)
  trapzGen          the quadrature of `integral`                       = C15.trapz

Table "Python construct -> model term" (anything else is REJECTED; library idioms are trusted
mappings to the model's abstract operation):

  der_at(self, variable, t, ensemble_member=0)
    self.initial_time                              p.t0
    self.alias_relation.canonical_signed(variable) (canonical, sign) with sign = sgn (p.canon name).2
    try: i = self.__differentiated_states_map[canonical] / except KeyError: pass / else: B
                                                   match p.initDerOf name with | some d => B | none => (rest)
    self.__initial_derivative_names[i]; self.variable_nominal(<that>); self.__indices[m][<that>]; X[idx]
                                                   d.1 (nominal of the initial derivative), d.2 (= X[idx])
    self.times(variable)                           p.timesOf name
    self.history(m); try: .. history[variable].times[:-1] .. except KeyError: ..
                                                   match p.histOf name with | some h => .. (h.map fst).dropLast .. | none => ..
    np.hstack((a, b))                              a ++ b
    if t == L[0]: ...                              match L with | [] => raise (IndexError) | h0 :: _ => if t = h0 ...
    for i in range(len(L)): if <cond(L[i], L[i+1])>: ... return e(L[i], L[i+1])   followed by (rest)
                                                   match scanPairs (fun a b => cond) L with | some (a, b) => e | none => (rest)
    self.state_at(variable, x, ensemble_member=m)  stateAt p name x false true   (defaults of state_at are read
                                                   from its signature: scaled=False, extrapolate=True)
    a - b on accessor values / dx / dt             Res.sub / Res.divBy ;   return <number>  .num ;  raise  .raise
    == <= < > >= and                               = ≤ < > ≥ ∧ on rationals (floats are exact rationals)

  __states_times_in, from the statement `(indices,) = np.where(...)` on
    (I,) = np.where(np.logical_and(T >= t0, T <= tf))      I := window t0 tf T   (T: `times` or `history_times`)
    T[I] / V[I] / state[I[0] : I[-1] + 1] under `len(I) > 0` else ca.MX()
                                                   times / values of `inWindow a b <series>` (a contiguous slice of a
                                                   sorted series = the filtered series; empty when no index)
    (t0 not in times[I]) and (t0 not in history_times[J])   !hasTime idx a && !hasTime hidx a   (also after `and` is commuted)
    x0 = self.state_at(variable, t0, m) / t0 = x0 = ca.MX()  endPoint p name a / no knot
    t = ca.vertcat(A, B, C, D);  x = ca.vertcat(A', B', C', D');  return x, t
                                                   the knot list A ++ B ++ C ++ D (same order in `t` and `x` required)

  integral
    x, t = self.__states_times_in(...)             the knot list ks (x = values, t = times)
    x.size1() > 1                                  ks.length > 1
    v[: x.size1() - 1] / v[1:]                     dropLast / tail
    c * v, u + v, u - v, u * v (vectors)           vscale, vadd, vsub, vmul (element-wise)
    ca.sum1(v)                                     List.sum ;   ca.MX(0)  0
"""
import ast
import os
from fractions import Fraction

from .common import LEAN_DIR, REPO
from .translate import TranslationError, _find_method

SRC = os.path.join("src", "rtctools", "optimization", "collocated_integrated_optimization_problem.py")
CLS = "CollocatedIntegratedOptimizationProblem"
CMP = {ast.Eq: "=", ast.NotEq: "≠", ast.Lt: "<", ast.LtE: "≤", ast.Gt: ">", ast.GtE: "≥"}
BIN = {ast.Add: "+", ast.Sub: "-", ast.Mult: "*", ast.Div: "/"}


def _dump(node, n=110):
    try:
        return ast.unparse(node)[:n]
    except Exception:
        return ast.dump(node)[:n]


def _lit(v):
    q = Fraction(v)
    return "%d" % q.numerator if q.denominator == 1 else "(%d / %d : Rat)" % (q.numerator, q.denominator)


def _self_attr(node, name=None):
    return isinstance(node, ast.Attribute) and isinstance(node.value, ast.Name) and node.value.id == "self" \
        and (name is None or node.attr == name)


def _exits(stmts):
    return any(isinstance(n, (ast.Return, ast.Raise)) for st in stmts for n in ast.walk(st))


class V:
    """a symbolic value: kind in {rat, res, list, name, mark:<what>} and a Lean term"""

    def __init__(self, kind, term=None, **kw):
        self.kind, self.term, self.kw = kind, term, kw


# =============================================================================================
# der_at


class DerAt:
    def __init__(self, state_at_defaults):
        self.sa = state_at_defaults
        self.joins = []  # (name, text)
        self.nj = 0

    # ---- expressions
    def rat(self, node, env):
        v = self.expr(node, env)
        if v.kind != "rat":
            raise TranslationError("a number is needed: `%s`" % _dump(node))
        return v.term

    def expr(self, node, env):
        if isinstance(node, ast.Constant) and isinstance(node.value, (int, float)) and not isinstance(node.value, bool):
            return V("rat", _lit(node.value))
        if isinstance(node, ast.Name):
            if node.id not in env:
                raise TranslationError("unknown name `%s`" % node.id)
            return env[node.id]
        if _self_attr(node, "initial_time"):
            return V("rat", "p.t0")
        if _self_attr(node, "solver_input"):
            return V("mark:X")
        if isinstance(node, ast.BinOp) and type(node.op) in BIN:
            a, b = self.expr(node.left, env), self.expr(node.right, env)
            if a.kind == "rat" and b.kind == "rat":
                return V("rat", "(%s %s %s)" % (a.term, BIN[type(node.op)], b.term))
            if a.kind == "res" and b.kind == "res" and isinstance(node.op, ast.Sub):
                return V("res", "(Res.sub %s %s)" % (a.term, b.term))
            if a.kind == "res" and b.kind == "rat" and isinstance(node.op, ast.Div):
                return V("res", "(Res.divBy %s %s)" % (b.term, a.term))
            raise TranslationError("arithmetic not in the table: `%s`" % _dump(node))
        if isinstance(node, ast.Subscript):
            base = self.expr(node.value, env)
            sl = node.slice
            if base.kind == "list" and isinstance(sl, ast.Slice) and sl.lower is None and sl.step is None \
                    and isinstance(sl.upper, ast.UnaryOp) and isinstance(sl.upper.op, ast.USub) \
                    and isinstance(sl.upper.operand, ast.Constant) and sl.upper.operand.value == 1:
                return V("list", "(%s).dropLast" % base.term)
            if base.kind == "list" and "loop" in base.kw:
                i = base.kw["loop"]
                if isinstance(sl, ast.Name) and sl.id == i:
                    return V("rat", "a")
                if isinstance(sl, ast.BinOp) and isinstance(sl.op, ast.Add) and isinstance(sl.left, ast.Name) \
                        and sl.left.id == i and isinstance(sl.right, ast.Constant) and sl.right.value == 1:
                    return V("rat", "b")
            if base.kind == "mark:X":
                idx = self.expr(sl, env)
                if idx.kind == "mark:idx":
                    return V("rat", "d.2")
            if base.kind == "mark:dmap":
                k = self.expr(sl, env)
                if k.kind == "mark:canonical":
                    return V("mark:stateindex")
                raise TranslationError("differentiated-state lookup with another key than the canonical name")
            if base.kind == "mark:dernames" and self.expr(sl, env).kind == "mark:stateindex":
                return V("mark:dername")
            if base.kind == "mark:indices":
                if self.expr(sl, env).kind == "mark:member":
                    return V("mark:indices_m")
            if base.kind == "mark:indices_m" and self.expr(sl, env).kind == "mark:dername":
                return V("mark:idx")
            if base.kind == "mark:histdict":
                k = self.expr(sl, env)
                if k.kind == "name":
                    return V("mark:histentry")
                raise TranslationError("history looked up with another key than `variable`")
            raise TranslationError("subscript not in the table: `%s`" % _dump(node))
        if isinstance(node, ast.Attribute):
            if _self_attr(node, "__differentiated_states_map"):
                return V("mark:dmap")
            if _self_attr(node, "__initial_derivative_names"):
                return V("mark:dernames")
            if _self_attr(node, "__indices"):
                return V("mark:indices")
            base = self.expr(node.value, env)
            if base.kind == "mark:histentry" and node.attr == "times":
                return V("list", "(h.map (·.1))")
            raise TranslationError("attribute not in the table: `%s`" % _dump(node))
        if isinstance(node, ast.Call):
            f = node.func
            if _self_attr(f, "times") and len(node.args) == 1 and not node.keywords and self.expr(node.args[0], env).kind == "name":
                return V("list", "p.timesOf name")
            if _self_attr(f, "history") and len(node.args) == 1 and self.expr(node.args[0], env).kind == "mark:member":
                return V("mark:histdict")
            if _self_attr(f, "variable_nominal") and len(node.args) == 1 and self.expr(node.args[0], env).kind == "mark:dername":
                return V("rat", "d.1")
            if isinstance(f, ast.Attribute) and isinstance(f.value, ast.Name) and f.value.id == "np" and f.attr == "hstack" \
                    and len(node.args) == 1 and isinstance(node.args[0], ast.Tuple) and len(node.args[0].elts) == 2:
                a, b = (self.expr(e, env) for e in node.args[0].elts)
                if a.kind == "list" and b.kind == "list":
                    return V("list", "(%s ++ %s)" % (a.term, b.term))
            if _self_attr(f, "state_at"):
                return self.state_at(node, env)
            raise TranslationError("call not in the table: `%s`" % _dump(node))
        raise TranslationError("expression not in the table: `%s`" % _dump(node))

    def state_at(self, node, env):
        params = ["variable", "t", "ensemble_member", "scaled", "extrapolate"]
        given = dict(zip(params, node.args))
        for k in node.keywords:
            if k.arg not in params or k.arg in given:
                raise TranslationError("state_at argument `%s`" % k.arg)
            given[k.arg] = k.value
        if "variable" not in given or self.expr(given["variable"], env).kind != "name":
            raise TranslationError("state_at on something else than `variable`: `%s`" % _dump(node))
        if "ensemble_member" not in given or self.expr(given["ensemble_member"], env).kind != "mark:member":
            raise TranslationError("state_at without the ensemble member: `%s`" % _dump(node))
        flags = []
        for k in ("scaled", "extrapolate"):
            if k in given:
                if not (isinstance(given[k], ast.Constant) and isinstance(given[k].value, bool)):
                    raise TranslationError("state_at flag `%s` is not a literal" % k)
                flags.append("true" if given[k].value else "false")
            else:
                flags.append("true" if self.sa[k] else "false")
        return V("res", "(stateAt p name %s %s %s)" % (self.rat(given["t"], env), flags[0], flags[1]))

    def cond(self, node, env, boolean=False):
        if isinstance(node, ast.BoolOp) and isinstance(node.op, ast.And):
            parts = [self.cond(v, env, boolean) for v in node.values]
            return (" && " if boolean else " ∧ ").join(parts)
        if isinstance(node, ast.Compare) and len(node.ops) == 1 and type(node.ops[0]) in CMP:
            c = "%s %s %s" % (self.rat(node.left, env), CMP[type(node.ops[0])], self.rat(node.comparators[0], env))
            return "decide (%s)" % c if boolean else c
        raise TranslationError("condition not in the table: `%s`" % _dump(node))

    # ---- statements
    def ret(self, v):
        if v.kind == "rat":
            return ".num %s" % v.term
        if v.kind == "res":
            return v.term
        raise TranslationError("returned value is neither a number nor an accessor value")

    def join(self, rest, env):
        """the statements after a branching statement become a definition of their own"""
        if not rest:
            raise TranslationError("the method can end without return")
        self.nj += 1
        name = "derAtGen_j%d" % self.nj
        text = self.block(rest, dict(env), 1)
        self.joins.append((name, text))
        return "%s p name t" % name

    def block(self, stmts, env, ind):
        pad = "  " * ind
        out = []
        for k, st in enumerate(stmts):
            rest = stmts[k + 1:]
            if isinstance(st, ast.Expr) and isinstance(st.value, ast.Constant):
                continue
            if isinstance(st, ast.Pass):
                continue
            if isinstance(st, ast.Return):
                out.append(self.ret(self.expr(st.value, env)))
                return "\n".join(pad + l for l in out)
            if isinstance(st, ast.Raise):
                out.append(".raise")
                return "\n".join(pad + l for l in out)
            if isinstance(st, ast.Assign) and len(st.targets) == 1:
                t = st.targets[0]
                if isinstance(t, ast.Tuple):
                    v = st.value
                    if len(t.elts) == 2 and isinstance(v, ast.Call) and isinstance(v.func, ast.Attribute) \
                            and v.func.attr == "canonical_signed" and _self_attr(v.func.value, "alias_relation") \
                            and len(v.args) == 1 and self.expr(v.args[0], env).kind == "name":
                        env[t.elts[0].id] = V("mark:canonical")
                        env[t.elts[1].id] = V("rat", "sgn (p.canon name).2")
                        continue
                    raise TranslationError("tuple assignment not in the table: `%s`" % _dump(st))
                if isinstance(t, ast.Name):
                    v = self.expr(st.value, env)
                    if v.kind == "list":
                        out.append("let %s : List Rat := %s" % (t.id, v.term))
                        v = V("list", t.id)
                    env[t.id] = v
                    continue
                raise TranslationError("assignment not in the table: `%s`" % _dump(st))
            if isinstance(st, ast.Try):
                txt = self.try_(st, rest, env, out, ind)
                if txt is None:
                    continue
                return "\n".join(pad + l for l in out) + ("\n" if out else "") + txt
            if isinstance(st, ast.If):
                txt = self.if_(st, rest, env, out, ind)
                if txt is None:
                    continue
                return "\n".join(pad + l for l in out) + ("\n" if out else "") + txt
            if isinstance(st, ast.For):
                txt = self.for_(st, rest, env, ind)
                return "\n".join(pad + l for l in out) + ("\n" if out else "") + txt
            raise TranslationError("statement not in the table: `%s`" % _dump(st))
        raise TranslationError("the method can end without return")

    def head_test(self, test, env):
        """`t == L[0]` (either order): returns (list term, other side) or None"""
        if isinstance(test, ast.Compare) and len(test.ops) == 1 and isinstance(test.ops[0], ast.Eq):
            for a, b in ((test.left, test.comparators[0]), (test.comparators[0], test.left)):
                if isinstance(b, ast.Subscript) and isinstance(b.slice, ast.Constant) and b.slice.value == 0:
                    base = self.expr(b.value, env)
                    if base.kind == "list":
                        return base.term, self.rat(a, env)
        return None

    def if_(self, st, rest, env, out, ind):
        pad = "  " * ind
        if not _exits(st.body + st.orelse):
            # value-valued if
            c = self.cond(st.test, env)
            ea, eb = dict(env), dict(env)
            la, lb = [], []
            self.pure(st.body, ea, la)
            self.pure(st.orelse, eb, lb)
            for nme in sorted(set(ea) | set(eb)):
                va, vb = ea.get(nme), eb.get(nme)
                if va is env.get(nme) and vb is env.get(nme):
                    continue
                if va is None or vb is None or va.kind != vb.kind or va.kind not in ("list", "rat"):
                    env.pop(nme, None)  # assigned in one branch only: not usable afterwards
                    continue
                ty = "List Rat" if va.kind == "list" else "Rat"
                out.append("let %s : %s := if %s then %s else %s" % (nme, ty, c, self.wrap(la, va.term), self.wrap(lb, vb.term)))
                env[nme] = V(va.kind, nme)
            return None
        ht = self.head_test(st.test, env)
        ex_a, ex_b = _always_exits(st.body), _always_exits(st.orelse)
        j = self.join(rest, env) if (rest and not ex_a and not ex_b) else None

        def branch(stmts, exits):
            if exits:
                return self.block(stmts, dict(env), ind + 1)
            if j is not None:
                return self.block_then(stmts, dict(env), ind + 1, j) if stmts else pad + "  " + j
            # the other branch always exits: this one simply continues with the rest (no duplication)
            return self.block(list(stmts) + list(rest), dict(env), ind + 1)

        if ht is not None:
            L, other = ht
            a, b = branch(st.body, ex_a), branch(st.orelse, ex_b)
            return (pad + "match %s with\n" % L + pad + "| [] => .raise\n" + pad + "| h0 :: _ =>\n"
                    + pad + "  if %s = h0 then\n" % other + _indent(a, 1) + "\n" + pad + "  else\n" + _indent(b, 1))
        c = self.cond(st.test, env)
        return pad + "if %s then\n" % c + branch(st.body, ex_a) + "\n" + pad + "else\n" + branch(st.orelse, ex_b)

    def block_then(self, stmts, env, ind, j):
        """a branch that may fall through to the join point `j`"""
        self._fall = j
        try:
            return self.block(list(stmts) + [ast.Return(value=ast.Name(id="@join", ctx=ast.Load()))],
                              dict(env, **{"@join": V("res", j)}), ind)
        finally:
            self._fall = None

    def wrap(self, lets, term):
        return "(" + " ".join(l + ";" for l in lets) + " " + term + ")" if lets else term

    def pure(self, stmts, env, lets):
        for st in stmts:
            if isinstance(st, (ast.Pass,)) or (isinstance(st, ast.Expr) and isinstance(st.value, ast.Constant)):
                continue
            if isinstance(st, ast.Assign) and len(st.targets) == 1 and isinstance(st.targets[0], ast.Name):
                env[st.targets[0].id] = self.expr(st.value, env)
                continue
            if isinstance(st, ast.Try):
                self.try_value(st, env, lets)
                continue
            raise TranslationError("statement not allowed in a value-valued branch: `%s`" % _dump(st))

    def try_value(self, st, env, lets):
        """try: .. history[variable] .. / except KeyError: ..   (no exits): a match on p.histOf name"""
        if not (len(st.handlers) == 1 and isinstance(st.handlers[0].type, ast.Name) and st.handlers[0].type.id == "KeyError"
                and not st.orelse and not st.finalbody):
            raise TranslationError("try statement not in the table: `%s`" % _dump(st))
        uses_hist = any(isinstance(n, ast.Subscript) and isinstance(n.value, ast.Name) and n.value.id in env
                        and env[n.value.id].kind == "mark:histdict" for s in st.body for n in ast.walk(s))
        if not uses_hist:
            raise TranslationError("try block without a history lookup: `%s`" % _dump(st))
        ea, eb = dict(env), dict(env)
        self.pure(st.body, ea, [])
        self.pure(st.handlers[0].body, eb, [])
        for nme in sorted(set(ea) | set(eb)):
            va, vb = ea.get(nme), eb.get(nme)
            if va is env.get(nme) and vb is env.get(nme):
                continue
            if va is None or vb is None or va.kind != vb.kind or va.kind != "list":
                env.pop(nme, None)
                continue
            env[nme] = V("list", "(match p.histOf name with | some h => %s | none => %s)" % (va.term, vb.term))

    def try_(self, st, rest, env, out, ind):
        pad = "  " * ind
        if not _exits(st.body + st.orelse + [s for h in st.handlers for s in h.body]):
            lets = []
            self.try_value(st, env, lets)
            return None
        # try: i = self.__differentiated_states_map[canonical] / except KeyError: pass / else: <block with return>
        ok = (len(st.body) == 1 and isinstance(st.body[0], ast.Assign) and len(st.body[0].targets) == 1
              and isinstance(st.body[0].targets[0], ast.Name)
              and len(st.handlers) == 1 and isinstance(st.handlers[0].type, ast.Name) and st.handlers[0].type.id == "KeyError"
              and all(isinstance(s, ast.Pass) for s in st.handlers[0].body) and not st.finalbody)
        if not ok:
            raise TranslationError("try statement not in the table: `%s`" % _dump(st))
        v = self.expr(st.body[0].value, env)
        if v.kind != "mark:stateindex":
            raise TranslationError("try block is not the differentiated-state lookup: `%s`" % _dump(st.body[0]))
        e2 = dict(env)
        e2[st.body[0].targets[0].id] = v
        if not (len(rest) == 1 and isinstance(rest[0], ast.Return) and isinstance(rest[0].value, ast.Name)
                and rest[0].value.id == "@join"):
            raise TranslationError("statements after the differentiated-state lookup inside its branch")
        j = env["@join"].term
        some = self.block(st.orelse, e2, ind + 1) if _always_exits(st.orelse) else None
        if some is None:
            raise TranslationError("the `else` block of the differentiated-state lookup must return")
        return pad + "match p.initDerOf name with\n" + pad + "| some d =>\n" + some + "\n" + pad + "| none => " + j

    def for_(self, st, rest, env, ind):
        pad = "  " * ind
        it = st.iter
        ok = (isinstance(st.target, ast.Name) and isinstance(it, ast.Call) and isinstance(it.func, ast.Name)
              and it.func.id == "range" and len(it.args) == 1 and isinstance(it.args[0], ast.Call)
              and isinstance(it.args[0].func, ast.Name) and it.args[0].func.id == "len" and len(it.args[0].args) == 1
              and not st.orelse and len(st.body) == 1 and isinstance(st.body[0], ast.If) and not st.body[0].orelse)
        if not ok:
            raise TranslationError("loop not in the table: `%s`" % _dump(st))
        L = self.expr(it.args[0].args[0], env)
        if L.kind != "list":
            raise TranslationError("loop over something else than a list of time stamps")
        e2 = dict(env)
        for nme, v in env.items():
            if v.kind == "list" and v.term == L.term:
                e2[nme] = V("list", v.term, loop=st.target.id)
        inner = st.body[0]
        c = self.cond(inner.test, e2, boolean=True)
        if not _always_exits(inner.body):
            raise TranslationError("the loop body must return at the first hit")
        hit = self.block(inner.body, e2, ind + 2)
        miss = self.block(rest, dict(env), ind + 2)
        return (pad + "match scanPairs (fun a b => %s) %s with\n" % (c, L.term) + pad + "| some (a, b) =>\n" + hit + "\n"
                + pad + "| none =>\n" + miss)


def _always_exits(stmts):
    if not stmts or stmts == [None]:
        return False
    last = stmts[-1]
    if isinstance(last, (ast.Return, ast.Raise)):
        return True
    if isinstance(last, ast.If):
        return _always_exits(last.body) and _always_exits(last.orelse)
    return False


def _indent(text, n):
    return "\n".join("  " * n + l for l in text.split("\n"))


def translate_der_at(tree):
    fn = _find_method(tree, CLS, "der_at")
    args = [a.arg for a in fn.args.args]
    if args != ["self", "variable", "t", "ensemble_member"]:
        raise TranslationError("der_at: unexpected signature %r" % args)
    sa = _find_method(tree, CLS, "state_at")
    sargs = [a.arg for a in sa.args.args]
    if sargs != ["self", "variable", "t", "ensemble_member", "scaled", "extrapolate"]:
        raise TranslationError("state_at: unexpected signature %r" % sargs)
    dflt = dict(zip(sargs[-len(sa.args.defaults):], sa.args.defaults))
    sa_defaults = {}
    for k in ("scaled", "extrapolate"):
        if k not in dflt or not isinstance(dflt[k], ast.Constant) or not isinstance(dflt[k].value, bool):
            raise TranslationError("state_at: default of `%s` is not a literal" % k)
        sa_defaults[k] = dflt[k].value
    tr = DerAt(sa_defaults)
    env = {"variable": V("name", "name"), "t": V("rat", "t"), "ensemble_member": V("mark:member")}
    tr._fall = None
    main = tr.block(fn.body, env, 1)
    return tr.joins, main


# =============================================================================================
# __states_times_in (tail) and integral


def translate_assemble(tree):
    fn = _find_method(tree, CLS, "__states_times_in")
    args = [a.arg for a in fn.args.args]
    if args[:4] != ["self", "variable", "t0", "tf"]:
        raise TranslationError("__states_times_in: unexpected signature %r" % args)
    body = fn.body
    start = None
    for k, st in enumerate(body):
        if isinstance(st, ast.Assign) and isinstance(st.value, ast.Call) and _dump(st.value.func) == "np.where":
            start = k
            break
    if start is None:
        raise TranslationError("__states_times_in: `np.where` window selection not found")
    sel = {}  # index name -> series ("state" | "hist")
    series_of_times = {"times": "state", "history_times": "hist"}
    series_of_vals = {"state": "state", "history": "hist"}
    env = {}
    ends = {}  # "a"/"b" -> (cond text)
    cat = {}
    returned = None
    WIN = {"state": "(inWindow a b state)", "hist": "(inWindow a b hist)"}

    def window(node):
        # np.where(np.logical_and(T >= t0, T <= tf))
        if not (isinstance(node, ast.Call) and _dump(node.func) == "np.where" and len(node.args) == 1):
            return None
        la = node.args[0]
        if not (isinstance(la, ast.Call) and _dump(la.func) == "np.logical_and" and len(la.args) == 2):
            raise TranslationError("window selection is not np.logical_and of two comparisons: `%s`" % _dump(node))
        got = set()
        T = None
        for cmp_ in la.args:
            if not (isinstance(cmp_, ast.Compare) and len(cmp_.ops) == 1 and isinstance(cmp_.left, ast.Name)
                    and isinstance(cmp_.comparators[0], ast.Name)):
                raise TranslationError("window comparison not in the table: `%s`" % _dump(cmp_))
            l, op, r = cmp_.left.id, type(cmp_.ops[0]), cmp_.comparators[0].id
            if l in series_of_times and r == "t0" and op is ast.GtE or l == "t0" and r in series_of_times and op is ast.LtE:
                got.add("lo")
                T = l if l in series_of_times else r
            elif l in series_of_times and r == "tf" and op is ast.LtE or l == "tf" and r in series_of_times and op is ast.GtE:
                got.add("hi")
                T2 = l if l in series_of_times else r
                if T is not None and T2 != T:
                    raise TranslationError("window bounds on different series")
                T = T2
            else:
                raise TranslationError("window comparison not `T >= t0` / `T <= tf`: `%s`" % _dump(cmp_))
        if got != {"lo", "hi"}:
            raise TranslationError("window needs both bounds: `%s`" % _dump(node))
        return series_of_times[T]

    def member(node):
        # `t0 not in times[indices]`  ->  ("a", "state")
        if isinstance(node, ast.Compare) and len(node.ops) == 1 and isinstance(node.ops[0], ast.NotIn) \
                and isinstance(node.left, ast.Name) and node.left.id in ("t0", "tf") and env.get(node.left.id, "bound") == "bound":
            s = node.comparators[0]
            if isinstance(s, ast.Subscript) and isinstance(s.value, ast.Name) and s.value.id in series_of_times \
                    and isinstance(s.slice, ast.Name) and sel.get(s.slice.id) == series_of_times[s.value.id]:
                return ("a" if node.left.id == "t0" else "b"), series_of_times[s.value.id]
        raise TranslationError("end-point test not in the table: `%s`" % _dump(node))

    def piece(node, want):
        """an argument of ca.vertcat: end point / window times / window values"""
        if isinstance(node, ast.Name) and node.id in ends and want in ("t", "x"):
            return ends[node.id]
        if isinstance(node, ast.Subscript) and isinstance(node.value, ast.Name) and isinstance(node.slice, ast.Name):
            table = series_of_times if want == "t" else series_of_vals
            if node.value.id in table and sel.get(node.slice.id) == table[node.value.id] and env.get(node.value.id) != "sliced":
                return WIN[table[node.value.id]]
        if isinstance(node, ast.Name) and want == "x" and env.get(node.id) == "sliced":
            return WIN["state"]
        raise TranslationError("ca.vertcat argument not in the table: `%s`" % _dump(node))

    for st in body[start:]:
        if isinstance(st, ast.Expr) and isinstance(st.value, ast.Constant):
            continue
        if isinstance(st, ast.Assign) and len(st.targets) == 1 and isinstance(st.targets[0], ast.Tuple) \
                and len(st.targets[0].elts) == 1 and isinstance(st.targets[0].elts[0], ast.Name):
            s = window(st.value)
            if s is None:
                raise TranslationError("statement not in the table: `%s`" % _dump(st))
            sel[st.targets[0].elts[0].id] = s
            continue
        if isinstance(st, ast.If):
            test = st.test
            # len(indices) > 0: contiguous slice of the state, else nothing
            if isinstance(test, ast.Compare) and isinstance(test.left, ast.Call) and _dump(test.left.func) == "len":
                I = test.left.args[0]
                ok = (isinstance(I, ast.Name) and sel.get(I.id) == "state" and isinstance(test.ops[0], ast.Gt)
                      and isinstance(test.comparators[0], ast.Constant) and test.comparators[0].value == 0
                      and len(st.body) == 1 and len(st.orelse) == 1
                      and _dump(st.body[0]) == "state = state[%s[0]:%s[-1] + 1]" % (I.id, I.id)
                      and _dump(st.orelse[0]) == "state = ca.MX()")
                if not ok:
                    raise TranslationError("state slice not in the table: `%s`" % _dump(st, 200))
                env["state"] = "sliced"
                continue
            # end point decision
            if not (isinstance(test, ast.BoolOp) and isinstance(test.op, ast.And) and len(test.values) == 2):
                raise TranslationError("end-point decision not in the table: `%s`" % _dump(test))
            m = [member(v) for v in test.values]
            if m[0][0] != m[1][0] or {m[0][1], m[1][1]} != {"state", "hist"}:
                raise TranslationError("end-point decision must test the window's state AND history stamps: `%s`" % _dump(test))
            which = m[0][0]
            tname, xname = ("t0", "x0") if which == "a" else ("tf", "xf")
            ok = (len(st.body) == 1 and len(st.orelse) == 1
                  and _dump(st.body[0]) == "%s = self.state_at(variable, %s, ensemble_member)" % (xname, tname)
                  and _dump(st.orelse[0]) == "%s = %s = ca.MX()" % (tname, xname))
            if not ok:
                raise TranslationError("end-point branches not in the table: `%s`" % _dump(st, 200))
            order = [WIN[s] for _, s in m]
            c = "(!hasTime %s %s && !hasTime %s %s)" % (order[0], which, order[1], which)
            ends[tname] = ends[xname] = "(← (if %s then endPoint p name %s else some []))" % (c, which)
            env[tname] = "end"
            continue
        if isinstance(st, ast.Assign) and len(st.targets) == 1 and isinstance(st.targets[0], ast.Name) \
                and isinstance(st.value, ast.Call) and _dump(st.value.func) == "ca.vertcat":
            nme = st.targets[0].id
            if nme not in ("t", "x"):
                raise TranslationError("concatenation into `%s`" % nme)
            cat[nme] = [piece(a, nme) for a in st.value.args]
            continue
        if isinstance(st, ast.Return):
            returned = _dump(st.value)
            continue
        raise TranslationError("statement not in the table: `%s`" % _dump(st))
    if returned not in ("(x, t)", "x, t"):
        raise TranslationError("__states_times_in does not return `x, t`")
    if "t" not in cat or "x" not in cat or cat["t"] != cat["x"]:
        raise TranslationError("time stamps and values are not concatenated in the same order")
    if "t0" not in ends or "tf" not in ends:
        raise TranslationError("an end-point decision is missing")
    return cat["x"]


def translate_integral(tree):
    fn = _find_method(tree, CLS, "integral")
    stmts = [s for s in fn.body if not (isinstance(s, ast.Expr) and isinstance(s.value, ast.Constant))]
    if not (len(stmts) == 2 and isinstance(stmts[0], ast.Assign) and isinstance(stmts[0].targets[0], ast.Tuple)
            and [e.id for e in stmts[0].targets[0].elts] == ["x", "t"]
            and _dump(stmts[0].value.func) == "self.__states_times_in" and isinstance(stmts[1], ast.If)):
        raise TranslationError("integral: not `x, t = self.__states_times_in(...)` followed by one `if`")
    iff = stmts[1]
    if _dump(iff.test) != "x.size1() > 1":
        raise TranslationError("integral: guard is not `x.size1() > 1`")
    env = {"x": "(ks.map (·.2))", "t": "(ks.map (·.1))"}

    def vec(node):
        if isinstance(node, ast.Name):
            if node.id in env:
                return ("vec", env[node.id])
            raise TranslationError("integral: unknown name `%s`" % node.id)
        if isinstance(node, ast.Constant) and isinstance(node.value, (int, float)):
            return ("num", _lit(node.value))
        if isinstance(node, ast.Subscript) and isinstance(node.slice, ast.Slice) and node.slice.step is None:
            k, b = vec(node.value)
            lo, up = node.slice.lower, node.slice.upper
            if k == "vec" and lo is None and up is not None and _dump(up) == "x.size1() - 1":
                return ("vec", "%s.dropLast" % b)
            if k == "vec" and up is None and isinstance(lo, ast.Constant) and lo.value == 1:
                return ("vec", "%s.tail" % b)
            raise TranslationError("integral: slice not in the table: `%s`" % _dump(node))
        if isinstance(node, ast.BinOp) and type(node.op) in (ast.Add, ast.Sub, ast.Mult):
            (ka, a), (kb, b) = vec(node.left), vec(node.right)
            if ka == "vec" and kb == "vec":
                return ("vec", "(%s %s %s)" % ({ast.Add: "vadd", ast.Sub: "vsub", ast.Mult: "vmul"}[type(node.op)], a, b))
            if isinstance(node.op, ast.Mult) and {ka, kb} == {"num", "vec"}:
                return ("vec", "(vscale %s %s)" % ((a, b) if ka == "num" else (b, a)))
        raise TranslationError("integral: expression not in the table: `%s`" % _dump(node))

    result = None
    for st in iff.body:
        if isinstance(st, ast.Expr) and isinstance(st.value, ast.Constant):
            continue
        if isinstance(st, ast.Assign) and len(st.targets) == 1 and isinstance(st.targets[0], ast.Name):
            k, v = vec(st.value)
            if k != "vec":
                raise TranslationError("integral: `%s`" % _dump(st))
            env[st.targets[0].id] = v
            continue
        if isinstance(st, ast.Return) and isinstance(st.value, ast.Call) and _dump(st.value.func) == "ca.sum1" \
                and len(st.value.args) == 1:
            k, v = vec(st.value.args[0])
            result = "%s.sum" % v
            continue
        raise TranslationError("integral: statement not in the table: `%s`" % _dump(st))
    if result is None:
        raise TranslationError("integral: no `return ca.sum1(...)`")
    if not (len(iff.orelse) == 1 and _dump(iff.orelse[0]) == "return ca.MX(0)"):
        raise TranslationError("integral: the other branch is not `return ca.MX(0)`")
    return result


# =============================================================================================

GEN_TEMPLATE = """import RtcVerif.Proofs.C15Gen
/-!
GENERATED on every run of the C15 check by harness/translate_c15.py from `der_at`,
`__states_times_in` (from the window selection on) and `integral` in
/repo/src/rtctools/optimization/collocated_integrated_optimization_problem.py
(symbolic execution against the table in the header of the translator).  Do not edit.
The theorems tie the source, read this way, to the model the property theorems of C15 are about.
-/
set_option linter.unusedVariables false
set_option linter.unusedSimpArgs false
set_option linter.unreachableTactic false
set_option linter.unusedTactic false
namespace RtcVerif.Gen
open RtcVerif RtcVerif.Interp RtcVerif.C15

%(joins)s
/-- `der_at(variable, t, m)` -/
def derAtGen (p : Prob) (name : String) (t : Rat) : Res :=
%(main)s

/-- the model of `der_at`, with its special case written as a branch -/
theorem derAt_unfold (p : Prob) (name : String) (t : Rat) :
    C15.derAt p name t =
      (match (if t = p.t0 then p.initDerOf name else none) with
       | some d => .num (d.1 * sgn (p.canon name).2 * d.2)
       | none =>
         match p.derKnots name t with
         | [] => Res.raise
         | h0 :: rest =>
           if t = h0 then .num 0
           else match findSeg (h0 :: rest) t with
             | none => .raise
             | some (a, b) => ((stateAt p name b false true).sub (stateAt p name a false true)).divBy (b - a)) := by
  unfold C15.derAt
  cases (if t = p.t0 then p.initDerOf name else none) with
  | none => rfl
  | some d => rfl

theorem derAtGen_eq_model (p : Prob) (name : String) (t : Rat) : derAtGen p name t = C15.derAt p name t := by
  rw [derAt_unfold]
  unfold derAtGen %(joinnames)s Prob.derKnots
  simp only [findSeg_eq_scanPairs, gt_iff_lt, ge_iff_le]
  by_cases h0 : t = p.t0 <;> by_cases h1 : t ≤ p.t0 <;> cases hd : p.initDerOf name <;> cases hh : p.histOf name <;>
    simp only [h0, h1, hd, hh, if_true, if_false, le_refl] <;>
    first
      | rfl
      | (split <;> [rfl; (split <;> [rfl; (split <;> simp_all [Bool.and_comm])])])
      | (congr 1; ring; done)
      | (simp_all [Bool.and_comm]; done)

/-- `__states_times_in` from "Collect time stamps and states" on (`a`, `b` = window; `hist`, `state` =
    the history knots available and the signed, unscaled state knots computed before) -/
def assembleGen (p : Prob) (name : String) (a b : Rat) (hist state : Knots) : Option Knots := do
  some (%(assemble)s)

theorem assembleGen_eq_model (p : Prob) (name : String) (a b : Rat) (hist state : Knots) :
    assembleGen p name a b hist state = C15.assemble p name a b hist state := by
  unfold assembleGen C15.assemble endKnot
  simp only [hasTime_append]
  cases h1 : hasTime (inWindow a b hist) a <;> cases h2 : hasTime (inWindow a b state) a <;>
    cases h3 : hasTime (inWindow a b hist) b <;> cases h4 : hasTime (inWindow a b state) b <;>
    simp [List.append_assoc]

/-- the quadrature of `integral` over the knot list (`x` = values, `t` = times) -/
def trapzGen (ks : Knots) : Rat :=
  if ks.length > 1 then %(trapz)s else 0

theorem trapzGen_eq_model (ks : Knots) : trapzGen ks = C15.trapz ks := by
  rw [← trapzVec_eq_trapz]
  unfold trapzGen trapzVec
  first
    | rfl
    | (simp only [vadd_comm, vmul_comm])
    | (unfold vmul vadd vsub vscale; congr 2; simp only [List.zipWith_comm_of_comm, mul_comm, add_comm])

end RtcVerif.Gen
"""

THEOREMS = ["derAtGen_eq_model", "assembleGen_eq_model", "trapzGen_eq_model"]


def gen_accessors(c):
    """(re)generate lean/RtcVerif/Gen/Accessors.lean; returns the extra obligation spec for c.prove"""
    gdir = os.path.join(LEAN_DIR, "RtcVerif", "Gen")
    os.makedirs(gdir, exist_ok=True)
    path = os.path.join(gdir, "Accessors.lean")
    what = "der_at / __states_times_in / integral"
    try:
        tree = ast.parse(open(os.path.join(REPO, SRC)).read())
        joins, main = translate_der_at(tree)
        pieces = translate_assemble(tree)
        trapz = translate_integral(tree)
    except TranslationError as e:
        c.broken.append(("translator: " + what, str(e)))
        return []
    except (OSError, SyntaxError) as e:
        c.broken.append(("translator: " + what, "cannot read/parse the source: %s" % e))
        return []
    jtext = "".join("def %s (p : Prob) (name : String) (t : Rat) : Res :=\n%s\n\n" % (n, t) for n, t in reversed(joins))
    text = GEN_TEMPLATE % dict(joins=jtext, main=main, joinnames=" ".join(n for n, _ in joins),
                               assemble=" ++ ".join(pieces), trapz=trapz)
    old = open(path).read() if os.path.exists(path) else None
    if old != text:
        tmp = path + ".tmp%d" % os.getpid()
        with open(tmp, "w") as f:
            f.write(text)
        os.replace(tmp, path)
    return [("RtcVerif.Gen.Accessors", "RtcVerif.Gen", THEOREMS)]
