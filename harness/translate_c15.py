"""
Source-to-Lean translation of the index / end-point / quadrature logic of the trajectory accessors
(second tie for C15, besides the correspondence check).  On every run of the C15 check the methods
are parsed from `$RTC_REPO/src/rtctools/optimization/collocated_integrated_optimization_problem.py`,
executed symbolically against the CLOSED table below and `lean/RtcVerif/Gen/Accessors.lean` is
(re)generated with

  derAtGen          the whole of `der_at`                              = C15.derAt
  assembleGen       `__states_times_in` from "Collect time stamps" on  = C15.assemble
                    (window selection, the two end-point decisions, order of concatenation), which
                    `C15.statesTimesIn` ends with (`statesTimesIn_eq_assemble`, by `rfl`)
  trapzGen          the quadrature of `integral`                       = C15.trapz

and `lean/RtcVerif/Gen/StateAt.lean` (`gen_state_at`, second table further down in this file) with

  stateAtGen        the whole of `state_at` (path by path)             = C15.stateAt
  statesPrefixGen   `__states_times_in` up to the window selection; followed by C15.assemble = C15.statesTimesIn
  statesInGen       `states_in`                                        = C15.statesIn
  extract*Gen       de-scaling statements of `extract_controls` / `extract_states` (collocated scalar variables,
                    constant inputs)                                   = SVar.results / C15.ciResults

Table "Python construct -> model term" (anything else is REJECTED; library idioms are trusted
mappings to the model's abstract operation):

  der_at(self, variable, t, ensemble_member=0)
    self.initial_time                              p.t0
    self.alias_relation.canonical_signed(variable) (canonical, sign) with sign = sgn (p.canon name).2
    try: i = self.__differentiated_states_map[canonical] / except KeyError: pass / else: B
                                                   match p.initDerOf name with | some d => B | none => (rest)
    self.__initial_derivative_names[i]; self.variable_nominal(<that>); self.__indices[m][<that>]; X[idx]
                                                   d.1 (nominal of the initial derivative), d.2 (= X[idx])
    self.times(variable)                           p.timesOf name
    self.history(m); try: .. history[variable].times[:-1] .. except KeyError: ..
                                                   match p.histOf name with | some h => .. (h.map fst).dropLast .. | none => ..
    np.hstack((a, b))                              a ++ b
    if t == L[0]: ...                              match L with | [] => raise (IndexError) | h0 :: _ => if t = h0 ...
    for i in range(len(L)): if <cond(L[i], L[i+1])>: ... return e(L[i], L[i+1])   followed by (rest)
                                                   match scanPairs (fun a b => cond) L with | some (a, b) => e | none => (rest)
    self.state_at(variable, x, ensemble_member=m)  stateAt p name x false true   (defaults of state_at are read
                                                   from its signature: scaled=False, extrapolate=True)
    a - b on accessor values / dx / dt             Res.sub / Res.divBy ;   return <number>  .num ;  raise  .raise
    == <= < > >= and                               = ≤ < > ≥ ∧ on rationals (floats are exact rationals)

  __states_times_in, from the statement `(indices,) = np.where(...)` on
    (I,) = np.where(np.logical_and(T >= t0, T <= tf))      I := window t0 tf T   (T: `times` or `history_times`)
    T[I] / V[I] / state[I[0] : I[-1] + 1] under `len(I) > 0` else ca.MX()
                                                   times / values of `inWindow a b <series>` (a contiguous slice of a
                                                   sorted series = the filtered series; empty when no index)
    (t0 not in times[I]) and (t0 not in history_times[J])   !hasTime idx a && !hasTime hidx a   (also after `and` is commuted)
    x0 = self.state_at(variable, t0, m) / t0 = x0 = ca.MX()  endPoint p name a / no knot
    t = ca.vertcat(A, B, C, D);  x = ca.vertcat(A', B', C', D');  return x, t
                                                   the knot list A ++ B ++ C ++ D (same order in `t` and `x` required)

  integral
    x, t = self.__states_times_in(...)             the knot list ks (x = values, t = times)
    x.size1() > 1                                  ks.length > 1
    v[: x.size1() - 1] / v[1:]                     dropLast / tail
    c * v, u + v, u - v, u * v (vectors)           vscale, vadd, vsub, vmul (element-wise)
    ca.sum1(v)                                     List.sum ;   ca.MX(0)  0
"""
import ast
import os
from fractions import Fraction

from .common import LEAN_DIR, REPO
from .translate import TranslationError, _find_method

SRC = os.path.join("src", "rtctools", "optimization", "collocated_integrated_optimization_problem.py")
CLS = "CollocatedIntegratedOptimizationProblem"
CMP = {ast.Eq: "=", ast.NotEq: "≠", ast.Lt: "<", ast.LtE: "≤", ast.Gt: ">", ast.GtE: "≥"}
BIN = {ast.Add: "+", ast.Sub: "-", ast.Mult: "*", ast.Div: "/"}


def _dump(node, n=110):
    try:
        return ast.unparse(node)[:n]
    except Exception:
        return ast.dump(node)[:n]


def _lit(v):
    q = Fraction(v)
    return "%d" % q.numerator if q.denominator == 1 else "(%d / %d : Rat)" % (q.numerator, q.denominator)


def _self_attr(node, name=None):
    return isinstance(node, ast.Attribute) and isinstance(node.value, ast.Name) and node.value.id == "self" \
        and (name is None or node.attr == name)


def _exits(stmts):
    return any(isinstance(n, (ast.Return, ast.Raise)) for st in stmts for n in ast.walk(st))


class V:
    """a symbolic value: kind in {rat, res, list, name, mark:<what>} and a Lean term"""

    def __init__(self, kind, term=None, **kw):
        self.kind, self.term, self.kw = kind, term, kw


# =============================================================================================
# der_at


class DerAt:
    def __init__(self, state_at_defaults):
        self.sa = state_at_defaults
        self.joins = []  # (name, text)
        self.nj = 0

    # ---- expressions
    def rat(self, node, env):
        v = self.expr(node, env)
        if v.kind != "rat":
            raise TranslationError("a number is needed: `%s`" % _dump(node))
        return v.term

    def expr(self, node, env):
        if isinstance(node, ast.Constant) and isinstance(node.value, (int, float)) and not isinstance(node.value, bool):
            return V("rat", _lit(node.value))
        if isinstance(node, ast.Name):
            if node.id not in env:
                raise TranslationError("unknown name `%s`" % node.id)
            return env[node.id]
        if _self_attr(node, "initial_time"):
            return V("rat", "p.t0")
        if _self_attr(node, "solver_input"):
            return V("mark:X")
        if isinstance(node, ast.BinOp) and type(node.op) in BIN:
            a, b = self.expr(node.left, env), self.expr(node.right, env)
            if a.kind == "rat" and b.kind == "rat":
                return V("rat", "(%s %s %s)" % (a.term, BIN[type(node.op)], b.term))
            if a.kind == "res" and b.kind == "res" and isinstance(node.op, ast.Sub):
                return V("res", "(Res.sub %s %s)" % (a.term, b.term))
            if a.kind == "res" and b.kind == "rat" and isinstance(node.op, ast.Div):
                return V("res", "(Res.divBy %s %s)" % (b.term, a.term))
            raise TranslationError("arithmetic not in the table: `%s`" % _dump(node))
        if isinstance(node, ast.Subscript):
            base = self.expr(node.value, env)
            sl = node.slice
            if base.kind == "list" and isinstance(sl, ast.Slice) and sl.lower is None and sl.step is None \
                    and isinstance(sl.upper, ast.UnaryOp) and isinstance(sl.upper.op, ast.USub) \
                    and isinstance(sl.upper.operand, ast.Constant) and sl.upper.operand.value == 1:
                return V("list", "(%s).dropLast" % base.term)
            if base.kind == "list" and "loop" in base.kw:
                i = base.kw["loop"]
                if isinstance(sl, ast.Name) and sl.id == i:
                    return V("rat", "a")
                if isinstance(sl, ast.BinOp) and isinstance(sl.op, ast.Add) and isinstance(sl.left, ast.Name) \
                        and sl.left.id == i and isinstance(sl.right, ast.Constant) and sl.right.value == 1:
                    return V("rat", "b")
            if base.kind == "mark:X":
                idx = self.expr(sl, env)
                if idx.kind == "mark:idx":
                    return V("rat", "d.2")
            if base.kind == "mark:dmap":
                k = self.expr(sl, env)
                if k.kind == "mark:canonical":
                    return V("mark:stateindex")
                raise TranslationError("differentiated-state lookup with another key than the canonical name")
            if base.kind == "mark:dernames" and self.expr(sl, env).kind == "mark:stateindex":
                return V("mark:dername")
            if base.kind == "mark:indices":
                if self.expr(sl, env).kind == "mark:member":
                    return V("mark:indices_m")
            if base.kind == "mark:indices_m" and self.expr(sl, env).kind == "mark:dername":
                return V("mark:idx")
            if base.kind == "mark:histdict":
                k = self.expr(sl, env)
                if k.kind == "name":
                    return V("mark:histentry")
                raise TranslationError("history looked up with another key than `variable`")
            raise TranslationError("subscript not in the table: `%s`" % _dump(node))
        if isinstance(node, ast.Attribute):
            if _self_attr(node, "__differentiated_states_map"):
                return V("mark:dmap")
            if _self_attr(node, "__initial_derivative_names"):
                return V("mark:dernames")
            if _self_attr(node, "__indices"):
                return V("mark:indices")
            base = self.expr(node.value, env)
            if base.kind == "mark:histentry" and node.attr == "times":
                return V("list", "(h.map (·.1))")
            raise TranslationError("attribute not in the table: `%s`" % _dump(node))
        if isinstance(node, ast.Call):
            f = node.func
            if _self_attr(f, "times") and len(node.args) == 1 and not node.keywords and self.expr(node.args[0], env).kind == "name":
                return V("list", "p.timesOf name")
            if _self_attr(f, "history") and len(node.args) == 1 and self.expr(node.args[0], env).kind == "mark:member":
                return V("mark:histdict")
            if _self_attr(f, "variable_nominal") and len(node.args) == 1 and self.expr(node.args[0], env).kind == "mark:dername":
                return V("rat", "d.1")
            if isinstance(f, ast.Attribute) and isinstance(f.value, ast.Name) and f.value.id == "np" and f.attr == "hstack" \
                    and len(node.args) == 1 and isinstance(node.args[0], ast.Tuple) and len(node.args[0].elts) == 2:
                a, b = (self.expr(e, env) for e in node.args[0].elts)
                if a.kind == "list" and b.kind == "list":
                    return V("list", "(%s ++ %s)" % (a.term, b.term))
            if _self_attr(f, "state_at"):
                return self.state_at(node, env)
            raise TranslationError("call not in the table: `%s`" % _dump(node))
        raise TranslationError("expression not in the table: `%s`" % _dump(node))

    def state_at(self, node, env):
        params = ["variable", "t", "ensemble_member", "scaled", "extrapolate"]
        given = dict(zip(params, node.args))
        for k in node.keywords:
            if k.arg not in params or k.arg in given:
                raise TranslationError("state_at argument `%s`" % k.arg)
            given[k.arg] = k.value
        if "variable" not in given or self.expr(given["variable"], env).kind != "name":
            raise TranslationError("state_at on something else than `variable`: `%s`" % _dump(node))
        if "ensemble_member" not in given or self.expr(given["ensemble_member"], env).kind != "mark:member":
            raise TranslationError("state_at without the ensemble member: `%s`" % _dump(node))
        flags = []
        for k in ("scaled", "extrapolate"):
            if k in given:
                if not (isinstance(given[k], ast.Constant) and isinstance(given[k].value, bool)):
                    raise TranslationError("state_at flag `%s` is not a literal" % k)
                flags.append("true" if given[k].value else "false")
            else:
                flags.append("true" if self.sa[k] else "false")
        return V("res", "(stateAt p name %s %s %s)" % (self.rat(given["t"], env), flags[0], flags[1]))

    def cond(self, node, env, boolean=False):
        if isinstance(node, ast.BoolOp) and isinstance(node.op, ast.And):
            parts = [self.cond(v, env, boolean) for v in node.values]
            return (" && " if boolean else " ∧ ").join(parts)
        if isinstance(node, ast.Compare) and len(node.ops) == 1 and type(node.ops[0]) in CMP:
            c = "%s %s %s" % (self.rat(node.left, env), CMP[type(node.ops[0])], self.rat(node.comparators[0], env))
            return "decide (%s)" % c if boolean else c
        raise TranslationError("condition not in the table: `%s`" % _dump(node))

    # ---- statements
    def ret(self, v):
        if v.kind == "rat":
            return ".num %s" % v.term
        if v.kind == "res":
            return v.term
        raise TranslationError("returned value is neither a number nor an accessor value")

    def join(self, rest, env):
        """the statements after a branching statement become a definition of their own"""
        if not rest:
            raise TranslationError("the method can end without return")
        self.nj += 1
        name = "derAtGen_j%d" % self.nj
        text = self.block(rest, dict(env), 1)
        self.joins.append((name, text))
        return "%s p name t" % name

    def block(self, stmts, env, ind):
        pad = "  " * ind
        out = []
        for k, st in enumerate(stmts):
            rest = stmts[k + 1:]
            if isinstance(st, ast.Expr) and isinstance(st.value, ast.Constant):
                continue
            if isinstance(st, ast.Pass):
                continue
            if isinstance(st, ast.Return):
                out.append(self.ret(self.expr(st.value, env)))
                return "\n".join(pad + l for l in out)
            if isinstance(st, ast.Raise):
                out.append(".raise")
                return "\n".join(pad + l for l in out)
            if isinstance(st, ast.Assign) and len(st.targets) == 1:
                t = st.targets[0]
                if isinstance(t, ast.Tuple):
                    v = st.value
                    if len(t.elts) == 2 and isinstance(v, ast.Call) and isinstance(v.func, ast.Attribute) \
                            and v.func.attr == "canonical_signed" and _self_attr(v.func.value, "alias_relation") \
                            and len(v.args) == 1 and self.expr(v.args[0], env).kind == "name":
                        env[t.elts[0].id] = V("mark:canonical")
                        env[t.elts[1].id] = V("rat", "sgn (p.canon name).2")
                        continue
                    raise TranslationError("tuple assignment not in the table: `%s`" % _dump(st))
                if isinstance(t, ast.Name):
                    v = self.expr(st.value, env)
                    if v.kind == "list":
                        out.append("let %s : List Rat := %s" % (t.id, v.term))
                        v = V("list", t.id)
                    env[t.id] = v
                    continue
                raise TranslationError("assignment not in the table: `%s`" % _dump(st))
            if isinstance(st, ast.Try):
                txt = self.try_(st, rest, env, out, ind)
                if txt is None:
                    continue
                return "\n".join(pad + l for l in out) + ("\n" if out else "") + txt
            if isinstance(st, ast.If):
                txt = self.if_(st, rest, env, out, ind)
                if txt is None:
                    continue
                return "\n".join(pad + l for l in out) + ("\n" if out else "") + txt
            if isinstance(st, ast.For):
                txt = self.for_(st, rest, env, ind)
                return "\n".join(pad + l for l in out) + ("\n" if out else "") + txt
            raise TranslationError("statement not in the table: `%s`" % _dump(st))
        raise TranslationError("the method can end without return")

    def head_test(self, test, env):
        """`t == L[0]` (either order): returns (list term, other side) or None"""
        if isinstance(test, ast.Compare) and len(test.ops) == 1 and isinstance(test.ops[0], ast.Eq):
            for a, b in ((test.left, test.comparators[0]), (test.comparators[0], test.left)):
                if isinstance(b, ast.Subscript) and isinstance(b.slice, ast.Constant) and b.slice.value == 0:
                    base = self.expr(b.value, env)
                    if base.kind == "list":
                        return base.term, self.rat(a, env)
        return None

    def if_(self, st, rest, env, out, ind):
        pad = "  " * ind
        if not _exits(st.body + st.orelse):
            # value-valued if
            c = self.cond(st.test, env)
            ea, eb = dict(env), dict(env)
            la, lb = [], []
            self.pure(st.body, ea, la)
            self.pure(st.orelse, eb, lb)
            for nme in sorted(set(ea) | set(eb)):
                va, vb = ea.get(nme), eb.get(nme)
                if va is env.get(nme) and vb is env.get(nme):
                    continue
                if va is None or vb is None or va.kind != vb.kind or va.kind not in ("list", "rat"):
                    env.pop(nme, None)  # assigned in one branch only: not usable afterwards
                    continue
                ty = "List Rat" if va.kind == "list" else "Rat"
                out.append("let %s : %s := if %s then %s else %s" % (nme, ty, c, self.wrap(la, va.term), self.wrap(lb, vb.term)))
                env[nme] = V(va.kind, nme)
            return None
        ht = self.head_test(st.test, env)
        ex_a, ex_b = _always_exits(st.body), _always_exits(st.orelse)
        j = self.join(rest, env) if (rest and not ex_a and not ex_b) else None

        def branch(stmts, exits):
            if exits:
                return self.block(stmts, dict(env), ind + 1)
            if j is not None:
                return self.block_then(stmts, dict(env), ind + 1, j) if stmts else pad + "  " + j
            # the other branch always exits: this one simply continues with the rest (no duplication)
            return self.block(list(stmts) + list(rest), dict(env), ind + 1)

        if ht is not None:
            L, other = ht
            a, b = branch(st.body, ex_a), branch(st.orelse, ex_b)
            return (pad + "match %s with\n" % L + pad + "| [] => .raise\n" + pad + "| h0 :: _ =>\n"
                    + pad + "  if %s = h0 then\n" % other + _indent(a, 1) + "\n" + pad + "  else\n" + _indent(b, 1))
        c = self.cond(st.test, env)
        return pad + "if %s then\n" % c + branch(st.body, ex_a) + "\n" + pad + "else\n" + branch(st.orelse, ex_b)

    def block_then(self, stmts, env, ind, j):
        """a branch that may fall through to the join point `j`"""
        self._fall = j
        try:
            return self.block(list(stmts) + [ast.Return(value=ast.Name(id="@join", ctx=ast.Load()))],
                              dict(env, **{"@join": V("res", j)}), ind)
        finally:
            self._fall = None

    def wrap(self, lets, term):
        return "(" + " ".join(l + ";" for l in lets) + " " + term + ")" if lets else term

    def pure(self, stmts, env, lets):
        for st in stmts:
            if isinstance(st, (ast.Pass,)) or (isinstance(st, ast.Expr) and isinstance(st.value, ast.Constant)):
                continue
            if isinstance(st, ast.Assign) and len(st.targets) == 1 and isinstance(st.targets[0], ast.Name):
                env[st.targets[0].id] = self.expr(st.value, env)
                continue
            if isinstance(st, ast.Try):
                self.try_value(st, env, lets)
                continue
            raise TranslationError("statement not allowed in a value-valued branch: `%s`" % _dump(st))

    def try_value(self, st, env, lets):
        """try: .. history[variable] .. / except KeyError: ..   (no exits): a match on p.histOf name"""
        if not (len(st.handlers) == 1 and isinstance(st.handlers[0].type, ast.Name) and st.handlers[0].type.id == "KeyError"
                and not st.orelse and not st.finalbody):
            raise TranslationError("try statement not in the table: `%s`" % _dump(st))
        uses_hist = any(isinstance(n, ast.Subscript) and isinstance(n.value, ast.Name) and n.value.id in env
                        and env[n.value.id].kind == "mark:histdict" for s in st.body for n in ast.walk(s))
        if not uses_hist:
            raise TranslationError("try block without a history lookup: `%s`" % _dump(st))
        ea, eb = dict(env), dict(env)
        self.pure(st.body, ea, [])
        self.pure(st.handlers[0].body, eb, [])
        for nme in sorted(set(ea) | set(eb)):
            va, vb = ea.get(nme), eb.get(nme)
            if va is env.get(nme) and vb is env.get(nme):
                continue
            if va is None or vb is None or va.kind != vb.kind or va.kind != "list":
                env.pop(nme, None)
                continue
            env[nme] = V("list", "(match p.histOf name with | some h => %s | none => %s)" % (va.term, vb.term))

    def try_(self, st, rest, env, out, ind):
        pad = "  " * ind
        if not _exits(st.body + st.orelse + [s for h in st.handlers for s in h.body]):
            lets = []
            self.try_value(st, env, lets)
            return None
        # try: i = self.__differentiated_states_map[canonical] / except KeyError: pass / else: <block with return>
        ok = (len(st.body) == 1 and isinstance(st.body[0], ast.Assign) and len(st.body[0].targets) == 1
              and isinstance(st.body[0].targets[0], ast.Name)
              and len(st.handlers) == 1 and isinstance(st.handlers[0].type, ast.Name) and st.handlers[0].type.id == "KeyError"
              and all(isinstance(s, ast.Pass) for s in st.handlers[0].body) and not st.finalbody)
        if not ok:
            raise TranslationError("try statement not in the table: `%s`" % _dump(st))
        v = self.expr(st.body[0].value, env)
        if v.kind != "mark:stateindex":
            raise TranslationError("try block is not the differentiated-state lookup: `%s`" % _dump(st.body[0]))
        e2 = dict(env)
        e2[st.body[0].targets[0].id] = v
        if not (len(rest) == 1 and isinstance(rest[0], ast.Return) and isinstance(rest[0].value, ast.Name)
                and rest[0].value.id == "@join"):
            raise TranslationError("statements after the differentiated-state lookup inside its branch")
        j = env["@join"].term
        some = self.block(st.orelse, e2, ind + 1) if _always_exits(st.orelse) else None
        if some is None:
            raise TranslationError("the `else` block of the differentiated-state lookup must return")
        return pad + "match p.initDerOf name with\n" + pad + "| some d =>\n" + some + "\n" + pad + "| none => " + j

    def for_(self, st, rest, env, ind):
        pad = "  " * ind
        it = st.iter
        ok = (isinstance(st.target, ast.Name) and isinstance(it, ast.Call) and isinstance(it.func, ast.Name)
              and it.func.id == "range" and len(it.args) == 1 and isinstance(it.args[0], ast.Call)
              and isinstance(it.args[0].func, ast.Name) and it.args[0].func.id == "len" and len(it.args[0].args) == 1
              and not st.orelse and len(st.body) == 1 and isinstance(st.body[0], ast.If) and not st.body[0].orelse)
        if not ok:
            raise TranslationError("loop not in the table: `%s`" % _dump(st))
        L = self.expr(it.args[0].args[0], env)
        if L.kind != "list":
            raise TranslationError("loop over something else than a list of time stamps")
        e2 = dict(env)
        for nme, v in env.items():
            if v.kind == "list" and v.term == L.term:
                e2[nme] = V("list", v.term, loop=st.target.id)
        inner = st.body[0]
        c = self.cond(inner.test, e2, boolean=True)
        if not _always_exits(inner.body):
            raise TranslationError("the loop body must return at the first hit")
        hit = self.block(inner.body, e2, ind + 2)
        miss = self.block(rest, dict(env), ind + 2)
        return (pad + "match scanPairs (fun a b => %s) %s with\n" % (c, L.term) + pad + "| some (a, b) =>\n" + hit + "\n"
                + pad + "| none =>\n" + miss)


def _always_exits(stmts):
    if not stmts or stmts == [None]:
        return False
    last = stmts[-1]
    if isinstance(last, (ast.Return, ast.Raise)):
        return True
    if isinstance(last, ast.If):
        return _always_exits(last.body) and _always_exits(last.orelse)
    return False


def _indent(text, n):
    return "\n".join("  " * n + l for l in text.split("\n"))


def translate_der_at(tree):
    fn = _find_method(tree, CLS, "der_at")
    args = [a.arg for a in fn.args.args]
    if args != ["self", "variable", "t", "ensemble_member"]:
        raise TranslationError("der_at: unexpected signature %r" % args)
    sa = _find_method(tree, CLS, "state_at")
    sargs = [a.arg for a in sa.args.args]
    if sargs != ["self", "variable", "t", "ensemble_member", "scaled", "extrapolate"]:
        raise TranslationError("state_at: unexpected signature %r" % sargs)
    dflt = dict(zip(sargs[-len(sa.args.defaults):], sa.args.defaults))
    sa_defaults = {}
    for k in ("scaled", "extrapolate"):
        if k not in dflt or not isinstance(dflt[k], ast.Constant) or not isinstance(dflt[k].value, bool):
            raise TranslationError("state_at: default of `%s` is not a literal" % k)
        sa_defaults[k] = dflt[k].value
    tr = DerAt(sa_defaults)
    env = {"variable": V("name", "name"), "t": V("rat", "t"), "ensemble_member": V("mark:member")}
    tr._fall = None
    main = tr.block(fn.body, env, 1)
    return tr.joins, main


# =============================================================================================
# __states_times_in (tail) and integral


def translate_assemble(tree):
    fn = _find_method(tree, CLS, "__states_times_in")
    args = [a.arg for a in fn.args.args]
    if args[:4] != ["self", "variable", "t0", "tf"]:
        raise TranslationError("__states_times_in: unexpected signature %r" % args)
    body = fn.body
    start = None
    for k, st in enumerate(body):
        if isinstance(st, ast.Assign) and isinstance(st.value, ast.Call) and _dump(st.value.func) == "np.where":
            start = k
            break
    if start is None:
        raise TranslationError("__states_times_in: `np.where` window selection not found")
    sel = {}  # index name -> series ("state" | "hist")
    series_of_times = {"times": "state", "history_times": "hist"}
    series_of_vals = {"state": "state", "history": "hist"}
    env = {}
    ends = {}  # "a"/"b" -> (cond text)
    cat = {}
    returned = None
    WIN = {"state": "(inWindow a b state)", "hist": "(inWindow a b hist)"}

    def window(node):
        # np.where(np.logical_and(T >= t0, T <= tf))
        if not (isinstance(node, ast.Call) and _dump(node.func) == "np.where" and len(node.args) == 1):
            return None
        la = node.args[0]
        if not (isinstance(la, ast.Call) and _dump(la.func) == "np.logical_and" and len(la.args) == 2):
            raise TranslationError("window selection is not np.logical_and of two comparisons: `%s`" % _dump(node))
        got = set()
        T = None
        for cmp_ in la.args:
            if not (isinstance(cmp_, ast.Compare) and len(cmp_.ops) == 1 and isinstance(cmp_.left, ast.Name)
                    and isinstance(cmp_.comparators[0], ast.Name)):
                raise TranslationError("window comparison not in the table: `%s`" % _dump(cmp_))
            l, op, r = cmp_.left.id, type(cmp_.ops[0]), cmp_.comparators[0].id
            if l in series_of_times and r == "t0" and op is ast.GtE or l == "t0" and r in series_of_times and op is ast.LtE:
                got.add("lo")
                T = l if l in series_of_times else r
            elif l in series_of_times and r == "tf" and op is ast.LtE or l == "tf" and r in series_of_times and op is ast.GtE:
                got.add("hi")
                T2 = l if l in series_of_times else r
                if T is not None and T2 != T:
                    raise TranslationError("window bounds on different series")
                T = T2
            else:
                raise TranslationError("window comparison not `T >= t0` / `T <= tf`: `%s`" % _dump(cmp_))
        if got != {"lo", "hi"}:
            raise TranslationError("window needs both bounds: `%s`" % _dump(node))
        return series_of_times[T]

    def member(node):
        # `t0 not in times[indices]`  ->  ("a", "state")
        if isinstance(node, ast.Compare) and len(node.ops) == 1 and isinstance(node.ops[0], ast.NotIn) \
                and isinstance(node.left, ast.Name) and node.left.id in ("t0", "tf") and env.get(node.left.id, "bound") == "bound":
            s = node.comparators[0]
            if isinstance(s, ast.Subscript) and isinstance(s.value, ast.Name) and s.value.id in series_of_times \
                    and isinstance(s.slice, ast.Name) and sel.get(s.slice.id) == series_of_times[s.value.id]:
                return ("a" if node.left.id == "t0" else "b"), series_of_times[s.value.id]
        raise TranslationError("end-point test not in the table: `%s`" % _dump(node))

    def piece(node, want):
        """an argument of ca.vertcat: end point / window times / window values"""
        if isinstance(node, ast.Name) and node.id in ends and want in ("t", "x"):
            return ends[node.id]
        if isinstance(node, ast.Subscript) and isinstance(node.value, ast.Name) and isinstance(node.slice, ast.Name):
            table = series_of_times if want == "t" else series_of_vals
            if node.value.id in table and sel.get(node.slice.id) == table[node.value.id] and env.get(node.value.id) != "sliced":
                return WIN[table[node.value.id]]
        if isinstance(node, ast.Name) and want == "x" and env.get(node.id) == "sliced":
            return WIN["state"]
        raise TranslationError("ca.vertcat argument not in the table: `%s`" % _dump(node))

    for st in body[start:]:
        if isinstance(st, ast.Expr) and isinstance(st.value, ast.Constant):
            continue
        if isinstance(st, ast.Assign) and len(st.targets) == 1 and isinstance(st.targets[0], ast.Tuple) \
                and len(st.targets[0].elts) == 1 and isinstance(st.targets[0].elts[0], ast.Name):
            s = window(st.value)
            if s is None:
                raise TranslationError("statement not in the table: `%s`" % _dump(st))
            sel[st.targets[0].elts[0].id] = s
            continue
        if isinstance(st, ast.If):
            test = st.test
            # len(indices) > 0: contiguous slice of the state, else nothing
            if isinstance(test, ast.Compare) and isinstance(test.left, ast.Call) and _dump(test.left.func) == "len":
                I = test.left.args[0]
                ok = (isinstance(I, ast.Name) and sel.get(I.id) == "state" and isinstance(test.ops[0], ast.Gt)
                      and isinstance(test.comparators[0], ast.Constant) and test.comparators[0].value == 0
                      and len(st.body) == 1 and len(st.orelse) == 1
                      and _dump(st.body[0]) == "state = state[%s[0]:%s[-1] + 1]" % (I.id, I.id)
                      and _dump(st.orelse[0]) == "state = ca.MX()")
                if not ok:
                    raise TranslationError("state slice not in the table: `%s`" % _dump(st, 200))
                env["state"] = "sliced"
                continue
            # end point decision
            if not (isinstance(test, ast.BoolOp) and isinstance(test.op, ast.And) and len(test.values) == 2):
                raise TranslationError("end-point decision not in the table: `%s`" % _dump(test))
            m = [member(v) for v in test.values]
            if m[0][0] != m[1][0] or {m[0][1], m[1][1]} != {"state", "hist"}:
                raise TranslationError("end-point decision must test the window's state AND history stamps: `%s`" % _dump(test))
            which = m[0][0]
            tname, xname = ("t0", "x0") if which == "a" else ("tf", "xf")
            ok = (len(st.body) == 1 and len(st.orelse) == 1
                  and _dump(st.body[0]) == "%s = self.state_at(variable, %s, ensemble_member)" % (xname, tname)
                  and _dump(st.orelse[0]) == "%s = %s = ca.MX()" % (tname, xname))
            if not ok:
                raise TranslationError("end-point branches not in the table: `%s`" % _dump(st, 200))
            order = [WIN[s] for _, s in m]
            c = "(!hasTime %s %s && !hasTime %s %s)" % (order[0], which, order[1], which)
            ends[tname] = ends[xname] = "(← (if %s then endPoint p name %s else some []))" % (c, which)
            env[tname] = "end"
            continue
        if isinstance(st, ast.Assign) and len(st.targets) == 1 and isinstance(st.targets[0], ast.Name) \
                and isinstance(st.value, ast.Call) and _dump(st.value.func) == "ca.vertcat":
            nme = st.targets[0].id
            if nme not in ("t", "x"):
                raise TranslationError("concatenation into `%s`" % nme)
            cat[nme] = [piece(a, nme) for a in st.value.args]
            continue
        if isinstance(st, ast.Return):
            returned = _dump(st.value)
            continue
        raise TranslationError("statement not in the table: `%s`" % _dump(st))
    if returned not in ("(x, t)", "x, t"):
        raise TranslationError("__states_times_in does not return `x, t`")
    if "t" not in cat or "x" not in cat or cat["t"] != cat["x"]:
        raise TranslationError("time stamps and values are not concatenated in the same order")
    if "t0" not in ends or "tf" not in ends:
        raise TranslationError("an end-point decision is missing")
    return cat["x"]


def translate_integral(tree):
    fn = _find_method(tree, CLS, "integral")
    stmts = [s for s in fn.body if not (isinstance(s, ast.Expr) and isinstance(s.value, ast.Constant))]
    if not (len(stmts) == 2 and isinstance(stmts[0], ast.Assign) and isinstance(stmts[0].targets[0], ast.Tuple)
            and [e.id for e in stmts[0].targets[0].elts] == ["x", "t"]
            and _dump(stmts[0].value.func) == "self.__states_times_in" and isinstance(stmts[1], ast.If)):
        raise TranslationError("integral: not `x, t = self.__states_times_in(...)` followed by one `if`")
    iff = stmts[1]
    if _dump(iff.test) != "x.size1() > 1":
        raise TranslationError("integral: guard is not `x.size1() > 1`")
    env = {"x": "(ks.map (·.2))", "t": "(ks.map (·.1))"}

    def vec(node):
        if isinstance(node, ast.Name):
            if node.id in env:
                return ("vec", env[node.id])
            raise TranslationError("integral: unknown name `%s`" % node.id)
        if isinstance(node, ast.Constant) and isinstance(node.value, (int, float)):
            return ("num", _lit(node.value))
        if isinstance(node, ast.Subscript) and isinstance(node.slice, ast.Slice) and node.slice.step is None:
            k, b = vec(node.value)
            lo, up = node.slice.lower, node.slice.upper
            if k == "vec" and lo is None and up is not None and _dump(up) == "x.size1() - 1":
                return ("vec", "%s.dropLast" % b)
            if k == "vec" and up is None and isinstance(lo, ast.Constant) and lo.value == 1:
                return ("vec", "%s.tail" % b)
            raise TranslationError("integral: slice not in the table: `%s`" % _dump(node))
        if isinstance(node, ast.BinOp) and type(node.op) in (ast.Add, ast.Sub, ast.Mult):
            (ka, a), (kb, b) = vec(node.left), vec(node.right)
            if ka == "vec" and kb == "vec":
                return ("vec", "(%s %s %s)" % ({ast.Add: "vadd", ast.Sub: "vsub", ast.Mult: "vmul"}[type(node.op)], a, b))
            if isinstance(node.op, ast.Mult) and {ka, kb} == {"num", "vec"}:
                return ("vec", "(vscale %s %s)" % ((a, b) if ka == "num" else (b, a)))
        raise TranslationError("integral: expression not in the table: `%s`" % _dump(node))

    result = None
    for st in iff.body:
        if isinstance(st, ast.Expr) and isinstance(st.value, ast.Constant):
            continue
        if isinstance(st, ast.Assign) and len(st.targets) == 1 and isinstance(st.targets[0], ast.Name):
            k, v = vec(st.value)
            if k != "vec":
                raise TranslationError("integral: `%s`" % _dump(st))
            env[st.targets[0].id] = v
            continue
        if isinstance(st, ast.Return) and isinstance(st.value, ast.Call) and _dump(st.value.func) == "ca.sum1" \
                and len(st.value.args) == 1:
            k, v = vec(st.value.args[0])
            result = "%s.sum" % v
            continue
        raise TranslationError("integral: statement not in the table: `%s`" % _dump(st))
    if result is None:
        raise TranslationError("integral: no `return ca.sum1(...)`")
    if not (len(iff.orelse) == 1 and _dump(iff.orelse[0]) == "return ca.MX(0)"):
        raise TranslationError("integral: the other branch is not `return ca.MX(0)`")
    return result


# =============================================================================================

GEN_TEMPLATE = """import RtcVerif.Proofs.C15Gen
/-!
GENERATED on every run of the C15 check by harness/translate_c15.py from `der_at`,
`__states_times_in` (from the window selection on) and `integral` in
/repo/src/rtctools/optimization/collocated_integrated_optimization_problem.py
(symbolic execution against the table in the header of the translator).  Do not edit.
The theorems tie the source, read this way, to the model the property theorems of C15 are about.
-/
set_option linter.unusedVariables false
set_option linter.unusedSimpArgs false
set_option linter.unreachableTactic false
set_option linter.unusedTactic false
namespace RtcVerif.Gen
open RtcVerif RtcVerif.Interp RtcVerif.C15

%(joins)s
/-- `der_at(variable, t, m)` -/
def derAtGen (p : Prob) (name : String) (t : Rat) : Res :=
%(main)s

/-- the model of `der_at`, with its special case written as a branch -/
theorem derAt_unfold (p : Prob) (name : String) (t : Rat) :
    C15.derAt p name t =
      (match (if t = p.t0 then p.initDerOf name else none) with
       | some d => .num (d.1 * sgn (p.canon name).2 * d.2)
       | none =>
         match p.derKnots name t with
         | [] => Res.raise
         | h0 :: rest =>
           if t = h0 then .num 0
           else match findSeg (h0 :: rest) t with
             | none => .raise
             | some (a, b) => ((stateAt p name b false true).sub (stateAt p name a false true)).divBy (b - a)) := by
  unfold C15.derAt
  cases (if t = p.t0 then p.initDerOf name else none) with
  | none => rfl
  | some d => rfl

theorem derAtGen_eq_model (p : Prob) (name : String) (t : Rat) : derAtGen p name t = C15.derAt p name t := by
  rw [derAt_unfold]
  unfold derAtGen %(joinnames)s Prob.derKnots
  simp only [findSeg_eq_scanPairs, gt_iff_lt, ge_iff_le]
  by_cases h0 : t = p.t0 <;> by_cases h1 : t ≤ p.t0 <;> cases hd : p.initDerOf name <;> cases hh : p.histOf name <;>
    simp only [h0, h1, hd, hh, if_true, if_false, le_refl] <;>
    first
      | rfl
      | (split <;> [rfl; (split <;> [rfl; (split <;> simp_all [Bool.and_comm])])])
      | (congr 1; ring; done)
      | (simp_all [Bool.and_comm]; done)

/-- `__states_times_in` from "Collect time stamps and states" on (`a`, `b` = window; `hist`, `state` =
    the history knots available and the signed, unscaled state knots computed before) -/
def assembleGen (p : Prob) (name : String) (a b : Rat) (hist state : Knots) : Option Knots := do
  some (%(assemble)s)

theorem assembleGen_eq_model (p : Prob) (name : String) (a b : Rat) (hist state : Knots) :
    assembleGen p name a b hist state = C15.assemble p name a b hist state := by
  unfold assembleGen C15.assemble endKnot
  simp only [hasTime_append]
  cases h1 : hasTime (inWindow a b hist) a <;> cases h2 : hasTime (inWindow a b state) a <;>
    cases h3 : hasTime (inWindow a b hist) b <;> cases h4 : hasTime (inWindow a b state) b <;>
    simp [List.append_assoc]

/-- the quadrature of `integral` over the knot list (`x` = values, `t` = times) -/
def trapzGen (ks : Knots) : Rat :=
  if ks.length > 1 then %(trapz)s else 0

theorem trapzGen_eq_model (ks : Knots) : trapzGen ks = C15.trapz ks := by
  rw [← trapzVec_eq_trapz]
  unfold trapzGen trapzVec
  first
    | rfl
    | (simp only [vadd_comm, vmul_comm])
    | (unfold vmul vadd vsub vscale; congr 2; simp only [List.zipWith_comm_of_comm, mul_comm, add_comm])

end RtcVerif.Gen
"""

THEOREMS = ["derAtGen_eq_model", "assembleGen_eq_model", "trapzGen_eq_model"]


def gen_accessors(c):
    """(re)generate lean/RtcVerif/Gen/Accessors.lean; returns the extra obligation spec for c.prove"""
    gdir = os.path.join(LEAN_DIR, "RtcVerif", "Gen")
    os.makedirs(gdir, exist_ok=True)
    path = os.path.join(gdir, "Accessors.lean")
    what = "der_at / __states_times_in / integral"
    try:
        tree = ast.parse(open(os.path.join(REPO, SRC)).read())
        joins, main = translate_der_at(tree)
        pieces = translate_assemble(tree)
        trapz = translate_integral(tree)
    except TranslationError as e:
        c.broken.append(("translator: " + what, str(e)))
        return []
    except (OSError, SyntaxError) as e:
        c.broken.append(("translator: " + what, "cannot read/parse the source: %s" % e))
        return []
    jtext = "".join("def %s (p : Prob) (name : String) (t : Rat) : Res :=\n%s\n\n" % (n, t) for n, t in reversed(joins))
    text = GEN_TEMPLATE % dict(joins=jtext, main=main, joinnames=" ".join(n for n, _ in joins),
                               assemble=" ++ ".join(pieces), trapz=trapz)
    old = open(path).read() if os.path.exists(path) else None
    if old != text:
        tmp = path + ".tmp%d" % os.getpid()
        with open(tmp, "w") as f:
            f.write(text)
        os.replace(tmp, path)
    return [("RtcVerif.Gen.Accessors", "RtcVerif.Gen", THEOREMS)]


# =============================================================================================
# state_at (whole), the first half of __states_times_in, states_in, the de-scaling of extract_results
# -> lean/RtcVerif/Gen/StateAt.lean   (gen_state_at)
#
# Second table "Python construct -> model term" (path-by-path symbolic execution: every symbolic `if` / dictionary
# lookup forks and the REST of the method is executed in both branches; flags such as `found` stay concrete).
# Anything else is REJECTED.
#
#   state_at(self, variable, t, ensemble_member=0, scaled=False, extrapolate=True)
#     if isinstance(variable, ca.MX): variable = variable.name()        no effect (a name is a name)
#     if self.__variable_sizes.get(variable, 1) > 1: raise ...          not taken (vector variables are out of scope)
#     name = "...".format(...); if extrapolate: name += ..;  try: return self.__symbol_cache[name] / except KeyError: B
#                                                       B, provided the statements building `name` mention all of
#                                                       variable, t, ensemble_member, scaled, extrapolate (memoisation
#                                                       of a pure function under a key naming all its arguments);
#                                                       `self.__symbol_cache[name] = sym` no effect
#     self.initial_time                                 p.t0
#     self.solver_input                                 X
#     self.alias_relation.canonical_signed(variable)    (canonical, sign): sign < 0 / sign == -1  <->  (p.canon name).2
#     try: inds = self.__indices[m][canonical] / except KeyError: H / else: B
#                                                       match p.svars.lookup (p.canon name).1 with | some v => B | none => H
#     self.integrate_states [and ...]                   False (single shooting is out of the model's scope; the rest of an
#                                                       `and` is not evaluated, the `if` takes its else branch)
#     self.times(canonical) | self.variable_nominal(canonical) | X[inds] | self.interpolation_method(canonical)
#                                                       v.times | v.nominal | v.xs | v.mode
#     self.history(m); try: hts = history[canonical] / except KeyError: H / else: B
#                                                       match v.hist with | some h => B | none => H
#     self.constant_inputs(m); try: ci = constant_inputs[variable] ...   match p.cins.lookup (p.canon name).1 with ..; the
#                                                       AliasDict hands out the series `if neg then negKnots ci.series else
#                                                       ci.series` (C13); self.interpolation_method(variable) = ci.mode
#     self.parameters(m); try: sym = parameters[variable] ...            match p.pars.lookup (p.canon name).1 with
#                                                       | some q => sgn neg * q (AliasDict, C13)
#     np.nan                                            NaN (a fill: nanFill; a value: Res.nan)
#     ts.values[0] / ts.values[-1] / L[0] / L[-1]       firstVal / lastVal of the series, headD 0 / getLast?.getD 0
#     self.interpolate(t, ts.times, ts.values, fl, fr, mode)             ofOut (interpScalar mode ks fl fr t)  (C19)
#     interpolate(times, values, [t], False, mode)      ofOut (interpSym mode (times.zip values) t)   (casadi_helpers, C19)
#     s * c, c * s, s *= c, s /= c, s *= -1 (s a value) Res.scale c s, Res.divBy c s, Res.neg s (NaN stays NaN)
#     == != < <= > >=, and / or / not                   decide (..), && || !
#     raise <anything>                                  Res.raise ;  return sym  the value
#
#   __states_times_in up to the statement `(indices,) = np.where(...)`  (result: Option (a, b, hist, state))
#     if t0 is None: t0 = times[0]                      a?.getD (times.headD 0)   (tf: getLast?.getD 0)
#     self.state_vector(canonical, m)                   let v <- p.svars.lookup (p.canon name).1 (KeyError = none); v.xs
#     state *= c (CasADi value)                         state.map (· * c)
#     raise                                             none
#     ts.times[:-1] / ts.values[:-1]                    ((h.map fst).dropLast) / ((h.map snd).dropLast): VIEWS on stored data
#     history = -history                                a new list  (L.map (- ·))
#     history *= -1 (augmented assignment on a view)    REJECTED (mutates the stored history: finding F13)
#     np.empty(0)                                       []
#   states_in
#     x, _ = self.__states_times_in(variable, t0, tf, ensemble_member); return x      (statesTimesIn ..).map (·.map (·.2))
#
#   extract_controls / extract_states / constant-input loop of extract_states
#     X = self.solver_output.copy(); indices = self.__indices[m]; inds = indices[variable]; X[inds]     v.xs
#     if variable in results: continue                  no effect (integrated states only)
#     if variable_size > 1: .. else: B                  B (scalar variables)
#     results[variable] = e                             the extracted result of `variable` (the last write wins)
#     self.variable_nominal(variable) * e               vscale v.nominal e
#     self.interpolate(self.times(variable), ci.times, ci.values, ci.values[0], ci.values[-1], self.interpolation_method(variable))
#                                                       interpArray ci.mode ci.series (finFill first) (finFill last) ts


class Leaf:
    def __init__(self, text):
        self.text = text


class Fork:
    def __init__(self, kind, head, a, b):
        self.kind, self.head, self.a, self.b = kind, head, a, b  # kind: "if" | "match"


def _emit(tree, ind):
    pad = "  " * ind
    if isinstance(tree, Leaf):
        return pad + tree.text
    if tree.kind == "if":
        return (pad + "(if %s then\n" % tree.head + _emit(tree.a, ind + 1) + "\n" + pad + "else\n"
                + _emit(tree.b, ind + 1) + ")")
    scrut, binder = tree.head
    return (pad + "(match %s with\n" % scrut + pad + "| some %s =>\n" % binder + _emit(tree.a, ind + 1) + "\n"
            + pad + "| none =>\n" + _emit(tree.b, ind + 1) + ")")


NEG = "(p.canon name).2"
CAN = "(p.canon name).1"


class Paths:
    """path-by-path symbolic execution of one method against the second table"""

    def __init__(self, mode):
        self.mode = mode  # "state_at" | "prefix"
        self.nfork = 0

    # ---------------------------------------------------------------- expressions
    def ev(self, node, env):
        if isinstance(node, ast.Constant):
            if isinstance(node.value, bool):
                return V("cbool", node.value)
            if node.value is None:
                return V("none")
            if isinstance(node.value, (int, float)):
                return V("rat", _lit(node.value), lit=node.value)
            raise TranslationError("constant not in the table: `%s`" % _dump(node))
        if isinstance(node, ast.Name):
            if node.id not in env:
                raise TranslationError("unknown name `%s`" % node.id)
            return env[node.id]
        if isinstance(node, ast.UnaryOp) and isinstance(node.op, ast.USub):
            a = self.ev(node.operand, env)
            if a.kind == "rat":
                if "lit" in a.kw:
                    return V("rat", _lit(-a.kw["lit"]) if a.kw["lit"] <= 0 else "(-%s)" % a.term, lit=-a.kw["lit"])
                return V("rat", "(-%s)" % a.term)
            if a.kind == "list":
                return V("list", "(%s.map (- ·))" % a.term)
            if a.kind == "res":
                return V("res", "(Res.neg %s)" % a.term)
            if a.kind == "nan":
                return a
            raise TranslationError("negation not in the table: `%s`" % _dump(node))
        if isinstance(node, ast.UnaryOp) and isinstance(node.op, ast.Not):
            return self.bnot(self.ev(node.operand, env))
        if isinstance(node, ast.BoolOp):
            is_and = isinstance(node.op, ast.And)
            acc = self.ev(node.values[0], env)
            for nv in node.values[1:]:
                if acc.kind == "cbool" and acc.term != is_and:
                    return acc  # short circuit: the other operand is not evaluated
                v = self.ev(nv, env)
                acc = self.band(acc, v) if is_and else self.bor(acc, v)
            return acc
        if isinstance(node, ast.Compare) and len(node.ops) == 1:
            return self.compare(node, env)
        if isinstance(node, ast.BinOp) and type(node.op) in BIN:
            return self.arith(type(node.op), self.ev(node.left, env), self.ev(node.right, env), node)
        if isinstance(node, ast.Attribute):
            return self.attribute(node, env)
        if isinstance(node, ast.Subscript):
            return self.subscript(node, env)
        if isinstance(node, ast.Call):
            return self.call(node, env)
        if isinstance(node, ast.Tuple):
            return V("tuple", None, elts=[self.ev(e, env) for e in node.elts])
        if isinstance(node, ast.List) and len(node.elts) == 1:
            return V("single", None, elt=self.ev(node.elts[0], env))
        raise TranslationError("expression not in the table: `%s`" % _dump(node))

    def bnot(self, a):
        if a.kind == "cbool":
            return V("cbool", not a.term)
        if a.kind == "bool":
            return V("bool", "(!%s)" % a.term)
        raise TranslationError("`not` on something that is not a condition")

    def band(self, a, b):
        if a.kind == "cbool":
            return b if a.term else a
        if b.kind == "cbool":
            return a if b.term else b
        if a.kind == b.kind == "bool":
            return V("bool", "(%s && %s)" % (a.term, b.term))
        raise TranslationError("`and` on something that is not a condition")

    def bor(self, a, b):
        if a.kind == "cbool":
            return a if a.term else b
        if b.kind == "cbool":
            return b if b.term else a
        if a.kind == b.kind == "bool":
            return V("bool", "(%s || %s)" % (a.term, b.term))
        raise TranslationError("`or` on something that is not a condition")

    def compare(self, node, env):
        op = type(node.ops[0])
        a, b = self.ev(node.left, env), self.ev(node.comparators[0], env)
        if op in (ast.Is, ast.IsNot) and b.kind == "none" and a.kind in ("optrat", "rat"):
            if a.kind == "rat":
                return V("cbool", op is ast.IsNot)
            return V("isnone" if op is ast.Is else "issome", a.term, var=a.kw["var"])
        if op not in CMP:
            raise TranslationError("comparison not in the table: `%s`" % _dump(node))
        if a.kind == "sign" or b.kind == "sign":
            s, o = (a, b) if a.kind == "sign" else (b, a)
            if o.kind != "rat" or "lit" not in o.kw:
                raise TranslationError("sign compared with a non-literal: `%s`" % _dump(node))
            if a.kind != "sign":  # literal on the left: mirror
                op = {ast.Lt: ast.Gt, ast.Gt: ast.Lt, ast.LtE: ast.GtE, ast.GtE: ast.LtE}.get(op, op)
            holds = {ast.Eq: lambda x, c: x == c, ast.NotEq: lambda x, c: x != c, ast.Lt: lambda x, c: x < c,
                     ast.LtE: lambda x, c: x <= c, ast.Gt: lambda x, c: x > c, ast.GtE: lambda x, c: x >= c}[op]
            at_neg, at_pos = holds(-1, o.kw["lit"]), holds(1, o.kw["lit"])
            if at_neg and not at_pos:
                return V("bool", NEG)
            if at_pos and not at_neg:
                return V("bool", "(!%s)" % NEG)
            return V("cbool", at_neg)
        if a.kind == "rat" and b.kind == "rat":
            if "lit" in a.kw and "lit" not in b.kw:  # literal on the left: mirrored (`1 != c` is `c != 1`)
                a, b = b, a
                op = {ast.Lt: ast.Gt, ast.Gt: ast.Lt, ast.LtE: ast.GtE, ast.GtE: ast.LtE}.get(op, op)
            return V("bool", "decide (%s %s %s)" % (a.term, CMP[op], b.term))
        raise TranslationError("comparison not in the table: `%s`" % _dump(node))

    def arith(self, op, a, b, node):
        if a.kind == "nan" or b.kind == "nan":
            if {a.kind, b.kind} <= {"nan", "rat"}:
                return V("nan")
        if a.kind == "rat" and b.kind == "rat":
            return V("rat", "(%s %s %s)" % (a.term, BIN[op], b.term))
        if a.kind == "sign" or b.kind == "sign":
            raise TranslationError("arithmetic with the alias sign is not in the table: `%s`" % _dump(node))
        if op is ast.Mult and {a.kind, b.kind} == {"res", "rat"}:
            r, c = (a, b) if a.kind == "res" else (b, a)
            if c.kw.get("lit") == -1:
                return V("res", "(Res.neg %s)" % r.term)
            return V("res", "(Res.scale %s %s)" % (c.term, r.term))
        if op is ast.Div and a.kind == "res" and b.kind == "rat":
            return V("res", "(Res.divBy %s %s)" % (b.term, a.term))
        if op is ast.Mult and {a.kind, b.kind} == {"list", "rat"}:
            l, c = (a, b) if a.kind == "list" else (b, a)
            return V("list", "(%s.map (· * %s))" % (l.term, c.term))
        raise TranslationError("arithmetic not in the table: `%s`" % _dump(node))

    def attribute(self, node, env):
        if _self_attr(node, "initial_time"):
            return V("rat", "p.t0")
        if _self_attr(node, "solver_input"):
            return V("mark:X")
        if _self_attr(node, "integrate_states"):
            return V("cbool", False)
        if _self_attr(node, "__indices"):
            return V("mark:indices")
        if _self_attr(node, "__integrators"):
            return V("mark:integrators")
        if isinstance(node.value, ast.Name) and node.value.id == "np" and node.attr == "nan":
            return V("nan")
        base = self.ev(node.value, env)
        if base.kind == "ts" and node.attr in ("times", "values"):
            return V("ts" + node.attr, None, ks=base.term)
        raise TranslationError("attribute not in the table: `%s`" % _dump(node))

    def subscript(self, node, env):
        base = self.ev(node.value, env)
        sl = node.slice
        if isinstance(sl, ast.Slice):
            if (sl.lower is None and sl.step is None and isinstance(sl.upper, ast.UnaryOp)
                    and isinstance(sl.upper.op, ast.USub) and isinstance(sl.upper.operand, ast.Constant)
                    and sl.upper.operand.value == 1 and base.kind in ("tstimes", "tsvalues")):
                proj = "·.1" if base.kind == "tstimes" else "·.2"
                return V("list", "((%s.map (%s)).dropLast)" % (base.kw["ks"], proj), view=True)
            raise TranslationError("slice not in the table: `%s`" % _dump(node))
        idx = self.ev(sl, env)
        if base.kind == "mark:indices" and idx.kind == "mark:member":
            return V("mark:indices_m")
        if base.kind == "mark:indices_m":
            if idx.kind == "mark:canonical":
                return V("lookup", "p.svars.lookup %s" % CAN, binder="v", result=V("mark:inds"))
            raise TranslationError("decision-vector lookup with another key than the canonical name: `%s`" % _dump(node))
        if base.kind == "mark:X" and idx.kind == "mark:inds":
            return V("list", "v.xs")
        if base.kind == "mark:histdict":
            if idx.kind == "mark:canonical":
                return V("lookup", "v.hist", binder="h", result=V("ts", "h"))
            raise TranslationError("history looked up with another key than the canonical name: `%s`" % _dump(node))
        if base.kind == "mark:cindict":
            if idx.kind == "name":
                return V("lookup", "p.cins.lookup %s" % CAN, binder="ci",
                         result=V("ts", "(if %s then negKnots ci.series else ci.series)" % NEG, cin=True))
            raise TranslationError("constant input looked up with another key than `variable`: `%s`" % _dump(node))
        if base.kind == "mark:pardict":
            if idx.kind == "name":
                return V("lookup", "p.pars.lookup %s" % CAN, binder="q", result=V("rat", "(sgn %s * q)" % NEG))
            raise TranslationError("parameter looked up with another key than `variable`: `%s`" % _dump(node))
        if idx.kind == "rat" and idx.kw.get("lit") in (0, -1):
            first = idx.kw["lit"] == 0
            if base.kind == "tsvalues":
                return V("rat", "(%s %s)" % ("firstVal" if first else "lastVal", base.kw["ks"]))
            if base.kind == "list":
                return V("rat", "(%s.headD 0)" % base.term if first else "((%s.getLast?).getD 0)" % base.term)
        raise TranslationError("subscript not in the table: `%s`" % _dump(node))

    def fill(self, v):
        if v.kind == "nan":
            return "nanFill"
        if v.kind == "rat":
            return "(finFill %s)" % v.term
        raise TranslationError("fill value not in the table")

    def call(self, node, env):
        f = node.func
        args = node.args
        kinds = lambda: [self.ev(a, env) for a in args]  # noqa
        if _self_attr(f, "times") and len(args) == 1 and not node.keywords:
            k = self.ev(args[0], env).kind
            if k == "mark:canonical" and self.mode == "state_at":
                return V("list", "v.times")
            if k == "name":
                return V("list", "(p.timesOf name)")
        if _self_attr(f, "variable_nominal") and len(args) == 1 and self.ev(args[0], env).kind == "mark:canonical":
            return V("rat", "v.nominal")
        if _self_attr(f, "interpolation_method") and len(args) == 1:
            k = self.ev(args[0], env).kind
            if k == "mark:canonical":
                return V("mode", "v.mode")
            if k == "name":
                return V("mode", "ci.mode", cin=True)
        if _self_attr(f, "history") and len(args) == 1 and self.ev(args[0], env).kind == "mark:member":
            return V("mark:histdict")
        if _self_attr(f, "constant_inputs") and len(args) == 1 and self.ev(args[0], env).kind == "mark:member":
            return V("mark:cindict")
        if _self_attr(f, "parameters") and len(args) == 1 and self.ev(args[0], env).kind == "mark:member":
            return V("mark:pardict")
        if _self_attr(f, "state_vector") and len(args) == 2 and not node.keywords:
            a, b = kinds()
            if a.kind == "mark:canonical" and b.kind == "mark:member":
                return V("lookup", "p.svars.lookup %s" % CAN, binder="v", result=V("list", "v.xs"), raises=True)
        if _self_attr(f, "interpolate") and len(args) == 6 and not node.keywords:
            t, ts, vs, fl, fr, md = kinds()
            if (t.kind == "rat" and ts.kind == "tstimes" and vs.kind == "tsvalues" and ts.kw["ks"] == vs.kw["ks"]
                    and md.kind == "mode"):
                cin = "ci." in ts.kw["ks"]
                if cin != bool(md.kw.get("cin")):
                    raise TranslationError("interpolation method of another variable: `%s`" % _dump(node))
                return V("res", "(ofOut (interpScalar %s %s %s %s %s))" % (md.term, ts.kw["ks"], self.fill(fl), self.fill(fr), t.term))
        if isinstance(f, ast.Name) and f.id == "interpolate" and len(args) == 5 and not node.keywords:
            ts, vs, q, eq, md = kinds()
            if (ts.kind == "list" and vs.kind == "list" and q.kind == "single" and q.kw["elt"].kind == "rat"
                    and eq.kind == "cbool" and eq.term is False and md.kind == "mode" and not md.kw.get("cin")):
                return V("res", "(ofOut (interpSym %s (%s.zip %s) %s))" % (md.term, ts.term, vs.term, q.kw["elt"].term))
        if _dump(f) == "np.empty" and len(args) == 1 and isinstance(args[0], ast.Constant) and args[0].value == 0:
            return V("list", "([] : List Rat)")
        if _dump(f) == "self.alias_relation.canonical_signed" and len(args) == 1 and self.ev(args[0], env).kind == "name":
            return V("tuple", None, elts=[V("mark:canonical"), V("sign")])
        raise TranslationError("call not in the table: `%s`" % _dump(node))

    # ---------------------------------------------------------------- statements
    def leaf_return(self, v):
        if self.mode == "state_at":
            if v.kind == "rat":
                return Leaf(".num %s" % v.term)
            if v.kind == "res":
                return Leaf(v.term)
            if v.kind == "nan":
                return Leaf(".nan")
        raise TranslationError("returned value not in the table")

    def leaf_raise(self):
        return Leaf(".raise" if self.mode == "state_at" else "none")

    def fork(self, cond, then_stmts, else_stmts, rest, env):
        """continue with `then_stmts + rest` / `else_stmts + rest` according to the condition"""
        if cond.kind == "cbool":
            return self.run(list(then_stmts if cond.term else else_stmts) + rest, env)
        self.nfork += 1
        if self.nfork > 400:
            raise TranslationError("too many paths")
        if cond.kind == "bool":
            return Fork("if", cond.term, self.run(list(then_stmts) + rest, dict(env)), self.run(list(else_stmts) + rest, dict(env)))
        if cond.kind in ("isnone", "issome"):
            var = cond.kw["var"]
            e_some, e_none = dict(env), dict(env)
            e_some[var] = V("rat", var + "_v")
            some = self.run(list(else_stmts if cond.kind == "isnone" else then_stmts) + rest, e_some)
            e_none[var] = V("none")
            none = self.run(list(then_stmts if cond.kind == "isnone" else else_stmts) + rest, e_none)
            return Fork("match", (cond.term, var + "_v"), some, none)
        raise TranslationError("condition not in the table")

    def assign(self, target, v, env):
        if isinstance(target, ast.Name):
            env[target.id] = v
            return
        if isinstance(target, ast.Tuple) and v.kind == "tuple" and len(target.elts) == len(v.kw["elts"]):
            for t, e in zip(target.elts, v.kw["elts"]):
                self.assign(t, e, env)
            return
        raise TranslationError("assignment target not in the table: `%s`" % _dump(target))

    def run(self, stmts, env):
        stmts = list(stmts)
        while stmts:
            st = stmts.pop(0)
            if isinstance(st, ast.Pass) or (isinstance(st, ast.Expr) and isinstance(st.value, ast.Constant)):
                continue
            if isinstance(st, ast.Return):
                if st.value is None:
                    raise TranslationError("bare return")
                return self.leaf_return(self.ev(st.value, env))
            if isinstance(st, ast.Raise):
                return self.leaf_raise()
            if self.mode == "prefix" and isinstance(st, ast.Assign) and isinstance(st.value, ast.Call) \
                    and _dump(st.value.func) == "np.where":
                return self.prefix_leaf(env)
            if isinstance(st, ast.Assign) and len(st.targets) == 1:
                tgt = st.targets[0]
                if isinstance(tgt, ast.Subscript) and _self_attr(tgt.value, "__symbol_cache"):
                    continue  # memoisation store
                v = self.ev(st.value, env)
                if v.kind == "lookup":
                    if not v.kw.get("raises"):
                        raise TranslationError("dictionary lookup outside try/except: `%s`" % _dump(st))
                    e2 = dict(env)
                    self.assign(tgt, v.kw["result"], e2)
                    self.nfork += 1
                    return Fork("match", (v.term, v.kw["binder"]), self.run(stmts, e2), self.leaf_raise())
                self.assign(tgt, v, env)
                continue
            if isinstance(st, ast.AugAssign) and isinstance(st.target, ast.Name) and type(st.op) in BIN:
                cur = self.ev(st.target, env)
                if cur.kw.get("view"):
                    raise TranslationError("in-place update of `%s`, a view on stored data (`%s`)" % (st.target.id, _dump(st)))
                env[st.target.id] = self.arith(type(st.op), cur, self.ev(st.value, env), st)
                continue
            if isinstance(st, ast.If):
                if self.no_effect_if(st, env):
                    continue
                return self.fork(self.ev(st.test, env), st.body, st.orelse, stmts, env)
            if isinstance(st, ast.Try):
                return self.try_(st, stmts, env)
            raise TranslationError("statement not in the table: `%s`" % _dump(st))
        raise TranslationError("the method can end without return")

    def no_effect_if(self, st, env):
        d = _dump(st.test, 200)
        if d == "isinstance(variable, ca.MX)" and len(st.body) == 1 and _dump(st.body[0]) == "variable = variable.name()" \
                and not st.orelse:
            return True
        if d == "self.__variable_sizes.get(variable, 1) > 1" and len(st.body) == 1 and isinstance(st.body[0], ast.Raise) \
                and not st.orelse:
            return True
        return False

    def try_(self, st, rest, env):
        if not (len(st.handlers) == 1 and isinstance(st.handlers[0].type, ast.Name) and st.handlers[0].type.id == "KeyError"
                and not st.finalbody and st.body):
            raise TranslationError("try statement not in the table: `%s`" % _dump(st))
        first = st.body[0]
        # memoisation: try: return self.__symbol_cache[name] / except KeyError: <body>
        if (isinstance(first, ast.Return) and isinstance(first.value, ast.Subscript)
                and _self_attr(first.value.value, "__symbol_cache") and len(st.body) == 1 and not st.orelse):
            key = first.value.slice
            if not (isinstance(key, ast.Name) and env.get(key.id) is not None and env[key.id].kind == "key"):
                raise TranslationError("symbol cache read with something else than the key built before")
            missing = {"variable", "t", "ensemble_member", "scaled", "extrapolate"} - env[key.id].kw["names"]
            if missing:
                raise TranslationError("symbol-cache key does not depend on %s" % ", ".join(sorted(missing)))
            return self.run(list(st.handlers[0].body) + rest, env)
        if not (isinstance(first, ast.Assign) and len(first.targets) == 1):
            raise TranslationError("try block does not start with a lookup: `%s`" % _dump(first))
        v = self.ev(first.value, env)
        if v.kind != "lookup":
            raise TranslationError("try block does not start with a dictionary lookup: `%s`" % _dump(first))
        for s in st.body[1:]:
            if not (isinstance(s, ast.Assign) and isinstance(s.value, (ast.Constant, ast.Name))):
                raise TranslationError("statement after the lookup inside `try` is not a plain assignment: `%s`" % _dump(s))
        e_some, e_none = dict(env), dict(env)
        self.assign(first.targets[0], v.kw["result"], e_some)
        self.nfork += 1
        some = self.run(list(st.body[1:]) + list(st.orelse) + rest, e_some)
        none = self.run(list(st.handlers[0].body) + rest, e_none)
        return Fork("match", (v.term, v.kw["binder"]), some, none)

    def prefix_leaf(self, env):
        need = {}
        for nme, kind in (("t0", "rat"), ("tf", "rat"), ("history_times", "list"), ("history", "list"),
                          ("times", "list"), ("state", "list")):
            v = env.get(nme)
            if v is None or v.kind != kind:
                raise TranslationError("`%s` is not a %s at the window selection" % (nme, kind))
            need[nme] = v.term
        return Leaf("some (%s, %s, List.zip %s %s, List.zip %s %s)" % (
            need["t0"], need["tf"], need["history_times"], need["history"], need["times"], need["state"]))


def _key_stmts(fn, tr, env):
    """statements of state_at that build the symbol-cache key: returns the remaining statements"""
    body = [s for s in fn.body if not (isinstance(s, ast.Expr) and isinstance(s.value, ast.Constant))]
    out = []
    for st in body:
        tgt = None
        if isinstance(st, ast.Assign) and len(st.targets) == 1 and isinstance(st.targets[0], ast.Name) \
                and isinstance(st.value, ast.Call) and isinstance(st.value.func, ast.Attribute) and st.value.func.attr == "format":
            tgt = st.targets[0].id
            names = {n.id for n in ast.walk(st.value) if isinstance(n, ast.Name)}
            env[tgt] = V("key", None, names=names)
            continue
        if isinstance(st, ast.If) and not st.orelse and len(st.body) == 1 and isinstance(st.body[0], ast.AugAssign) \
                and isinstance(st.body[0].target, ast.Name) and env.get(st.body[0].target.id) is not None \
                and env[st.body[0].target.id].kind == "key" and isinstance(st.body[0].value, ast.Constant) \
                and isinstance(st.body[0].value.value, str) and st.body[0].value.value != "":
            k = env[st.body[0].target.id]
            names = {n.id for n in ast.walk(st.test) if isinstance(n, ast.Name)}
            if len(names) != 1 or _dump(st.test) not in names:
                raise TranslationError("symbol-cache key suffix under a compound condition: `%s`" % _dump(st.test))
            k.kw["names"] = k.kw["names"] | names
            continue
        out.append(st)
    return out


def translate_state_at(tree):
    fn = _find_method(tree, CLS, "state_at")
    sargs = [a.arg for a in fn.args.args]
    if sargs != ["self", "variable", "t", "ensemble_member", "scaled", "extrapolate"]:
        raise TranslationError("state_at: unexpected signature %r" % sargs)
    tr = Paths("state_at")
    env = {"variable": V("name", "name"), "t": V("rat", "t"), "ensemble_member": V("mark:member"),
           "scaled": V("bool", "scaled"), "extrapolate": V("bool", "extrap")}
    stmts = _key_stmts(fn, tr, env)
    return _emit(tr.run(stmts, env), 1)


def translate_prefix(tree):
    fn = _find_method(tree, CLS, "__states_times_in")
    args = [a.arg for a in fn.args.args]
    if args != ["self", "variable", "t0", "tf", "ensemble_member"]:
        raise TranslationError("__states_times_in: unexpected signature %r" % args)
    dflt = fn.args.defaults
    if not (len(dflt) == 3 and all(isinstance(d, ast.Constant) for d in dflt) and dflt[0].value is None and dflt[1].value is None):
        raise TranslationError("__states_times_in: defaults of t0 / tf are not None")
    tr = Paths("prefix")
    env = {"variable": V("name", "name"), "ensemble_member": V("mark:member"),
           "t0": V("optrat", "a?", var="t0"), "tf": V("optrat", "b?", var="tf")}
    return _emit(tr.run(fn.body, env), 1)


def translate_states_in(tree):
    fn = _find_method(tree, CLS, "states_in")
    args = [a.arg for a in fn.args.args]
    if args != ["self", "variable", "t0", "tf", "ensemble_member"]:
        raise TranslationError("states_in: unexpected signature %r" % args)
    stmts = [s for s in fn.body if not (isinstance(s, ast.Expr) and isinstance(s.value, ast.Constant))]
    if not (len(stmts) == 2 and isinstance(stmts[0], ast.Assign) and isinstance(stmts[0].targets[0], ast.Tuple)
            and len(stmts[0].targets[0].elts) == 2 and all(isinstance(e, ast.Name) for e in stmts[0].targets[0].elts)
            and isinstance(stmts[1], ast.Return) and isinstance(stmts[1].value, ast.Name)):
        raise TranslationError("states_in: not `x, _ = self.__states_times_in(...)` / `return x`")
    call = stmts[0].value
    if not (isinstance(call, ast.Call) and _dump(call.func) == "self.__states_times_in"):
        raise TranslationError("states_in does not call __states_times_in")
    params = ["variable", "t0", "tf", "ensemble_member"]
    given = dict(zip(params, call.args))
    for k in call.keywords:
        if k.arg not in params or k.arg in given:
            raise TranslationError("states_in: argument `%s`" % k.arg)
        given[k.arg] = k.value
    for k in params:
        if k not in given or not (isinstance(given[k], ast.Name) and given[k].id == k):
            raise TranslationError("states_in passes something else than its own `%s`" % k)
    names = [e.id for e in stmts[0].targets[0].elts]
    which = names.index(stmts[1].value.id) if stmts[1].value.id in names else None
    if which is None:
        raise TranslationError("states_in returns something else than a result of __states_times_in")
    # __states_times_in returns (x, t): checked by translate_assemble
    return "·.2" if which == 0 else "·.1"


def translate_extract(tree):
    """the de-scaling statements of extract_controls / extract_states and the constant-input loop"""
    out = {}

    def loop_body(fn_name, over_pred, what):
        fn = _find_method(tree, CLS, fn_name)
        env0 = {}
        for st in fn.body:
            if isinstance(st, ast.Assign) and len(st.targets) == 1 and isinstance(st.targets[0], ast.Name):
                d = _dump(st.value, 200)
                if d == "self.solver_output.copy()":
                    env0[st.targets[0].id] = "X"
                elif d == "self.__indices[ensemble_member]":
                    env0[st.targets[0].id] = "indices"
                elif d == "self.constant_inputs(ensemble_member)":
                    env0[st.targets[0].id] = "cindict"
                elif d == "{}" and st.targets[0].id == "results":
                    env0["results"] = "results"
        loops = [st for st in fn.body if isinstance(st, ast.For) and over_pred(_dump(st.iter, 300))]
        if len(loops) != 1:
            raise TranslationError("%s: the loop over %s was not found (or is not unique)" % (fn_name, what))
        lp = loops[0]
        if not isinstance(lp.target, ast.Name) or lp.orelse:
            raise TranslationError("%s: loop header not in the table" % fn_name)
        return env0, lp

    def val(node, env, var):
        """value of an expression of the de-scaling statements: a Lean term of type List Rat / Rat"""
        d = _dump(node, 300)
        if isinstance(node, ast.Name) and env.get(node.id, (None,))[0] == "term":
            return env[node.id][1]
        if isinstance(node, ast.Subscript):
            b, s = _dump(node.value), node.slice
            if env.get(b) == "X" and isinstance(s, ast.Name) and env.get(s.id) == "inds":
                return "v.xs"
            if env.get(b) == "results" and isinstance(s, ast.Name) and s.id == var and "@result" in env:
                return env["@result"]
        if d == "self.variable_nominal(%s)" % var:
            return ("nominal",)
        if isinstance(node, ast.BinOp) and isinstance(node.op, ast.Mult):
            a, b = val(node.left, env, var), val(node.right, env, var)
            if a == ("nominal",) and isinstance(b, str):
                return "(vscale v.nominal %s)" % b
            if b == ("nominal",) and isinstance(a, str):
                return "(vscale v.nominal %s)" % a
        raise TranslationError("extract: expression not in the table: `%s`" % d)

    def descale(fn_name, over_pred, what):
        env, lp = loop_body(fn_name, over_pred, what)
        var = lp.target.id
        env = dict(env)

        def block(stmts):
            for st in stmts:
                if isinstance(st, ast.If):
                    d = _dump(st.test)
                    if d == "%s in results" % var and len(st.body) == 1 and isinstance(st.body[0], ast.Continue) and not st.orelse:
                        continue
                    if d == "variable_size > 1":
                        block(st.orelse)
                        continue
                    raise TranslationError("%s: branch not in the table: `%s`" % (fn_name, d))
                if isinstance(st, ast.Assign) and len(st.targets) == 1:
                    t = st.targets[0]
                    d = _dump(st.value, 200)
                    if isinstance(t, ast.Name) and d == "%s[%s]" % (next((k for k, v in env.items() if v == "indices"), "?"), var):
                        env[t.id] = "inds"
                        continue
                    if isinstance(t, ast.Name) and d == "variable_sizes[%s]" % var:
                        continue
                    if isinstance(t, ast.Subscript) and env.get(_dump(t.value)) == "results" and _dump(t.slice) == var:
                        env["@result"] = val(st.value, env, var)
                        continue
                    if isinstance(t, ast.Name):
                        env[t.id] = ("term", val(st.value, env, var))
                        continue
                raise TranslationError("%s: statement not in the table: `%s`" % (fn_name, _dump(st)))

        block(lp.body)
        if "@result" not in env:
            raise TranslationError("%s: no `results[%s] = ...`" % (fn_name, var))
        return env["@result"]

    out["controls"] = descale("extract_controls", lambda d: d == "self.controls", "self.controls")
    out["states"] = descale("extract_states", lambda d: d.startswith("itertools.chain(") and "self.differentiated_states" in d
                            and "self.algebraic_states" in d, "the states")
    # constant inputs
    env, lp = loop_body("extract_states", lambda d: d == "self.dae_variables['constant_inputs']", "the constant inputs")
    var = lp.target.id
    stmts = list(lp.body)
    if not (len(stmts) == 2 and _dump(stmts[0]) == "%s = %s.name()" % (var, var) and isinstance(stmts[1], ast.Try)):
        raise TranslationError("extract_states: constant-input loop body not in the table")
    tr = stmts[1]
    cd = next((k for k, v in env.items() if v == "cindict"), "?")
    ok = (len(tr.body) == 1 and isinstance(tr.body[0], ast.Assign) and _dump(tr.body[0].value) == "%s[%s]" % (cd, var)
          and len(tr.handlers) == 1 and _dump(tr.handlers[0].type) == "KeyError"
          and all(isinstance(s, ast.Pass) for s in tr.handlers[0].body) and len(tr.orelse) == 1 and not tr.finalbody)
    if not ok:
        raise TranslationError("extract_states: constant-input lookup not in the table")
    ci = tr.body[0].targets[0].id
    st = tr.orelse[0]
    if not (isinstance(st, ast.Assign) and isinstance(st.targets[0], ast.Subscript) and _dump(st.targets[0]) == "results[%s]" % var
            and isinstance(st.value, ast.Call) and _dump(st.value.func) == "self.interpolate" and len(st.value.args) == 6
            and not st.value.keywords):
        raise TranslationError("extract_states: constant inputs are not written as `results[v] = self.interpolate(..6 args..)`")
    a = [_dump(x, 200) for x in st.value.args]
    if a[0] != "self.times(%s)" % var or a[1] != ci + ".times" or a[2] != ci + ".values":
        raise TranslationError("extract_states: constant-input interpolation arguments not in the table: %s" % a[:3])
    fills = {ci + ".values[0]": "(finFill (firstVal c.series))", ci + ".values[-1]": "(finFill (lastVal c.series))",
             "np.nan": "nanFill"}
    if a[3] not in fills or a[4] not in fills:
        raise TranslationError("extract_states: constant-input fills not in the table: %s, %s" % (a[3], a[4]))
    modes = {"self.interpolation_method(%s)" % var: "c.mode", "self.INTERPOLATION_LINEAR": "0"}
    if a[5] not in modes:
        raise TranslationError("extract_states: constant-input interpolation method not in the table: %s" % a[5])
    out["cin"] = "interpArray %s c.series %s %s ts" % (modes[a[5]], fills[a[3]], fills[a[4]])
    return out


GEN2_TEMPLATE = """import RtcVerif.Proofs.C15Gen
/-!
GENERATED on every run of the C15 check by harness/translate_c15.py from `state_at`, the first half of
`__states_times_in`, `states_in` and the de-scaling statements of `extract_controls` / `extract_states` in
/repo/src/rtctools/optimization/collocated_integrated_optimization_problem.py
(path-by-path symbolic execution against the second table in the translator).  Do not edit.
-/
set_option linter.unusedVariables false
set_option linter.unusedSimpArgs false
set_option linter.unreachableTactic false
set_option linter.unusedTactic false
namespace RtcVerif.Gen
open RtcVerif RtcVerif.Interp RtcVerif.C15

/-- `state_at(variable, t, m, scaled, extrapolate)` -/
def stateAtGen (p : Prob) (name : String) (t : Rat) (scaled extrap : Bool) : Res :=
%(state_at)s

theorem stateAtGen_eq_model (p : Prob) (name : String) (t : Rat) (scaled extrap : Bool) :
    stateAtGen p name t scaled extrap = C15.stateAt p name t scaled extrap := by
  unfold stateAtGen C15.stateAt
  generalize p.canon name = c
  obtain ⟨cn, neg⟩ := c
  dsimp only
  cases hs : p.svars.lookup cn with
  | some v =>
    simp only [svStateAt, applySign, SVar.knots]
    by_cases hn : v.nominal = 1 <;> by_cases ht : t < p.t0 <;> cases hh : v.hist <;>
      cases scaled <;> cases extrap <;> cases neg <;>
      simp [hs, hh, hn, ht, res_scale_one, res_divBy_one, res_scale_neg_one, mul_comm] <;>
      (try (split <;> rfl)) <;> (try (intros; simp_all [res_scale_one, res_divBy_one]; done))
  | none =>
    cases hc : p.cins.lookup cn <;> cases hp : p.pars.lookup cn <;> cases extrap <;> cases neg <;>
      simp [hs, hc, hp, ciStateAt, mul_comm]

/-- `__states_times_in` up to the window selection: the window `(a, b)`, the history knots available
    and the signed, unscaled state knots; `none` = the code raises -/
def statesPrefixGen (p : Prob) (name : String) (a? b? : Option Rat) : Option (Rat × Rat × Knots × Knots) :=
%(prefix)s

theorem statesPrefixGen_eq_model (p : Prob) (name : String) (a? b? : Option Rat) :
    (statesPrefixGen p name a? b?).bind (fun r => C15.assemble p name r.1 r.2.1 r.2.2.1 r.2.2.2)
      = C15.statesTimesIn p name a? b? := by
  rw [statesTimesIn_eq_assemble]
  unfold statesPrefixGen windowHist
  simp only [zip_dropLast_split_neg, zip_dropLast_split]
  generalize hc : p.canon name = c
  obtain ⟨cn, neg⟩ := c
  dsimp only
  cases hs : p.svars.lookup cn with
  | none => cases a? <;> cases b? <;> simp [Prob.timesOf, hc, hs]
  | some v =>
    have htm : p.timesOf name = v.times := by simp [Prob.timesOf, hc, hs]
    cases a? <;> cases b? <;> cases hh : v.hist <;> cases neg <;>
      simp [hs, hh, htm, sgn, List.map_map, Function.comp_def] <;>
      split <;> simp_all

/-- `states_in(variable, t0, tf, m)` -/
def statesInGen (p : Prob) (name : String) (a? b? : Option Rat) : Option (List Rat) :=
  (C15.statesTimesIn p name a? b?).map (·.map (%(states_in)s))

theorem statesInGen_eq_model (p : Prob) (name : String) (a? b? : Option Rat) :
    statesInGen p name a? b? = C15.statesIn p name a? b? := rfl

/-- `extract_controls`: the value written for a control -/
def extractControlGen (v : SVar) : List Rat := %(x_controls)s
/-- `extract_states`: the value written for a (scalar, collocated) state / algebraic state / path variable -/
def extractStateGen (v : SVar) : List Rat := %(x_states)s
/-- `extract_states`: the value written for a constant input at the time stamps `ts` of the variable -/
def extractCinGen (c : CIn) (ts : List Rat) : Option (List XVal) := %(x_cin)s

theorem extractGen_eq_model (v : SVar) (c : CIn) (ts : List Rat) :
    extractControlGen v = v.results ∧ extractStateGen v = v.results ∧ extractCinGen c ts = C15.ciResults c ts := by
  unfold extractControlGen extractStateGen extractCinGen SVar.results ciResults vscale
  exact ⟨rfl, rfl, rfl⟩

end RtcVerif.Gen
"""

THEOREMS2 = ["stateAtGen_eq_model", "statesPrefixGen_eq_model", "statesInGen_eq_model", "extractGen_eq_model"]


def gen_state_at(c):
    """(re)generate lean/RtcVerif/Gen/StateAt.lean; returns the extra obligation spec for c.prove"""
    gdir = os.path.join(LEAN_DIR, "RtcVerif", "Gen")
    os.makedirs(gdir, exist_ok=True)
    path = os.path.join(gdir, "StateAt.lean")
    what = "state_at / __states_times_in (first half) / states_in / extract_results"
    try:
        tree = ast.parse(open(os.path.join(REPO, SRC)).read())
        sa = translate_state_at(tree)
        pre = translate_prefix(tree)
        si = translate_states_in(tree)
        ex = translate_extract(tree)
    except TranslationError as e:
        c.broken.append(("translator: " + what, str(e)))
        return []
    except (OSError, SyntaxError) as e:
        c.broken.append(("translator: " + what, "cannot read/parse the source: %s" % e))
        return []
    text = GEN2_TEMPLATE % dict(state_at=sa, prefix=pre, states_in=si, x_controls=ex["controls"], x_states=ex["states"],
                                x_cin=ex["cin"])
    old = open(path).read() if os.path.exists(path) else None
    if old != text:
        tmp = path + ".tmp%d" % os.getpid()
        with open(tmp, "w") as f:
            f.write(text)
        os.replace(tmp, path)
    return [("RtcVerif.Gen.StateAt", "RtcVerif.Gen", THEOREMS2)]
