"""
Source-to-Lean translation of the decisive kernels of delayed feedback (second tie for C16, besides
the correspondence check).  On every run of the C16 check the functions are parsed from
`$RTC_REPO/src/rtctools/simulation/simulation_problem.py` and
`$RTC_REPO/src/rtctools/optimization/collocated_integrated_optimization_problem.py`, executed
symbolically against the CLOSED table below and `lean/RtcVerif/Gen/DelayRows.lean` is (re)generated:

  bufLenGen     buffer length in `_create_delay_expression_states`        = C16.bufLen
  simStepGen    the three delay residuals + weight in `initialize`        = C16.simStep  (weightGen = C16.weight)
  histStartGen  `hist_earliest` / `hist_start_ind` (+ "one earlier")      = DelayProb.histStart
  incompleteGen the incomplete-history test                               = DelayProb.incomplete
  outKnotsIncGen  the slices taken when the history is dropped            = DelayProb.outKnots (when incomplete)
  yAtGen        `x_in`: nominal, alias sign, interpolation to the collocation times   = DelayProb.yAt
  rowGen        the appended row `(x_in - x_out_delayed) / nominal`       = the entries of DelayProb.rows

Table "Python construct -> model term" (anything else is REJECTED):

  simulation
    delay_time ; self.get_time_step() / self.__dt          tau ; dt
    int(np.ceil(e))                                          ceilNat e            (rational ceiling as a natural number)
    self.__sym_dict[expression_state].numel()                bufLen tau dt        (size of the expression buffer created above)
    delay_equations.append(U - e1 - e2 ...)                  U := e1 + e2 + ...   (a residual that is driven to zero)
      U = X[i_expr_start]                                    new buffer head      e = delay_argument.expr  ->  dNew
      U = X[i_expr_start + 1 : i_expr_end]                   new buffer tail      e = X_prev[i_expr_start : i_expr_end - 1] -> s.buf.dropLast
      U = X[i_delay_state]                                   new delayed state
      X[i_expr_end - 1] / X_prev[i_expr_end - 1]             last entry of the new / the previous buffer
  optimisation (body of `for i in range(len(delayed_feedback_expressions))`)
    self.alias_relation.canonical_signed(in_variable_name)   (receiving column, sign = sgn d.outNeg)
    self.times(in_canonical) / self.variable_nominal(in_canonical) / self.state_vector(in_canonical, ensemble_member=m)
                                                             outCol.sv.times / .nominal / .xs
    c * v, v * c, v *= c  (v the raw vector)                 the coefficient of the vector is multiplied by c
    if in_sign < 0: v *= in_sign                             coefficient multiplied by sgn d.outNeg (= the sign, ±1)
    np.concatenate([history_times, collocation_times])       d.hts ++ d.ts
    ca.veccat(delayed_feedback_history[:, i], initial_delayed_feedback[i], ca.transpose(discretized_delayed_feedback[i, :]))
                                                             d.histD ++ d.trajD
    np.min(collocation_times - delay)                        d.earliest
    np.searchsorted(T, e)                                    searchLeft T e ;  T[k]  T.getD k 0
    k -= 1 under `if T[k] != e`                              if .. then k - 1 else k
    k < 0 or np.any(np.isnan(delayed_feedback_history[k:, i]))   decide (k < 0) || (d.histD.drop k.toNat).any (not a number)
    V = V[len(history_times):]                               V.drop d.hts.length
    len(collocation_times) != len(in_times) ; interpolate(in_times, v, collocation_times, False, mode(in_canonical))
                                                             d.ts.length ≠ times.length ; interpSym mode (times.zip v) (d.ts.getD k 0)
    interpolate(out_times, out_values, collocation_times - delay, False, mode(in_canonical))
                                                             d.delayedAt k   (interpolation of `outKnots` at t_k - tau_k;
                                                             in the complete case the code keeps knots before the needed
                                                             range, the model drops them: not translated, see C16 report)
    nominal_delayed_feedback[i]                              d.nominal
    g.append((a - b) / n)                                    Res.divBy n (Res.sub a b)
"""
import ast
import os
from fractions import Fraction

from .common import LEAN_DIR, REPO
from .translate import TranslationError, _find_method
from .translate_c15 import _dump, _lit

SIM = os.path.join("src", "rtctools", "simulation", "simulation_problem.py")
OPT = os.path.join("src", "rtctools", "optimization", "collocated_integrated_optimization_problem.py")
BIN = {ast.Add: "+", ast.Sub: "-", ast.Mult: "*", ast.Div: "/"}


def _is_dt(node):
    return _dump(node) in ("self.get_time_step()", "self.__dt")


# ---------------------------------------------------------------------------------------------
# simulation


def _rat(node, env):
    if isinstance(node, ast.Constant) and isinstance(node.value, (int, float)) and not isinstance(node.value, bool):
        return _lit(node.value)
    if isinstance(node, ast.Name) and node.id in env and env[node.id][0] == "rat":
        return env[node.id][1]
    if _is_dt(node):
        return "dt"
    if isinstance(node, ast.BinOp) and type(node.op) in BIN:
        return "(%s %s %s)" % (_rat(node.left, env), BIN[type(node.op)], _rat(node.right, env))
    raise TranslationError("number not in the table: `%s`" % _dump(node))


def translate_buflen(tree):
    fn = _find_method(tree, "SimulationProblem", "_create_delay_expression_states")
    loop = next((s for s in fn.body if isinstance(s, ast.For)), None)
    if loop is None or not (isinstance(loop.target, ast.Tuple) and len(loop.target.elts) == 2
                            and _dump(loop.iter).endswith("delay_states, self.__delay_times)")):
        raise TranslationError("_create_delay_expression_states: loop over zip(delay states, delay times) not found")
    tau_name = loop.target.elts[1].id
    env = {tau_name: ("rat", "tau")}

    def nat(node):
        if isinstance(node, ast.Constant) and isinstance(node.value, int):
            return "%d" % node.value
        if isinstance(node, ast.Call) and _dump(node.func) == "int" and len(node.args) == 1:
            a = node.args[0]
            if isinstance(a, ast.Call) and _dump(a.func) == "np.ceil" and len(a.args) == 1:
                return "ceilNat %s" % _rat(a.args[0], env)
        raise TranslationError("buffer length not in the table: `%s`" % _dump(node))

    for st in loop.body:
        if isinstance(st, ast.If):
            t = st.test
            if not (isinstance(t, ast.Compare) and len(t.ops) == 1 and isinstance(t.ops[0], ast.Gt)
                    and _dump(t.left) == tau_name and isinstance(t.comparators[0], ast.Constant) and t.comparators[0].value == 0):
                raise TranslationError("buffer length: test is not `<delay time> > 0`: `%s`" % _dump(t))
            if not (len(st.body) == 1 and len(st.orelse) == 1 and all(isinstance(s, ast.Assign) for s in st.body + st.orelse)
                    and _dump(st.body[0].targets[0]) == _dump(st.orelse[0].targets[0])
                    and any(isinstance(n, ast.Name) and n.id == _dump(st.body[0].targets[0]) for s2 in loop.body[loop.body.index(st) + 1:] for n in ast.walk(s2))):
                raise TranslationError("buffer length: both branches must assign the buffer length once: `%s`" % _dump(st, 200))
            return "if tau > 0 then %s else %s" % (nat(st.body[0].value), nat(st.orelse[0].value))
    raise TranslationError("_create_delay_expression_states: buffer length not assigned under `if <delay time> > 0`")


def translate_simstep(tree):
    fn = _find_method(tree, "SimulationProblem", "initialize")
    loop = None
    for st in ast.walk(fn):
        if isinstance(st, ast.For) and isinstance(st.target, ast.Tuple) \
                and len(st.target.elts) == 3 and any("delay_equations.append" in _dump(s, 300) for s in st.body):
            loop = st
    if loop is None:
        raise TranslationError("initialize: the delay-equation loop not found")
    arg_name, tau_name = loop.target.elts[1].id, loop.target.elts[2].id
    env = {tau_name: ("rat", "tau")}
    eqs = {}
    weight = None

    def term(node):
        """a scalar/vector term of a residual -> (kind, lean)"""
        d = _dump(node)
        if d == arg_name + ".expr":
            return "dNew"
        if d == "X[i_expr_end - 1]":
            return "buf'.getLastD 0"
        if d == "X_prev[i_expr_end - 1]":
            return "s.buf.getLastD 0"
        if d == "X_prev[i_expr_start:i_expr_end - 1]":
            return "s.buf.dropLast"
        if isinstance(node, ast.BinOp) and isinstance(node.op, ast.Mult):
            return "%s * %s" % (factor(node.left), factor(node.right))
        raise TranslationError("residual term not in the table: `%s`" % d)

    def factor(node):
        d = _dump(node)
        if d in ("X[i_expr_end - 1]", "X_prev[i_expr_end - 1]"):
            return term(node)
        return _rat(node, env)

    def chain(node):
        if isinstance(node, ast.BinOp) and isinstance(node.op, ast.Sub):
            return chain(node.left) + [node.right]
        return [node]

    for st in loop.body:
        if isinstance(st, ast.Assign) and len(st.targets) == 1:
            t = _dump(st.targets[0])
            v = _dump(st.value)
            if t in ("expression_state",) or t.startswith("(i_") or t.startswith("i_"):
                continue
            if v == "self.__sym_dict[expression_state].numel()":
                env[t] = ("rat", "((C16.bufLen tau dt : Nat) : Rat)")
                continue
            if isinstance(st.targets[0], ast.Name) and weight is None:
                weight = _rat(st.value, env)  # the first number computed here is the interpolation weight
                env[t] = ("rat", "w")
                continue
            raise TranslationError("statement not in the table: `%s`" % _dump(st))
        if isinstance(st, ast.Expr) and isinstance(st.value, ast.Call) and _dump(st.value.func) == "delay_equations.append" \
                and len(st.value.args) == 1:
            parts = chain(st.value.args[0])
            u = _dump(parts[0])
            key = {"X[i_expr_start]": "head", "X[i_expr_start + 1:i_expr_end]": "tail", "X[i_delay_state]": "y"}.get(u)
            if key is None or key in eqs or len(parts) < 2:
                raise TranslationError("residual not in the table: `%s`" % _dump(st))
            eqs[key] = " + ".join(term(p) for p in parts[1:])
            continue
        raise TranslationError("statement not in the table: `%s`" % _dump(st))
    if set(eqs) != {"head", "tail", "y"} or weight is None:
        raise TranslationError("initialize: the three delay residuals and the weight were not all found")
    return weight, eqs


# ---------------------------------------------------------------------------------------------
# optimisation


def translate_rows(tree):
    fn = _find_method(tree, "CollocatedIntegratedOptimizationProblem", "transcribe")
    loop = None
    for st in ast.walk(fn):
        if isinstance(st, ast.For) and _dump(st.iter) == "range(len(delayed_feedback_expressions))":
            loop = st
    if loop is None or not isinstance(loop.target, ast.Name):
        raise TranslationError("transcribe: the delayed-feedback row loop not found")
    i = loop.target.id
    env = {}
    out = {}

    def vec(node):
        """the receiving vector: (coefficient factors, base) """
        if isinstance(node, ast.Name) and node.id in env and env[node.id][0] == "vec":
            return env[node.id][1]
        if isinstance(node, ast.Call) and _dump(node.func) == "self.state_vector":
            kw = {k.arg: _dump(k.value) for k in node.keywords}
            if len(node.args) == 1 and scalar_kind(node.args[0]) == "canonical" and kw == {"ensemble_member": "ensemble_member"}:
                return []
            raise TranslationError("state_vector call not in the table: `%s`" % _dump(node))
        if isinstance(node, ast.BinOp) and isinstance(node.op, ast.Mult):
            for a, b in ((node.left, node.right), (node.right, node.left)):
                try:
                    c = coef(a)
                except TranslationError:
                    continue
                return vec(b) + [c]
        raise TranslationError("receiving vector not in the table: `%s`" % _dump(node))

    def scalar_kind(node):
        return env.get(node.id, (None,))[0] if isinstance(node, ast.Name) else None

    def coef(node):
        if isinstance(node, ast.Name) and node.id in env and env[node.id][0] == "coef":
            return env[node.id][1]
        if isinstance(node, ast.Constant) and isinstance(node.value, (int, float)):
            return _lit(node.value)
        raise TranslationError("coefficient not in the table: `%s`" % _dump(node))

    def cterm(fs):
        return "(" + " * ".join(reversed(fs)) + ")" if fs else "(1 : Rat)"

    def on_canonical(node, method):
        return isinstance(node, ast.Call) and _dump(node.func) == "self." + method and len(node.args) == 1 \
            and not node.keywords and env.get(_dump(node.args[0])) == ("canonical", None)

    def mode_ok(node):
        return env.get(_dump(node)) == ("mode", "in") or on_canonical(node, "interpolation_method")

    def walk(stmts):
        for st in stmts:
            d = _dump(st, 400)
            if isinstance(st, ast.Expr) and isinstance(st.value, ast.Constant):
                continue
            if isinstance(st, ast.Assert):
                continue
            if isinstance(st, ast.Expr) and isinstance(st.value, ast.Call) and _dump(st.value.func).startswith("logger."):
                continue
            if isinstance(st, ast.Assign) and len(st.targets) == 1:
                t, v = st.targets[0], st.value
                tn = _dump(t)
                vd = _dump(v, 400)
                if isinstance(t, ast.Tuple) and len(t.elts) == 2 and all(isinstance(e, ast.Name) for e in t.elts):
                    if not (isinstance(v, ast.Call) and _dump(v.func) == "self.alias_relation.canonical_signed" and len(v.args) == 1
                            and env.get(_dump(v.args[0])) == ("name", None)):
                        raise TranslationError("alias resolution not in the table: `%s`" % d)
                    env[t.elts[0].id] = ("canonical", None)
                    env[t.elts[1].id] = ("coef", "sgn d.outNeg")
                    continue
                if not isinstance(t, ast.Name):
                    raise TranslationError("assignment not in the table: `%s`" % d)
                if vd == "delayed_feedback_states[%s]" % i:
                    env[tn] = ("name", None)
                elif vd in ("delayed_feedback_expressions[%s]" % i,):
                    env[tn] = ("ignored", None)
                elif vd == "evaluated_delay_durations[%s]" % i or (vd.endswith(".toarray().flatten()") and env.get(vd[:-len(".toarray().flatten()")]) == ("delay", None)):
                    env[tn] = ("delay", None)
                elif on_canonical(v, "times"):
                    env[tn] = ("times", "d.outCol.sv.times")
                elif on_canonical(v, "variable_nominal"):
                    env[tn] = ("coef", "d.outCol.sv.nominal")
                elif on_canonical(v, "interpolation_method"):
                    env[tn] = ("mode", "in")
                elif vd == "np.concatenate([history_times, collocation_times])":
                    env[tn] = ("list", "(d.hts ++ d.ts)")
                elif vd == ("ca.veccat(delayed_feedback_history[:, %s], initial_delayed_feedback[%s], "
                            "ca.transpose(discretized_delayed_feedback[%s, :]))" % (i, i, i)):
                    env[tn] = ("vals", "(d.histD ++ d.trajD)")
                elif vd in ["np.min(collocation_times - %s)" % n for n, vv in env.items() if vv[0] == "delay"]:
                    env[tn] = ("rat", "d.earliest")
                elif isinstance(v, ast.Call) and _dump(v.func) == "np.searchsorted" and len(v.args) == 2 \
                        and env.get(_dump(v.args[0]), (None,))[0] == "list" and env.get(_dump(v.args[1]), (None,))[0] == "rat":
                    env[tn] = ("int", "((searchLeft %s %s : Nat) : Int)" % (env[_dump(v.args[0])][1], env[_dump(v.args[1])][1]))
                elif isinstance(v, ast.Subscript) and isinstance(v.slice, ast.Slice) and _dump(v.slice.lower or ast.Constant(0)) == "len(history_times)" \
                        and v.slice.upper is None and env.get(_dump(v.value), (None,))[0] in ("list", "vals"):
                    k, b = env[_dump(v.value)]
                    env[tn] = (k, "(%s.drop d.hts.length)" % b)
                elif vd == "nominal_delayed_feedback[%s]" % i:
                    env[tn] = ("rat", "d.nominal")
                elif isinstance(v, ast.Call) and _dump(v.func) == "interpolate" and len(v.args) == 5:
                    a = [_dump(x) for x in v.args]
                    if scalar_kind(v.args[0]) == "times" and scalar_kind(v.args[1]) == "vec" and a[2] == "collocation_times" \
                            and a[3] == "False" and mode_ok(v.args[4]):
                        env[tn] = ("res", "ofOut (interpSym d.outCol.sv.mode (d.outCol.sv.times.zip (d.outCol.sv.xs.map (%s * ·))) (d.ts.getD k 0))"
                                   % cterm(env[a[1]][1]))
                    elif a[0] == out.get("T") and a[1] == out.get("V") and a[2] in ["collocation_times - %s" % n for n, vv in env.items() if vv[0] == "delay"] \
                            and a[3] == "False" and mode_ok(v.args[4]):
                        env[tn] = ("res", "d.delayedAt k")
                    else:
                        raise TranslationError("interpolate call not in the table: `%s`" % vd)
                else:
                    try:
                        env[tn] = ("vec", vec(v))
                    except TranslationError:
                        if isinstance(v, ast.Name) and scalar_kind(v) == "vec":
                            env[tn] = env[v.id]
                        else:
                            raise TranslationError("assignment not in the table: `%s`" % d)
                continue
            if isinstance(st, ast.AugAssign) and isinstance(st.target, ast.Name):
                tn = st.target.id
                if isinstance(st.op, ast.Mult) and scalar_kind(st.target) == "vec":
                    env[tn] = ("vec", env[tn][1] + [coef(st.value)])
                    continue
                if isinstance(st.op, ast.Sub) and scalar_kind(st.target) == "int" and _dump(st.value) == "1":
                    env[tn] = ("int", "(%s - 1)" % env[tn][1])
                    continue
                raise TranslationError("update not in the table: `%s`" % d)
            if isinstance(st, ast.If):
                t = _dump(st.test, 300)
                tt = st.test
                if isinstance(tt, ast.Compare) and len(tt.ops) == 1 and isinstance(tt.ops[0], ast.Lt) \
                        and env.get(_dump(tt.left)) == ("coef", "sgn d.outNeg") and _dump(tt.comparators[0]) == "0" \
                        and len(st.body) == 1 and not st.orelse and isinstance(st.body[0], ast.AugAssign) \
                        and isinstance(st.body[0].op, ast.Mult) and env.get(_dump(st.body[0].value)) == ("coef", "sgn d.outNeg") \
                        and scalar_kind(st.body[0].target) == "vec":
                    nme = st.body[0].target.id
                    env[nme] = ("vec", env[nme][1] + ["sgn d.outNeg"])
                    continue
                if isinstance(tt, ast.Compare) and len(tt.ops) == 1 and isinstance(tt.ops[0], ast.NotEq) and not st.orelse \
                        and isinstance(tt.left, ast.Subscript) and env.get(_dump(tt.left.value), (None,))[0] == "list" \
                        and env.get(_dump(tt.left.slice), (None,))[0] == "int" and env.get(_dump(tt.comparators[0]), (None,))[0] == "rat":
                    T, K, E = _dump(tt.left.value), _dump(tt.left.slice), _dump(tt.comparators[0])
                    before = env[K][1]
                    walk(st.body)
                    after = env[K][1]
                    env[K] = ("int", "(if %s.getD (%s).toNat 0 ≠ %s then %s else %s)" % (env[T][1], before, env[E][1], after, before))
                    out["histStart"] = env[K][1]
                    out["K"], out["T"] = K, T
                    continue
                if "histStart" in out and t == "%s < 0 or np.any(np.isnan(delayed_feedback_history[%s:, %s]))" % (out["K"], out["K"], i) \
                        and not st.orelse:
                    out["incomplete"] = True
                    e_before = dict(env)
                    walk(st.body)
                    lists = [n for n, v in env.items() if v[0] == "list" and v is not e_before.get(n)]
                    vals = [n for n, v in env.items() if v[0] == "vals" and v is not e_before.get(n)]
                    if lists != [out["T"]] or len(vals) != 1:
                        raise TranslationError("dropping the history must slice the out times and the out values")
                    out["V"] = vals[0]
                    out["inc_times"], out["inc_vals"] = env[lists[0]][1], env[vals[0]][1]
                    # afterwards the knots are `d.outKnots` (complete case: not translated)
                    env[lists[0]], env[vals[0]] = e_before[lists[0]], e_before[vals[0]]
                    continue
                tnames = [n for n, v in env.items() if v[0] == "times"]
                if any(t in ("len(collocation_times) != len(%s)" % n, "len(%s) != len(collocation_times)" % n) for n in tnames):
                    ea = dict(env)
                    walk(st.body)
                    new = [n for n, v in env.items() if v[0] == "res" and n not in ea]
                    if len(new) != 1:
                        raise TranslationError("x_in: one interpolated value expected in the own-grid branch")
                    xin = new[0]
                    xa = env.get(xin)
                    env.clear()
                    env.update(ea)
                    walk(st.orelse)
                    xb = env.get(xin)
                    if not xa or not xb or xa[0] != "res" or xb[0] != "vec":
                        raise TranslationError("x_in: interpolated on an own grid, the vector itself otherwise: `%s`" % d[:200])
                    out["xin"] = xin
                    env[xin] = ("res", "(if d.ts.length ≠ d.outCol.sv.times.length then %s else .num ((d.outCol.sv.xs.map (%s * ·)).getD k 0))"
                                   % (xa[1], cterm(xb[1])))
                    out["yAt"] = env[xin][1]
                    continue
                raise TranslationError("condition not in the table: `%s`" % t)
            if isinstance(st, ast.Expr) and isinstance(st.value, ast.Call) and _dump(st.value.func) == "g.append" and len(st.value.args) == 1:
                e = st.value.args[0]
                if isinstance(e, ast.BinOp) and isinstance(e.op, ast.Div) and isinstance(e.left, ast.BinOp) and isinstance(e.left.op, ast.Sub):
                    a, b, n = _dump(e.left.left), _dump(e.left.right), _dump(e.right)
                    if env.get(a, (None,))[0] == "res" and env.get(b, (None,))[0] == "res" and env.get(n, (None,))[0] == "rat":
                        ra = "(yAtGen d k)" if a == out.get("xin") else env[a][1]
                        rb = "(yAtGen d k)" if b == out.get("xin") else env[b][1]
                        out["row"] = "Res.divBy %s (Res.sub %s (%s))" % (env[n][1], ra, rb)
                        continue
                raise TranslationError("appended row not in the table: `%s`" % d)
            if isinstance(st, ast.Expr) and isinstance(st.value, ast.Call) and _dump(st.value.func) in ("lbg.extend", "ubg.extend"):
                if _dump(st.value.args[0]) != "zeros":
                    raise TranslationError("row bounds are not zeros: `%s`" % d)
                continue
            if isinstance(st, ast.Assign) and _dump(st.targets[0]) == "zeros":
                continue
            raise TranslationError("statement not in the table: `%s`" % d[:160])

    # `zeros = np.zeros(n_collocation_times)` is an Assign handled above only after the generic branch: pre-filter
    body = [s for s in loop.body if not (isinstance(s, ast.Assign) and _dump(s.targets[0]) == "zeros"
                                         and _dump(s.value) == "np.zeros(n_collocation_times)")]
    walk(body)
    for k in ("histStart", "incomplete", "inc_times", "inc_vals", "yAt", "row"):
        if k not in out:
            raise TranslationError("transcribe: `%s` part of the delay rows not found" % k)
    return out


# ---------------------------------------------------------------------------------------------

GEN_TEMPLATE = """import RtcVerif.Proofs.C16Gen
/-!
GENERATED on every run of the C16 check by harness/translate_c16.py from
`SimulationProblem._create_delay_expression_states` / `initialize` (delay residuals) in
/repo/src/rtctools/simulation/simulation_problem.py and the delayed-feedback row loop of
`CollocatedIntegratedOptimizationProblem.transcribe` (table in the header of the translator).
Do not edit.  The theorems tie the source, read this way, to the model the theorems of C16 are about.
-/
set_option linter.unusedVariables false
set_option linter.unusedSimpArgs false
set_option linter.unreachableTactic false
set_option linter.unusedTactic false
namespace RtcVerif.Gen
open RtcVerif RtcVerif.Interp RtcVerif.C15 RtcVerif.C16

/-- number of buffered expression values -/
def bufLenGen (tau dt : Rat) : Nat := %(buflen)s

theorem bufLenGen_eq_model (tau dt : Rat) : bufLenGen tau dt = C16.bufLen tau dt := by
  unfold bufLenGen C16.bufLen
  first | rfl | (split <;> simp_all)

/-- `interpolation_weight` -/
def weightGen (tau dt : Rat) : Rat := %(weight)s

theorem weightGen_eq_model (tau dt : Rat) : weightGen tau dt = C16.weight tau dt := by
  unfold weightGen C16.weight
  first | rfl | ring

/-- the state that zeroes the three delay residuals of one step -/
def simStepGen (tau dt : Rat) (s : SimState) (dNew : Rat) : SimState :=
  let w := weightGen tau dt
  let buf' : List Rat := (%(head)s) :: (%(tail)s)
  ⟨buf', %(y)s⟩

theorem simStepGen_eq_model (tau dt : Rat) (s : SimState) (dNew : Rat) :
    simStepGen tau dt s dNew = C16.simStep tau dt s dNew := by
  unfold simStepGen C16.simStep
  try rw [weightGen_eq_model]
  all_goals first | rfl | (congr 1; ring; done) | (simp only [SimState.mk.injEq, true_and]; ring)

/-- `hist_start_ind` -/
def histStartGen (d : DelayProb) : Int := %(histStart)s

theorem histStartGen_eq_model (d : DelayProb) : histStartGen d = d.histStart := by
  unfold histStartGen DelayProb.histStart
  simp only [Int.toNat_natCast]

/-- the incomplete-history test -/
def incompleteGen (d : DelayProb) : Bool :=
  decide (histStartGen d < 0) || ((d.histD.drop (histStartGen d).toNat).any (fun r => r.toRat?.isNone))

theorem incompleteGen_eq_model (d : DelayProb) : incompleteGen d = d.incomplete := by
  unfold incompleteGen DelayProb.incomplete
  rw [histStartGen_eq_model]

/-- the knots after the history has been dropped -/
def outKnotsIncGen (d : DelayProb) : Knots := resKnots %(inc_times)s %(inc_vals)s

theorem outKnotsIncGen_eq_model (d : DelayProb) (hi : d.incomplete = true) : outKnotsIncGen d = d.outKnots := by
  rw [outKnots_incomplete_ref d hi]
  rfl

/-- `x_in` at collocation stamp `k` -/
def yAtGen (d : DelayProb) (k : Nat) : Res := %(yAt)s

theorem yAtGen_eq_model (d : DelayProb) (k : Nat) : yAtGen d k = d.yAt k := by
  rw [yAt_ref]
  unfold yAtGen
  simp only [getD_map_mul]
  by_cases h : d.outCol.sv.times.length = d.ts.length
  · simp only [h, ne_eq, not_true_eq_false, if_false, if_true]
    all_goals first | rfl | (congr 1; ring)
  · have h' : ¬ d.ts.length = d.outCol.sv.times.length := fun e => h e.symm
    simp only [h, h', ne_eq, not_false_eq_true, if_true, if_false]
    all_goals first
      | rfl
      | (simp only [mul_comm, mul_left_comm, mul_assoc])

/-- the appended row at collocation stamp `k` -/
def rowGen (d : DelayProb) (k : Nat) : Res := %(row)s

theorem rowGen_eq_model (d : DelayProb) (k : Nat) (hk : k < d.ts.length) : rowGen d k = d.rows.getD k .raise := by
  rw [(rows_spec d).2 k hk]
  unfold rowGen
  try rw [yAtGen_eq_model]
  all_goals rfl

end RtcVerif.Gen
"""

THEOREMS = ["bufLenGen_eq_model", "weightGen_eq_model", "simStepGen_eq_model", "histStartGen_eq_model",
            "incompleteGen_eq_model", "outKnotsIncGen_eq_model", "yAtGen_eq_model", "rowGen_eq_model"]


def gen_delay_rows(c):
    """(re)generate lean/RtcVerif/Gen/DelayRows.lean; returns the extra obligation spec for c.prove"""
    gdir = os.path.join(LEAN_DIR, "RtcVerif", "Gen")
    os.makedirs(gdir, exist_ok=True)
    path = os.path.join(gdir, "DelayRows.lean")
    what = "delay buffer / delay residuals / delayed-feedback rows"
    try:
        sim = ast.parse(open(os.path.join(REPO, SIM)).read())
        opt = ast.parse(open(os.path.join(REPO, OPT)).read())
        buflen = translate_buflen(sim)
        weight, eqs = translate_simstep(sim)
        rows = translate_rows(opt)
    except TranslationError as e:
        c.broken.append(("translator: " + what, str(e)))
        return []
    except (OSError, SyntaxError) as e:
        c.broken.append(("translator: " + what, "cannot read/parse the source: %s" % e))
        return []
    text = GEN_TEMPLATE % dict(buflen=buflen, weight=weight, head=eqs["head"], tail=eqs["tail"], y=eqs["y"],
                               histStart=rows["histStart"], inc_times=rows["inc_times"], inc_vals=rows["inc_vals"],
                               yAt=rows["yAt"], row=rows["row"])
    old = open(path).read() if os.path.exists(path) else None
    if old != text:
        tmp = path + ".tmp%d" % os.getpid()
        with open(tmp, "w") as f:
            f.write(text)
        os.replace(tmp, path)
    return [("RtcVerif.Gen.DelayRows", "RtcVerif.Gen", THEOREMS)]
