"""
Source-to-Lean translation of the decisive kernels of delayed feedback (second tie for C16, besides
the correspondence check).  On every run of the C16 check the functions are parsed from
`$RTC_REPO/src/rtctools/simulation/simulation_problem.py` and
`$RTC_REPO/src/rtctools/optimization/collocated_integrated_optimization_problem.py`, executed
symbolically against the CLOSED table below and `lean/RtcVerif/Gen/DelayRows.lean` is (re)generated:

  bufLenGen     buffer length in `_create_delay_expression_states`        = C16.bufLen
  simStepGen    the three delay residuals + weight in `initialize`        = C16.simStep  (weightGen = C16.weight)
  histStartGen  `hist_earliest` / `hist_start_ind` (+ "one earlier")      = DelayProb.histStart
  incompleteGen the incomplete-history test                               = DelayProb.incomplete
  outKnotsIncGen  the slices taken when the history is dropped            = DelayProb.outKnots (when incomplete)
  yAtGen        `x_in`: nominal, alias sign, interpolation to the collocation times   = DelayProb.yAt
  rowGen        the appended row `(x_in - x_out_delayed) / nominal`       = the entries of DelayProb.rows

Table "Python construct -> model term" (anything else is REJECTED):

  simulation
    delay_time ; self.get_time_step() / self.__dt          tau ; dt
    int(np.ceil(e))                                          ceilNat e            (rational ceiling as a natural number)
    self.__sym_dict[expression_state].numel()                bufLen tau dt        (size of the expression buffer created above)
    delay_equations.append(U - e1 - e2 ...)                  U := e1 + e2 + ...   (a residual that is driven to zero)
      U = X[i_expr_start]                                    new buffer head      e = delay_argument.expr  ->  dNew
      U = X[i_expr_start + 1 : i_expr_end]                   new buffer tail      e = X_prev[i_expr_start : i_expr_end - 1] -> s.buf.dropLast
      U = X[i_delay_state]                                   new delayed state
      X[i_expr_end - 1] / X_prev[i_expr_end - 1]             last entry of the new / the previous buffer
  optimisation (body of `for i in range(len(delayed_feedback_expressions))`)
    self.alias_relation.canonical_signed(in_variable_name)   (receiving column, sign = sgn d.outNeg)
    self.times(in_canonical) / self.variable_nominal(in_canonical) / self.state_vector(in_canonical, ensemble_member=m)
                                                             outCol.sv.times / .nominal / .xs
    c * v, v * c, v *= c  (v the raw vector)                 the coefficient of the vector is multiplied by c
    if in_sign < 0: v *= in_sign                             coefficient multiplied by sgn d.outNeg (= the sign, ±1)
    np.concatenate([history_times, collocation_times])       d.hts ++ d.ts
    ca.veccat(delayed_feedback_history[:, i], initial_delayed_feedback[i], ca.transpose(discretized_delayed_feedback[i, :]))
                                                             d.histD ++ d.trajD
    np.min(collocation_times - delay)                        d.earliest
    np.searchsorted(T, e)                                    searchLeft T e ;  T[k]  T.getD k 0
    k -= 1 under `if T[k] != e`                              if .. then k - 1 else k
    k < 0 or np.any(np.isnan(delayed_feedback_history[k:, i]))   decide (k < 0) || (d.histD.drop k.toNat).any (not a number)
    V = V[len(history_times):]                               V.drop d.hts.length
    len(collocation_times) != len(in_times) ; interpolate(in_times, v, collocation_times, False, mode(in_canonical))
                                                             d.ts.length ≠ times.length ; interpSym mode (times.zip v) (d.ts.getD k 0)
    interpolate(out_times, out_values, collocation_times - delay, False, mode(in_canonical))
                                                             d.delayedAt k   (interpolation of `outKnots` at t_k - tau_k;
                                                             in the complete case the code keeps knots before the needed
                                                             range, the model drops them: not translated, see C16 report)
    nominal_delayed_feedback[i]                              d.nominal
    g.append((a - b) / n)                                    Res.divBy n (Res.sub a b)

Second generated module, `lean/RtcVerif/Gen/DelayHist.lean` (`gen_delay_hist`): the delayed-feedback block of the
member loop of `transcribe` BEFORE the row loop, and the whole row with the receiving variable given by NAME:

  histTimesGen   `history_times`                                          = DelayProb.hts
  histValsGen    `history_values[:, j]`                                   = histColumn (mode j) (history of j) hts
  histDersGen    `history_derivatives[:, j]`                              = histDerColumn … (on every row that is read)
  cinHistGen / symHistGen   the argument vector of the history call      = symHist d i        (i < len(history_times))
  histDGen       `delayed_feedback_history[:, i]`                         = DelayProb.histD
  outTimesGen / outValuesGen / outKnotsGen   `out_times`, `out_values`    = DelayProb.outKnots (complete and incomplete)
  symTauGen / tauAtGen   `evaluated_delay_durations[i][k]`                = DelayProb.tauAt    (tau over parameters / constant inputs)
  earliestGen    `hist_earliest`                                          = DelayProb.earliest
  symNominalGen / nominalGen   `nominal_delayed_feedback[i]`              = DelayProb.nominal
  yAtNamedGen    `x_in` with `canonical_signed(name)` resolved by lookup  = (d.named aliases colNames name).yAt
  delayRowGen    the whole row                                            = (d.named …).rows[k]

Table (locals are recognised by what they are bound to, not by their names; M = the member loop variable):

  ensemble_aggregate["parameters"][:, M]                     the member's parameters          .par j -> d.mp.pars[j]
  ensemble_store[M]["constant_inputs"]                       the member's constant inputs on the collocation times   d.cinAt j k
  ensemble_aggregate["initial_constant_inputs"][:, M]        … at t0                           d.cinAt j 0
  self.history(M) ; self.constant_inputs(M)                  the member's history / raw constant-input series (d.hists, d.cinRaw)
        (any other index / a name bound outside the member loop is REJECTED: finding F44)
  np.unique(np.hstack((np.array([]), *[h.times for h in H.values()])))     uniqueTimes d.allHistTimes
  T[:-1]                                                     T.dropLast
  np.empty((len T, n)) ; np.zeros((len T, n))                a matrix whose columns are assigned below
  if T.shape[0] > 0: <column fills>                          the fills (for an empty T every column is empty either way)
  for j, var in enumerate(integrated_variables + collocated_variables)    column j of the collocated variables (d.mp.cols)
  for j, var in enumerate(self.dae_variables["constant_inputs"])          constant input j (d.mp.cins)
  try: s = H[var.name()] / except KeyError: V[:, j] = np.nan / else: V[:, j] = self.interpolate(T, s.times, s.values, np.nan, np.nan, self.interpolation_method(name))
        state history (entries may be NaN)                   match history j | none => T.map nan | some ks => T.map (interpNaN (mode j) ks)
        raw constant input                                   T.map (ofOut (interpCore mode series nanFill nanFill ·));
                                                             the KeyError branch must assign NaN (a constant input without series is outside the model)
  ca.repmat(np.nan, 1, V.shape[1])                           [nan]                            (one row, per column)
  if T.shape[0] > 1: D = ca.vertcat(D, np.diff(V, axis=0) / np.diff(T)[:, None])
                                                             if T.length > 1 then D ++ resDivRows (resDiff V_j) (ratDiff T) else D
  for i, time in enumerate(T): delayed_feedback_function.call([P, ca.veccat(ca.transpose(V[i, :]), ca.transpose(D[i, :]), ca.transpose(C[i, :]), time,
        ca.repmat(np.nan, len(self.path_variables)), ca.repmat(np.nan, len(self.__extra_constant_inputs))), ca.repmat(np.nan, len(self.extra_variables))])
                                                             the slots in the order of the function inputs: state j, der j, cin j, time, pathv, (extra)
  H[i, :] = [float(val) for val in res]                      row i of `delayed_feedback_history`
  delayed_feedback_function.call(self.__func_initial_inputs[M], False, True)   d.trajD head (the member's initial inputs)
  np.ones(path_variables_size) (+ the loop writing self.variable_nominal(path variable))   .pathv -> 1 (nominals of path variables are not modelled)
  delayed_feedback_function.call([P, ca.vertcat([self.variable_nominal(var.name()) for var in integrated_variables + collocated_variables],
        np.zeros((initial_derivatives.size1(), 1)), C0, 0.0, PN, initial_extra_constant_inputs), extra_variables])
                                                             state j -> nominal j, der -> 0, cin j -> d.cinAt j 0, time -> 0, pathv -> 1
  list(delayed_feedback_durations) ; L[0] = ca.MX(L[0])      (type plumbing) the durations
  ca.substitute(L, [ca.vertcat(symbolic_parameters)], [ca.vertcat(P)])      .par j -> d.mp.pars[j]
  ca.Function("delay_values", self.dae_variables["time"] + self.dae_variables["constant_inputs"], S).map(len(collocation_times))
  F.call([collocation_times] + [CI[v.name()] for v in self.dae_variables["constant_inputs"]])
                                                             .time -> d.ts[k] (ABSOLUTE time), .cin j -> d.cinAt j k, any other symbol -> raise (free variable)
  np.concatenate([T, collocation_times])                     histTimesGen d ++ d.ts
  ca.veccat(H[:, i], I0[i], ca.transpose(discretized_delayed_feedback[i, :]))   histDGen d ++ d.trajD
  np.min(collocation_times - delay)  (delay = E[i] of the call above)          earliestGen
  the row loop itself                                        `translate_rows` above, with `d.outCol` / `d.outNeg` replaced by the column
                                                             and sign that `canonicalSigned aliases name` yields
  NOT translated: `discretized_delayed_feedback` (the map over the steps: C01/C15), the casadi `interp1d` kernel, and that in the
  complete case the code keeps the knots before `hist_start_ind` (the model drops them).
"""
import ast
import os
from fractions import Fraction

from .common import LEAN_DIR, REPO
from .translate import TranslationError, _find_method
from .translate_c15 import _dump, _lit

SIM = os.path.join("src", "rtctools", "simulation", "simulation_problem.py")
OPT = os.path.join("src", "rtctools", "optimization", "collocated_integrated_optimization_problem.py")
BIN = {ast.Add: "+", ast.Sub: "-", ast.Mult: "*", ast.Div: "/"}


def _is_dt(node):
    return _dump(node) in ("self.get_time_step()", "self.__dt")


# ---------------------------------------------------------------------------------------------
# simulation


def _rat(node, env):
    if isinstance(node, ast.Constant) and isinstance(node.value, (int, float)) and not isinstance(node.value, bool):
        return _lit(node.value)
    if isinstance(node, ast.Name) and node.id in env and env[node.id][0] == "rat":
        return env[node.id][1]
    if _is_dt(node):
        return "dt"
    if isinstance(node, ast.BinOp) and type(node.op) in BIN:
        return "(%s %s %s)" % (_rat(node.left, env), BIN[type(node.op)], _rat(node.right, env))
    raise TranslationError("number not in the table: `%s`" % _dump(node))


def translate_buflen(tree):
    fn = _find_method(tree, "SimulationProblem", "_create_delay_expression_states")
    loop = next((s for s in fn.body if isinstance(s, ast.For)), None)
    if loop is None or not (isinstance(loop.target, ast.Tuple) and len(loop.target.elts) == 2
                            and _dump(loop.iter).endswith("delay_states, self.__delay_times)")):
        raise TranslationError("_create_delay_expression_states: loop over zip(delay states, delay times) not found")
    tau_name = loop.target.elts[1].id
    env = {tau_name: ("rat", "tau")}

    def nat(node):
        if isinstance(node, ast.Constant) and isinstance(node.value, int):
            return "%d" % node.value
        if isinstance(node, ast.Call) and _dump(node.func) == "int" and len(node.args) == 1:
            a = node.args[0]
            if isinstance(a, ast.Call) and _dump(a.func) == "np.ceil" and len(a.args) == 1:
                return "ceilNat %s" % _rat(a.args[0], env)
        raise TranslationError("buffer length not in the table: `%s`" % _dump(node))

    for st in loop.body:
        if isinstance(st, ast.If):
            t = st.test
            if not (isinstance(t, ast.Compare) and len(t.ops) == 1 and isinstance(t.ops[0], ast.Gt)
                    and _dump(t.left) == tau_name and isinstance(t.comparators[0], ast.Constant) and t.comparators[0].value == 0):
                raise TranslationError("buffer length: test is not `<delay time> > 0`: `%s`" % _dump(t))
            if not (len(st.body) == 1 and len(st.orelse) == 1 and all(isinstance(s, ast.Assign) for s in st.body + st.orelse)
                    and _dump(st.body[0].targets[0]) == _dump(st.orelse[0].targets[0])
                    and any(isinstance(n, ast.Name) and n.id == _dump(st.body[0].targets[0]) for s2 in loop.body[loop.body.index(st) + 1:] for n in ast.walk(s2))):
                raise TranslationError("buffer length: both branches must assign the buffer length once: `%s`" % _dump(st, 200))
            return "if tau > 0 then %s else %s" % (nat(st.body[0].value), nat(st.orelse[0].value))
    raise TranslationError("_create_delay_expression_states: buffer length not assigned under `if <delay time> > 0`")


def translate_simstep(tree):
    fn = _find_method(tree, "SimulationProblem", "initialize")
    loop = None
    for st in ast.walk(fn):
        if isinstance(st, ast.For) and isinstance(st.target, ast.Tuple) \
                and len(st.target.elts) == 3 and any("delay_equations.append" in _dump(s, 300) for s in st.body):
            loop = st
    if loop is None:
        raise TranslationError("initialize: the delay-equation loop not found")
    arg_name, tau_name = loop.target.elts[1].id, loop.target.elts[2].id
    env = {tau_name: ("rat", "tau")}
    eqs = {}
    weight = None

    def term(node):
        """a scalar/vector term of a residual -> (kind, lean)"""
        d = _dump(node)
        if d == arg_name + ".expr":
            return "dNew"
        if d == "X[i_expr_end - 1]":
            return "buf'.getLastD 0"
        if d == "X_prev[i_expr_end - 1]":
            return "s.buf.getLastD 0"
        if d == "X_prev[i_expr_start:i_expr_end - 1]":
            return "s.buf.dropLast"
        if isinstance(node, ast.BinOp) and isinstance(node.op, ast.Mult):
            return "%s * %s" % (factor(node.left), factor(node.right))
        raise TranslationError("residual term not in the table: `%s`" % d)

    def factor(node):
        d = _dump(node)
        if d in ("X[i_expr_end - 1]", "X_prev[i_expr_end - 1]"):
            return term(node)
        return _rat(node, env)

    def chain(node):
        if isinstance(node, ast.BinOp) and isinstance(node.op, ast.Sub):
            return chain(node.left) + [node.right]
        return [node]

    for st in loop.body:
        if isinstance(st, ast.Assign) and len(st.targets) == 1:
            t = _dump(st.targets[0])
            v = _dump(st.value)
            if t in ("expression_state",) or t.startswith("(i_") or t.startswith("i_"):
                continue
            if v == "self.__sym_dict[expression_state].numel()":
                env[t] = ("rat", "((C16.bufLen tau dt : Nat) : Rat)")
                continue
            if isinstance(st.targets[0], ast.Name) and weight is None:
                weight = _rat(st.value, env)  # the first number computed here is the interpolation weight
                env[t] = ("rat", "w")
                continue
            raise TranslationError("statement not in the table: `%s`" % _dump(st))
        if isinstance(st, ast.Expr) and isinstance(st.value, ast.Call) and _dump(st.value.func) == "delay_equations.append" \
                and len(st.value.args) == 1:
            parts = chain(st.value.args[0])
            u = _dump(parts[0])
            key = {"X[i_expr_start]": "head", "X[i_expr_start + 1:i_expr_end]": "tail", "X[i_delay_state]": "y"}.get(u)
            if key is None or key in eqs or len(parts) < 2:
                raise TranslationError("residual not in the table: `%s`" % _dump(st))
            eqs[key] = " + ".join(term(p) for p in parts[1:])
            continue
        raise TranslationError("statement not in the table: `%s`" % _dump(st))
    if set(eqs) != {"head", "tail", "y"} or weight is None:
        raise TranslationError("initialize: the three delay residuals and the weight were not all found")
    return weight, eqs


# ---------------------------------------------------------------------------------------------
# optimisation


def translate_rows(tree):
    fn = _find_method(tree, "CollocatedIntegratedOptimizationProblem", "transcribe")
    loop = None
    for st in ast.walk(fn):
        if isinstance(st, ast.For) and _dump(st.iter) == "range(len(delayed_feedback_expressions))":
            loop = st
    if loop is None or not isinstance(loop.target, ast.Name):
        raise TranslationError("transcribe: the delayed-feedback row loop not found")
    i = loop.target.id
    env = {}
    out = {}

    def vec(node):
        """the receiving vector: (coefficient factors, base) """
        if isinstance(node, ast.Name) and node.id in env and env[node.id][0] == "vec":
            return env[node.id][1]
        if isinstance(node, ast.Call) and _dump(node.func) == "self.state_vector":
            kw = {k.arg: _dump(k.value) for k in node.keywords}
            if len(node.args) == 1 and scalar_kind(node.args[0]) == "canonical" and kw == {"ensemble_member": "ensemble_member"}:
                return []
            raise TranslationError("state_vector call not in the table: `%s`" % _dump(node))
        if isinstance(node, ast.BinOp) and isinstance(node.op, ast.Mult):
            for a, b in ((node.left, node.right), (node.right, node.left)):
                try:
                    c = coef(a)
                except TranslationError:
                    continue
                return vec(b) + [c]
        raise TranslationError("receiving vector not in the table: `%s`" % _dump(node))

    def scalar_kind(node):
        return env.get(node.id, (None,))[0] if isinstance(node, ast.Name) else None

    def coef(node):
        if isinstance(node, ast.Name) and node.id in env and env[node.id][0] == "coef":
            return env[node.id][1]
        if isinstance(node, ast.Constant) and isinstance(node.value, (int, float)):
            return _lit(node.value)
        raise TranslationError("coefficient not in the table: `%s`" % _dump(node))

    def cterm(fs):
        return "(" + " * ".join(reversed(fs)) + ")" if fs else "(1 : Rat)"

    def on_canonical(node, method):
        return isinstance(node, ast.Call) and _dump(node.func) == "self." + method and len(node.args) == 1 \
            and not node.keywords and env.get(_dump(node.args[0])) == ("canonical", None)

    def mode_ok(node):
        return env.get(_dump(node)) == ("mode", "in") or on_canonical(node, "interpolation_method")

    def walk(stmts):
        for st in stmts:
            d = _dump(st, 400)
            if isinstance(st, ast.Expr) and isinstance(st.value, ast.Constant):
                continue
            if isinstance(st, ast.Assert):
                continue
            if isinstance(st, ast.Expr) and isinstance(st.value, ast.Call) and _dump(st.value.func).startswith("logger."):
                continue
            if isinstance(st, ast.Assign) and len(st.targets) == 1:
                t, v = st.targets[0], st.value
                tn = _dump(t)
                vd = _dump(v, 400)
                if isinstance(t, ast.Tuple) and len(t.elts) == 2 and all(isinstance(e, ast.Name) for e in t.elts):
                    if not (isinstance(v, ast.Call) and _dump(v.func) == "self.alias_relation.canonical_signed" and len(v.args) == 1
                            and env.get(_dump(v.args[0])) == ("name", None)):
                        raise TranslationError("alias resolution not in the table: `%s`" % d)
                    env[t.elts[0].id] = ("canonical", None)
                    env[t.elts[1].id] = ("coef", "sgn d.outNeg")
                    continue
                if not isinstance(t, ast.Name):
                    raise TranslationError("assignment not in the table: `%s`" % d)
                if vd == "delayed_feedback_states[%s]" % i:
                    env[tn] = ("name", None)
                elif vd in ("delayed_feedback_expressions[%s]" % i,):
                    env[tn] = ("ignored", None)
                elif vd == "evaluated_delay_durations[%s]" % i or (vd.endswith(".toarray().flatten()") and env.get(vd[:-len(".toarray().flatten()")]) == ("delay", None)):
                    env[tn] = ("delay", None)
                elif on_canonical(v, "times"):
                    env[tn] = ("times", "d.outCol.sv.times")
                elif on_canonical(v, "variable_nominal"):
                    env[tn] = ("coef", "d.outCol.sv.nominal")
                elif on_canonical(v, "interpolation_method"):
                    env[tn] = ("mode", "in")
                elif vd == "np.concatenate([history_times, collocation_times])":
                    env[tn] = ("list", "(d.hts ++ d.ts)")
                elif vd == ("ca.veccat(delayed_feedback_history[:, %s], initial_delayed_feedback[%s], "
                            "ca.transpose(discretized_delayed_feedback[%s, :]))" % (i, i, i)):
                    env[tn] = ("vals", "(d.histD ++ d.trajD)")
                elif vd in ["np.min(collocation_times - %s)" % n for n, vv in env.items() if vv[0] == "delay"]:
                    env[tn] = ("rat", "d.earliest")
                elif isinstance(v, ast.Call) and _dump(v.func) == "np.searchsorted" and len(v.args) == 2 \
                        and env.get(_dump(v.args[0]), (None,))[0] == "list" and env.get(_dump(v.args[1]), (None,))[0] == "rat":
                    env[tn] = ("int", "((searchLeft %s %s : Nat) : Int)" % (env[_dump(v.args[0])][1], env[_dump(v.args[1])][1]))
                elif isinstance(v, ast.Subscript) and isinstance(v.slice, ast.Slice) and _dump(v.slice.lower or ast.Constant(0)) == "len(history_times)" \
                        and v.slice.upper is None and env.get(_dump(v.value), (None,))[0] in ("list", "vals"):
                    k, b = env[_dump(v.value)]
                    env[tn] = (k, "(%s.drop d.hts.length)" % b)
                elif vd == "nominal_delayed_feedback[%s]" % i:
                    env[tn] = ("rat", "d.nominal")
                elif isinstance(v, ast.Call) and _dump(v.func) == "interpolate" and len(v.args) == 5:
                    a = [_dump(x) for x in v.args]
                    if scalar_kind(v.args[0]) == "times" and scalar_kind(v.args[1]) == "vec" and a[2] == "collocation_times" \
                            and a[3] == "False" and mode_ok(v.args[4]):
                        env[tn] = ("res", "ofOut (interpSym d.outCol.sv.mode (d.outCol.sv.times.zip (d.outCol.sv.xs.map (%s * ·))) (d.ts.getD k 0))"
                                   % cterm(env[a[1]][1]))
                    elif a[0] == out.get("T") and a[1] == out.get("V") and a[2] in ["collocation_times - %s" % n for n, vv in env.items() if vv[0] == "delay"] \
                            and a[3] == "False" and mode_ok(v.args[4]):
                        env[tn] = ("res", "d.delayedAt k")
                    else:
                        raise TranslationError("interpolate call not in the table: `%s`" % vd)
                else:
                    try:
                        env[tn] = ("vec", vec(v))
                    except TranslationError:
                        if isinstance(v, ast.Name) and scalar_kind(v) == "vec":
                            env[tn] = env[v.id]
                        else:
                            raise TranslationError("assignment not in the table: `%s`" % d)
                continue
            if isinstance(st, ast.AugAssign) and isinstance(st.target, ast.Name):
                tn = st.target.id
                if isinstance(st.op, ast.Mult) and scalar_kind(st.target) == "vec":
                    env[tn] = ("vec", env[tn][1] + [coef(st.value)])
                    continue
                if isinstance(st.op, ast.Sub) and scalar_kind(st.target) == "int" and _dump(st.value) == "1":
                    env[tn] = ("int", "(%s - 1)" % env[tn][1])
                    continue
                raise TranslationError("update not in the table: `%s`" % d)
            if isinstance(st, ast.If):
                t = _dump(st.test, 300)
                tt = st.test
                if isinstance(tt, ast.Compare) and len(tt.ops) == 1 and isinstance(tt.ops[0], ast.Lt) \
                        and env.get(_dump(tt.left)) == ("coef", "sgn d.outNeg") and _dump(tt.comparators[0]) == "0" \
                        and len(st.body) == 1 and not st.orelse and isinstance(st.body[0], ast.AugAssign) \
                        and isinstance(st.body[0].op, ast.Mult) and env.get(_dump(st.body[0].value)) == ("coef", "sgn d.outNeg") \
                        and scalar_kind(st.body[0].target) == "vec":
                    nme = st.body[0].target.id
                    env[nme] = ("vec", env[nme][1] + ["sgn d.outNeg"])
                    continue
                if isinstance(tt, ast.Compare) and len(tt.ops) == 1 and isinstance(tt.ops[0], ast.NotEq) and not st.orelse \
                        and isinstance(tt.left, ast.Subscript) and env.get(_dump(tt.left.value), (None,))[0] == "list" \
                        and env.get(_dump(tt.left.slice), (None,))[0] == "int" and env.get(_dump(tt.comparators[0]), (None,))[0] == "rat":
                    T, K, E = _dump(tt.left.value), _dump(tt.left.slice), _dump(tt.comparators[0])
                    before = env[K][1]
                    walk(st.body)
                    after = env[K][1]
                    env[K] = ("int", "(if %s.getD (%s).toNat 0 ≠ %s then %s else %s)" % (env[T][1], before, env[E][1], after, before))
                    out["histStart"] = env[K][1]
                    out["K"], out["T"] = K, T
                    continue
                if "histStart" in out and t == "%s < 0 or np.any(np.isnan(delayed_feedback_history[%s:, %s]))" % (out["K"], out["K"], i) \
                        and not st.orelse:
                    out["incomplete"] = True
                    e_before = dict(env)
                    walk(st.body)
                    lists = [n for n, v in env.items() if v[0] == "list" and v is not e_before.get(n)]
                    vals = [n for n, v in env.items() if v[0] == "vals" and v is not e_before.get(n)]
                    if lists != [out["T"]] or len(vals) != 1:
                        raise TranslationError("dropping the history must slice the out times and the out values")
                    out["V"] = vals[0]
                    out["inc_times"], out["inc_vals"] = env[lists[0]][1], env[vals[0]][1]
                    # afterwards the knots are `d.outKnots` (complete case: not translated)
                    env[lists[0]], env[vals[0]] = e_before[lists[0]], e_before[vals[0]]
                    continue
                tnames = [n for n, v in env.items() if v[0] == "times"]
                if any(t in ("len(collocation_times) != len(%s)" % n, "len(%s) != len(collocation_times)" % n) for n in tnames):
                    ea = dict(env)
                    walk(st.body)
                    new = [n for n, v in env.items() if v[0] == "res" and n not in ea]
                    if len(new) != 1:
                        raise TranslationError("x_in: one interpolated value expected in the own-grid branch")
                    xin = new[0]
                    xa = env.get(xin)
                    env.clear()
                    env.update(ea)
                    walk(st.orelse)
                    xb = env.get(xin)
                    if not xa or not xb or xa[0] != "res" or xb[0] != "vec":
                        raise TranslationError("x_in: interpolated on an own grid, the vector itself otherwise: `%s`" % d[:200])
                    out["xin"] = xin
                    env[xin] = ("res", "(if d.ts.length ≠ d.outCol.sv.times.length then %s else .num ((d.outCol.sv.xs.map (%s * ·)).getD k 0))"
                                   % (xa[1], cterm(xb[1])))
                    out["yAt"] = env[xin][1]
                    continue
                raise TranslationError("condition not in the table: `%s`" % t)
            if isinstance(st, ast.Expr) and isinstance(st.value, ast.Call) and _dump(st.value.func) == "g.append" and len(st.value.args) == 1:
                e = st.value.args[0]
                if isinstance(e, ast.BinOp) and isinstance(e.op, ast.Div) and isinstance(e.left, ast.BinOp) and isinstance(e.left.op, ast.Sub):
                    a, b, n = _dump(e.left.left), _dump(e.left.right), _dump(e.right)
                    if env.get(a, (None,))[0] == "res" and env.get(b, (None,))[0] == "res" and env.get(n, (None,))[0] == "rat":
                        ra = "(yAtGen d k)" if a == out.get("xin") else env[a][1]
                        rb = "(yAtGen d k)" if b == out.get("xin") else env[b][1]
                        out["row"] = "Res.divBy %s (Res.sub %s (%s))" % (env[n][1], ra, rb)
                        continue
                raise TranslationError("appended row not in the table: `%s`" % d)
            if isinstance(st, ast.Expr) and isinstance(st.value, ast.Call) and _dump(st.value.func) in ("lbg.extend", "ubg.extend"):
                if _dump(st.value.args[0]) != "zeros":
                    raise TranslationError("row bounds are not zeros: `%s`" % d)
                continue
            if isinstance(st, ast.Assign) and _dump(st.targets[0]) == "zeros":
                continue
            raise TranslationError("statement not in the table: `%s`" % d[:160])

    # `zeros = np.zeros(n_collocation_times)` is an Assign handled above only after the generic branch: pre-filter
    body = [s for s in loop.body if not (isinstance(s, ast.Assign) and _dump(s.targets[0]) == "zeros"
                                         and _dump(s.value) == "np.zeros(n_collocation_times)")]
    walk(body)
    for k in ("histStart", "incomplete", "inc_times", "inc_vals", "yAt", "row"):
        if k not in out:
            raise TranslationError("transcribe: `%s` part of the delay rows not found" % k)
    return out


# ---------------------------------------------------------------------------------------------

GEN_TEMPLATE = """import RtcVerif.Proofs.C16Gen
/-!
GENERATED on every run of the C16 check by harness/translate_c16.py from
`SimulationProblem._create_delay_expression_states` / `initialize` (delay residuals) in
/repo/src/rtctools/simulation/simulation_problem.py and the delayed-feedback row loop of
`CollocatedIntegratedOptimizationProblem.transcribe` (table in the header of the translator).
Do not edit.  The theorems tie the source, read this way, to the model the theorems of C16 are about.
-/
set_option linter.unusedVariables false
set_option linter.unusedSimpArgs false
set_option linter.unreachableTactic false
set_option linter.unusedTactic false
namespace RtcVerif.Gen
open RtcVerif RtcVerif.Interp RtcVerif.C15 RtcVerif.C16

/-- number of buffered expression values -/
def bufLenGen (tau dt : Rat) : Nat := %(buflen)s

theorem bufLenGen_eq_model (tau dt : Rat) : bufLenGen tau dt = C16.bufLen tau dt := by
  unfold bufLenGen C16.bufLen
  first | rfl | (split <;> simp_all)

/-- `interpolation_weight` -/
def weightGen (tau dt : Rat) : Rat := %(weight)s

theorem weightGen_eq_model (tau dt : Rat) : weightGen tau dt = C16.weight tau dt := by
  unfold weightGen C16.weight
  first | rfl | ring

/-- the state that zeroes the three delay residuals of one step -/
def simStepGen (tau dt : Rat) (s : SimState) (dNew : Rat) : SimState :=
  let w := weightGen tau dt
  let buf' : List Rat := (%(head)s) :: (%(tail)s)
  ⟨buf', %(y)s⟩

theorem simStepGen_eq_model (tau dt : Rat) (s : SimState) (dNew : Rat) :
    simStepGen tau dt s dNew = C16.simStep tau dt s dNew := by
  unfold simStepGen C16.simStep
  try rw [weightGen_eq_model]
  all_goals first | rfl | (congr 1; ring; done) | (simp only [SimState.mk.injEq, true_and]; ring)

/-- `hist_start_ind` -/
def histStartGen (d : DelayProb) : Int := %(histStart)s

theorem histStartGen_eq_model (d : DelayProb) : histStartGen d = d.histStart := by
  unfold histStartGen DelayProb.histStart
  simp only [Int.toNat_natCast]

/-- the incomplete-history test -/
def incompleteGen (d : DelayProb) : Bool :=
  decide (histStartGen d < 0) || ((d.histD.drop (histStartGen d).toNat).any (fun r => r.toRat?.isNone))

theorem incompleteGen_eq_model (d : DelayProb) : incompleteGen d = d.incomplete := by
  unfold incompleteGen DelayProb.incomplete
  rw [histStartGen_eq_model]

/-- the knots after the history has been dropped -/
def outKnotsIncGen (d : DelayProb) : Knots := resKnots %(inc_times)s %(inc_vals)s

theorem outKnotsIncGen_eq_model (d : DelayProb) (hi : d.incomplete = true) : outKnotsIncGen d = d.outKnots := by
  rw [outKnots_incomplete_ref d hi]
  rfl

/-- `x_in` at collocation stamp `k` -/
def yAtGen (d : DelayProb) (k : Nat) : Res := %(yAt)s

theorem yAtGen_eq_model (d : DelayProb) (k : Nat) : yAtGen d k = d.yAt k := by
  rw [yAt_ref]
  unfold yAtGen
  simp only [getD_map_mul]
  by_cases h : d.outCol.sv.times.length = d.ts.length
  · simp only [h, ne_eq, not_true_eq_false, if_false, if_true]
    all_goals first | rfl | (congr 1; ring)
  · have h' : ¬ d.ts.length = d.outCol.sv.times.length := fun e => h e.symm
    simp only [h, h', ne_eq, not_false_eq_true, if_true, if_false]
    all_goals first
      | rfl
      | (simp only [mul_comm, mul_left_comm, mul_assoc])

/-- the appended row at collocation stamp `k` -/
def rowGen (d : DelayProb) (k : Nat) : Res := %(row)s

theorem rowGen_eq_model (d : DelayProb) (k : Nat) (hk : k < d.ts.length) : rowGen d k = d.rows.getD k .raise := by
  rw [(rows_spec d).2 k hk]
  unfold rowGen
  try rw [yAtGen_eq_model]
  all_goals rfl

end RtcVerif.Gen
"""

THEOREMS = ["bufLenGen_eq_model", "weightGen_eq_model", "simStepGen_eq_model", "histStartGen_eq_model",
            "incompleteGen_eq_model", "outKnotsIncGen_eq_model", "yAtGen_eq_model", "rowGen_eq_model"]


def gen_delay_rows(c):
    """(re)generate lean/RtcVerif/Gen/DelayRows.lean; returns the extra obligation spec for c.prove"""
    gdir = os.path.join(LEAN_DIR, "RtcVerif", "Gen")
    os.makedirs(gdir, exist_ok=True)
    path = os.path.join(gdir, "DelayRows.lean")
    what = "delay buffer / delay residuals / delayed-feedback rows"
    try:
        sim = ast.parse(open(os.path.join(REPO, SIM)).read())
        opt = ast.parse(open(os.path.join(REPO, OPT)).read())
        buflen = translate_buflen(sim)
        weight, eqs = translate_simstep(sim)
        rows = translate_rows(opt)
    except TranslationError as e:
        c.broken.append(("translator: " + what, str(e)))
        return []
    except (OSError, SyntaxError) as e:
        c.broken.append(("translator: " + what, "cannot read/parse the source: %s" % e))
        return []
    text = GEN_TEMPLATE % dict(buflen=buflen, weight=weight, head=eqs["head"], tail=eqs["tail"], y=eqs["y"],
                               histStart=rows["histStart"], inc_times=rows["inc_times"], inc_vals=rows["inc_vals"],
                               yAt=rows["yAt"], row=rows["row"])
    old = open(path).read() if os.path.exists(path) else None
    if old != text:
        tmp = path + ".tmp%d" % os.getpid()
        with open(tmp, "w") as f:
            f.write(text)
        os.replace(tmp, path)
    return [("RtcVerif.Gen.DelayRows", "RtcVerif.Gen", THEOREMS)]


# ---------------------------------------------------------------------------------------------
# history assembly / delay durations / row scaling / named receiving variable  (Gen/DelayHist.lean)

import copy
import re


class _Ren(ast.NodeTransformer):
    def __init__(self, env):
        self.env = env

    def visit_Name(self, node):
        if node.id in self.env:
            return ast.copy_location(ast.Name(id="«%s»" % self.env[node.id], ctx=node.ctx), node)
        return node


def _canon(node, env):
    """source text of `node` with every local of `env` replaced by its tag"""
    return ast.unparse(_Ren(env).visit(copy.deepcopy(node)))


def _stores(node, name):
    return sum(1 for n in ast.walk(node) if isinstance(n, ast.Name) and n.id == name and isinstance(n.ctx, (ast.Store, ast.Del)))


COLS = "integrated_variables + collocated_variables"
CINS = "self.dae_variables['constant_inputs']"


def translate_hist(tree):
    fn = _find_method(tree, "CollocatedIntegratedOptimizationProblem", "transcribe")
    loop = None
    for st in ast.walk(fn):
        if isinstance(st, ast.For) and _dump(st.iter) == "range(self.ensemble_size)" and isinstance(st.target, ast.Name) \
                and any(isinstance(s, ast.Assign) and _dump(s.value).startswith("np.unique(np.hstack(") for s in st.body):
            loop = st
    if loop is None:
        raise TranslationError("transcribe: the member loop holding the delayed-feedback history block not found")
    M = loop.target.id
    env = {M: "M"}
    out = {}
    start = next(k for k, s in enumerate(loop.body) if isinstance(s, ast.Assign) and _dump(s.value).startswith("np.unique(np.hstack("))

    # -- the member's data: bound once, at the top level of the member loop, to the loop variable
    header = {
        "ensemble_aggregate['parameters'][:, «M»]": "P",
        "ensemble_store[«M»]['constant_inputs']": "CI",
        "ensemble_aggregate['initial_constant_inputs'][:, «M»]": "C0",
        "self.history(«M»)": "H",
    }
    for st in loop.body[:start]:
        if isinstance(st, ast.Assign) and len(st.targets) == 1 and isinstance(st.targets[0], ast.Name):
            tag = header.get(_canon(st.value, env))
            if tag:
                nm = st.targets[0].id
                if _stores(loop, nm) != 1:
                    raise TranslationError("`%s` (the member's data) is bound more than once in the member loop" % nm)
                env[nm] = tag
    for tag in header.values():
        if tag not in env.values():
            raise TranslationError("member loop: no binding of the member's own data `%s` (%s)" % (
                tag, [k for k, v in header.items() if v == tag][0]))

    def bind(target, tag):
        if not isinstance(target, ast.Name):
            raise TranslationError("assignment target not in the table: `%s`" % _dump(target))
        env[target.id] = tag

    def tagof(node):
        return env.get(node.id) if isinstance(node, ast.Name) else None

    def column_fill(st, T, mat, rows_of, kind):
        """for j, var in enumerate(<rows_of>): try/except KeyError/else  -> the two branches"""
        if not (isinstance(st, ast.For) and isinstance(st.target, ast.Tuple) and len(st.target.elts) == 2
                and _canon(st.iter, env) == "enumerate(%s)" % rows_of and not st.orelse):
            raise TranslationError("%s: column loop not in the table: `%s`" % (kind, _dump(st)))
        e2 = dict(env)
        e2[st.target.elts[0].id] = "J"
        e2[st.target.elts[1].id] = "VAR"
        body = list(st.body)
        if len(body) == 2 and isinstance(body[0], ast.Assign) and _canon(body[0].value, e2) == "«VAR».name()":
            e2[body[0].targets[0].id] = "VN"
            body = body[1:]
        name_txt = "«VN»" if "VN" in e2.values() else "«VAR».name()"
        if not (len(body) == 1 and isinstance(body[0], ast.Try) and len(body[0].handlers) == 1 and not body[0].finalbody
                and _dump(body[0].handlers[0].type) == "KeyError"):
            raise TranslationError("%s: try / except KeyError / else expected: `%s`" % (kind, _dump(st, 300)))
        tr = body[0]
        src = "H" if kind == "state history" else "RAW"
        if not (len(tr.body) == 1 and isinstance(tr.body[0], ast.Assign)
                and _canon(tr.body[0].value, e2) == "«%s»[%s]" % (src, name_txt)):
            raise TranslationError("%s: the series must be looked up as <the member's %s>[name]: `%s`" % (
                kind, "history" if src == "H" else "constant inputs", _canon(tr.body[0], e2)))
        e2[tr.body[0].targets[0].id] = "S"
        hb = tr.handlers[0].body
        if not (len(hb) == 1 and _canon(hb[0], e2) == "«%s»[:, «J»] = np.nan" % mat):
            raise TranslationError("%s: a missing series must give a NaN column: `%s`" % (kind, _canon(hb[0], e2)))
        ob = list(tr.orelse)
        mode_txt = "self.interpolation_method(%s)" % name_txt
        if len(ob) == 2 and isinstance(ob[0], ast.Assign) and _canon(ob[0].value, e2) == mode_txt:
            e2[ob[0].targets[0].id] = "IM"
            mode_txt = "«IM»"
            ob = ob[1:]
        want = "«%s»[:, «J»] = self.interpolate(«T», «S».times, «S».values, np.nan, np.nan, %s)" % (mat, mode_txt)
        if not (len(ob) == 1 and _canon(ob[0], e2) == want):
            raise TranslationError("%s: column fill not in the table: `%s`" % (kind, _canon(ob[0], e2) if ob else "<nothing>"))

    def veccat_slots(call, e2, fname):
        if not (isinstance(call, ast.Call) and _dump(call.func) == fname):
            raise TranslationError("argument vector: `%s(...)` expected: `%s`" % (fname, _dump(call)))
        return [_canon(a, e2) for a in call.args]

    def walk(stmts):
        for st in stmts:
            if isinstance(st, ast.Expr) and isinstance(st.value, ast.Constant):
                continue
            c = _canon(st, env)
            if isinstance(st, ast.Assign) and len(st.targets) == 1:
                t, v = st.targets[0], st.value
                cv = _canon(v, env)
                m = re.fullmatch(r"np\.unique\(np\.hstack\(\(np\.array\(\[\]\), \*\[(\w+)\.times for (\w+) in «H»\.values\(\)\]\)\)\)", cv)
                if m and m.group(1) == m.group(2):
                    bind(t, "U")
                    out["histTimes"] = "uniqueTimes d.allHistTimes"
                    continue
                if cv == "«U»[:-1]" and tagof(t) == "U":
                    bind(t, "T")
                    out["histTimes"] = "(%s).dropLast" % out["histTimes"]
                    continue
                if cv == "np.empty((«T».shape[0], len(integrated_variables) + len(collocated_variables)))":
                    bind(t, "V0")
                    continue
                if cv == "np.empty((«T».shape[0], len(%s)))" % CINS:
                    bind(t, "CV0")
                    continue
                if cv in ("ca.repmat(np.nan, 1, «V».shape[1])", "ca.repmat(np.nan, 1, «V0».shape[1])"):
                    bind(t, "D0")
                    out["ders0"] = "[Res.nan]"
                    continue
                if cv == "self.constant_inputs(«M»)":
                    bind(t, "RAW")
                    continue
                if cv == "np.zeros((«T».shape[0], len(delayed_feedback_expressions)))":
                    bind(t, "DH0")
                    continue
                if cv == "delayed_feedback_function.call(self.__func_initial_inputs[«M»], False, True)":
                    bind(t, "I0")
                    continue
                if cv == "np.ones(path_variables_size)":
                    bind(t, "PN")
                    continue
                if cv == "0" and isinstance(t, ast.Name):
                    bind(t, "OFF")
                    continue
                if isinstance(v, ast.Call) and _dump(v.func) == "delayed_feedback_function.call" and len(v.args) == 1 \
                        and isinstance(v.args[0], ast.List) and len(v.args[0].elts) == 3:
                    a0, a1, a2 = v.args[0].elts
                    if _canon(a0, env) != "«P»":
                        raise TranslationError("row scaling: the parameters are not the member's: `%s`" % _canon(a0, env))
                    sl = veccat_slots(a1, env, "ca.vertcat")
                    want = ["[self.variable_nominal(var.name()) for var in %s]" % COLS, "np.zeros((initial_derivatives.size1(), 1))",
                            "«C0»", "0.0", "«PN»", "initial_extra_constant_inputs"]
                    sl[0] = re.sub(r"\b(\w+)\.name\(\)\) for \1 in", "var.name()) for var in", sl[0])
                    if sl != want or _canon(a2, env) != "extra_variables":
                        raise TranslationError("row scaling: argument vector not in the table: `%s`" % sl)
                    bind(t, "NDF")
                    out["symNominal"] = True
                    continue
                if cv == "list(delayed_feedback_durations)":
                    bind(t, "L")
                    continue
                if isinstance(t, ast.Subscript) and c == "«L»[0] = ca.MX(«L»[0])":
                    continue
                if cv == "ca.substitute(«L», [ca.vertcat(symbolic_parameters)], [ca.vertcat(«P»)])":
                    bind(t, "SUB")
                    continue
                if cv == "ca.Function('delay_values', self.dae_variables['time'] + %s, «SUB»).map(len(collocation_times))" % CINS:
                    bind(t, "F")
                    continue
                m = re.fullmatch(r"«F»\.call\(\[collocation_times\] \+ \[«CI»\[(\w+)\.name\(\)\] for (\w+) in %s\]\)" % re.escape(CINS), cv)
                if m and m.group(1) == m.group(2):
                    bind(t, "E")
                    out["symTau"] = True
                    continue
                raise TranslationError("assignment not in the table: `%s`" % c[:200])
            if isinstance(st, ast.If):
                ct = _canon(st.test, env)
                if ct == "«T».shape[0] > 0" and not st.orelse and len(st.body) >= 1:
                    body = list(st.body)
                    if isinstance(body[0], ast.Assign):
                        walk(body[:1])
                        body = body[1:]
                    if len(body) != 1:
                        raise TranslationError("column fills: one loop expected under `len(history times) > 0`")
                    it = _canon(body[0].iter, env) if isinstance(body[0], ast.For) else ""
                    if it == "enumerate(%s)" % COLS and "V0" in env.values():
                        column_fill(body[0], "T", "V0", COLS, "state history")
                        for k in [k for k, v in env.items() if v == "V0"]:
                            env[k] = "V"
                        out["vals_none"] = "(histTimesGen d).map (fun _ => Res.nan)"
                        out["vals_some"] = "(histTimesGen d).map (fun t => interpNaN (d.colMode j) ks t)"
                    elif it == "enumerate(%s)" % CINS and "CV0" in env.values() and "RAW" in env.values():
                        column_fill(body[0], "T", "CV0", CINS, "constant-input history")
                        for k in [k for k, v in env.items() if v == "CV0"]:
                            env[k] = "CV"
                        out["cins"] = "(histTimesGen d).map (fun t => ofOut (interpCore (d.cinRaw j).mode (d.cinRaw j).series nanFill nanFill t))"
                    else:
                        raise TranslationError("column fills not in the table: `%s`" % c[:200])
                    continue
                if ct == "«T».shape[0] > 1" and not st.orelse and len(st.body) == 1 and "D0" in env.values() \
                        and _canon(st.body[0], env) == "«D0» = ca.vertcat(«D0», np.diff(«V», axis=0) / np.diff(«T»)[:, None])":
                    for k in [k for k, v in env.items() if v == "D0"]:
                        env[k] = "D"
                    out["ders"] = ("if (histTimesGen d).length > 1 then %s ++ resDivRows (resDiff (histValsGen d j)) (ratDiff (histTimesGen d)) else %s"
                                   % (out["ders0"], out["ders0"]))
                    continue
                if ct == "len(delayed_feedback_expressions) > 0" and not st.orelse:
                    walk(st.body)
                    continue
                if ct == "delayed_feedback_expressions" and not st.orelse:
                    walk(st.body)
                    continue
                raise TranslationError("condition not in the table: `%s`" % ct[:200])
            if isinstance(st, ast.For):
                it = _canon(st.iter, env)
                if it == "enumerate(«T»)" and isinstance(st.target, ast.Tuple) and len(st.target.elts) == 2 and len(st.body) == 2 \
                        and "DH0" in env.values():
                    e2 = dict(env)
                    e2[st.target.elts[0].id] = "I"
                    e2[st.target.elts[1].id] = "TIME"
                    a, b = st.body
                    if not (isinstance(a, ast.Assign) and isinstance(a.value, ast.Call) and _dump(a.value.func) == "delayed_feedback_function.call"
                            and len(a.value.args) == 1 and isinstance(a.value.args[0], ast.List) and len(a.value.args[0].elts) == 3):
                        raise TranslationError("history call not in the table: `%s`" % _canon(a, e2)[:200])
                    a0, a1, a2 = a.value.args[0].elts
                    if _canon(a0, e2) != "«P»":
                        raise TranslationError("history call: the parameters are not the member's: `%s`" % _canon(a0, e2))
                    sl = veccat_slots(a1, e2, "ca.veccat")
                    terms = {"ca.transpose(«V»[«I», :])": "(histValsGen d j).getD i .nan",
                             "ca.transpose(«D»[«I», :])": "(histDersGen d j).getD i .nan",
                             "ca.transpose(«CV»[«I», :])": "(cinHistGen d j).getD i .nan",
                             "«TIME»": ".num ((histTimesGen d).getD i 0)",
                             "ca.repmat(np.nan, len(self.path_variables))": ".nan",
                             "ca.repmat(np.nan, len(self.__extra_constant_inputs))": None}
                    if len(sl) != 6 or any(x not in terms for x in sl) or sl[5] != "ca.repmat(np.nan, len(self.__extra_constant_inputs))" \
                            or _canon(a2, e2) != "ca.repmat(np.nan, len(self.extra_variables))":
                        raise TranslationError("history call: argument vector not in the table: `%s`" % sl)
                    for key, x in zip(("h_state", "h_der", "h_cin", "h_time", "h_pathv"), sl[:5]):
                        out[key] = terms[x]
                    e2[a.targets[0].id] = "RES"
                    cb = _canon(b, e2)
                    if not re.fullmatch(r"«DH0»\[«I», :\] = \[float\((\w+)\) for \1 in «RES»\]", cb):
                        raise TranslationError("history row not stored as computed: `%s`" % cb)
                    for k in [k for k, v in env.items() if v == "DH0"]:
                        env[k] = "DH"
                    continue
                if it == "self.__path_variable_names" and "PN" in env.values() and len(st.body) == 3:
                    e2 = dict(env)
                    e2[st.target.id] = "PV"
                    e2[st.body[0].targets[0].id] = "SZ"
                    got = [_canon(x, e2) for x in st.body]
                    if got != ["«SZ» = self.__variable_sizes[«PV»]", "«PN»[«OFF»:«OFF» + «SZ»] = self.variable_nominal(«PV»)", "«OFF» += «SZ»"]:
                        raise TranslationError("path-variable nominals not in the table: `%s`" % got)
                    continue
                if it == "range(len(delayed_feedback_expressions))":
                    rows_loop(st)
                    continue
                raise TranslationError("loop not in the table: `%s`" % c[:160])
            raise TranslationError("statement not in the table: `%s`" % c[:160])

    def rows_loop(loop2):
        """the pieces of the row loop that refer to the block above (the loop itself: translate_rows)"""
        e2 = dict(env)
        e2[loop2.target.id] = "I"
        found = set()
        for st in ast.walk(loop2):
            if isinstance(st, ast.Assign) and len(st.targets) == 1 and isinstance(st.targets[0], ast.Name):
                cv = _canon(st.value, e2)
                if cv == "«E»[«I»]":
                    e2[st.targets[0].id] = "DELAY"
                    found.add("delay")
                elif cv == "«DELAY».toarray().flatten()":
                    e2[st.targets[0].id] = "DELAY"
                elif cv == "np.concatenate([«T», collocation_times])":
                    out["outTimes"] = "histTimesGen d ++ d.ts"
                elif cv == "ca.veccat(«DH»[:, «I»], «I0»[«I»], ca.transpose(discretized_delayed_feedback[«I», :]))":
                    out["outValues"] = "histDGen d ++ d.trajD"
                elif cv == "np.min(collocation_times - «DELAY»)":
                    out["earliest"] = "minList ((List.range d.ts.length).map (fun k => d.ts.getD k 0 - resRat (tauAtGen d k)))"
                elif cv == "«NDF»[«I»]":
                    out["nominal"] = "resRat (d.expr.eval (symNominalGen d))"
                elif cv.startswith("np.concatenate(") or cv.startswith("ca.veccat(") or cv.startswith("np.min("):
                    raise TranslationError("row loop: not in the table: `%s`" % cv[:200])
        if "delay" not in found:
            raise TranslationError("row loop: the delay is not the evaluated duration of this feedback")

    walk(loop.body[start:start + 1])
    k = start + 1
    # the block ends with the statement holding the row loop
    while k < len(loop.body):
        st = loop.body[k]
        walk([st])
        k += 1
        if any(isinstance(n, ast.For) and _dump(n.iter) == "range(len(delayed_feedback_expressions))" for n in ast.walk(st)):
            break
    need = ["histTimes", "vals_none", "vals_some", "ders", "cins", "h_state", "h_der", "h_cin", "h_time", "h_pathv",
            "symNominal", "symTau", "outTimes", "outValues", "earliest", "nominal"]
    for key in need:
        if key not in out:
            raise TranslationError("transcribe: `%s` part of the delayed-feedback block not found" % key)
    if not out["histTimes"].endswith(".dropLast"):
        raise TranslationError("history times: the last stamp (t0) is not dropped")
    return out


HIST_TEMPLATE = """import RtcVerif.Proofs.C16Hist
/-!
GENERATED on every run of the C16 check by harness/translate_c16.py (`gen_delay_hist`) from the
delayed-feedback block of `CollocatedIntegratedOptimizationProblem.transcribe` in
/repo/src/rtctools/optimization/collocated_integrated_optimization_problem.py: the history assembly of
the delayed expression, the delay-duration resolution, the row scaling and the alias resolution of the
receiving variable (table in the header of the translator).
Do not edit.  The theorems tie the source, read this way, to the model the theorems of C16 are about.
-/
set_option linter.unusedVariables false
set_option linter.unusedSimpArgs false
set_option linter.unreachableTactic false
set_option linter.unusedTactic false
namespace RtcVerif.Gen
open RtcVerif RtcVerif.Interp RtcVerif.C15 RtcVerif.C16

/-- `history_times` -/
def histTimesGen (d : DelayProb) : List Rat := %(histTimes)s

theorem histTimesGen_eq_model (d : DelayProb) : histTimesGen d = d.hts := by
  unfold histTimesGen DelayProb.hts historyTimes
  rfl

/-- `history_values[:, j]` -/
def histValsGen (d : DelayProb) (j : Nat) : List Res :=
  match d.hists.getD j none with
  | none => %(vals_none)s
  | some ks => %(vals_some)s

theorem histValsGen_eq_model (d : DelayProb) (j : Nat) :
    histValsGen d j = histColumn (d.colMode j) (d.hists.getD j none) d.hts := by
  unfold histValsGen histColumn
  rw [histTimesGen_eq_model]
  cases d.hists.getD j none <;> rfl

/-- `history_derivatives[:, j]` -/
def histDersGen (d : DelayProb) (j : Nat) : List Res :=
  %(ders)s

/-- `constant_input_values[:, j]` -/
def cinHistGen (d : DelayProb) (j : Nat) : List Res :=
  %(cins)s

/-- the inputs of the delayed-feedback function on history row `i` -/
def symHistGen (d : DelayProb) (i : Nat) : Sym → Res
  | .state j => %(h_state)s
  | .der j => %(h_der)s
  | .cin j => %(h_cin)s
  | .time => %(h_time)s
  | .pathv _ => %(h_pathv)s
  | .par j => .num (d.mp.pars.getD j 0)

theorem symHistGen_eq_model (d : DelayProb) (i : Nat) (hi : i < d.hts.length) (s : Sym) :
    symHistGen d i s = symHist d i s := by
  cases s with
  | state j => simp only [symHistGen, symHist, histValsGen_eq_model]; rfl
  | der j =>
    simp only [symHistGen, symHist]
    unfold histDersGen
    rw [histValsGen_eq_model, histTimesGen_eq_model]
    exact histDerRef_getD _ _ (histColumn_length _ _ _) i
  | cin j =>
    simp only [symHistGen, symHist]
    unfold cinHistGen
    rw [histTimesGen_eq_model, getD_map_lt _ _ i 0 _ hi]
    rfl
  | time => simp only [symHistGen, symHist, histTimesGen_eq_model]
  | pathv j => rfl
  | par j => rfl

/-- `delayed_feedback_history[:, i]`: the delayed expression on every history row -/
def histDGen (d : DelayProb) : List Res :=
  (List.range (histTimesGen d).length).map (fun i => d.expr.eval (symHistGen d i))

theorem histDGen_eq_model (d : DelayProb) : histDGen d = d.histD := by
  unfold histDGen DelayProb.histD
  rw [histTimesGen_eq_model]
  apply List.map_congr_left
  intro i hi
  have hi' : i < d.hts.length := List.mem_range.1 hi
  exact congrArg _ (funext (symHistGen_eq_model d i hi'))

/-- `out_times` -/
def outTimesGen (d : DelayProb) : List Rat := %(outTimes)s

/-- `out_values` -/
def outValuesGen (d : DelayProb) : List Res := %(outValues)s

/-- the knots the delayed value is interpolated from: after an incomplete history has been sliced
    off (code), else from `hist_start_ind` on (the model's reading of the complete case) -/
def outKnotsGen (d : DelayProb) : Knots :=
  if d.incomplete then resKnots ((outTimesGen d).drop (histTimesGen d).length) ((outValuesGen d).drop (histTimesGen d).length)
  else resKnots ((outTimesGen d).drop d.histStart.toNat) ((outValuesGen d).drop d.histStart.toNat)

theorem outKnotsGen_eq_model (d : DelayProb) : outKnotsGen d = d.outKnots := by
  unfold outKnotsGen outTimesGen outValuesGen
  rw [histDGen_eq_model, histTimesGen_eq_model]
  by_cases hi : d.incomplete = true
  · rw [if_pos hi, outKnots_incomplete_ref d hi]
  · have hf : d.incomplete = false := by simpa using hi
    rw [if_neg hi, (outKnots_complete d hf).1]

/-- the inputs of the mapped delay-duration function at collocation stamp `k` -/
def symTauGen (d : DelayProb) (k : Nat) : Sym → Res
  | .par j => .num (d.mp.pars.getD j 0)
  | .cin j => d.cinAt j k
  | .time => .num (d.ts.getD k 0)
  | _ => .raise

/-- `evaluated_delay_durations[i][k]` -/
def tauAtGen (d : DelayProb) (k : Nat) : Res := d.tau.eval (symTauGen d k)

theorem tauAtGen_eq_model (d : DelayProb) (k : Nat)
    (h : ∀ tm ∈ d.tau.terms, ∀ s ∈ tm.2, tauSymOK s = true) : tauAtGen d k = d.tauAt k := by
  unfold tauAtGen DelayProb.tauAt
  apply Expr.eval_congr
  intro tm htm s hs
  have := h tm htm s hs
  cases s <;> first | rfl | (simp [tauSymOK] at this)

/-- `hist_earliest` -/
def earliestGen (d : DelayProb) : Rat :=
  %(earliest)s

theorem earliestGen_eq_model (d : DelayProb)
    (h : ∀ tm ∈ d.tau.terms, ∀ s ∈ tm.2, tauSymOK s = true) : earliestGen d = d.earliest := by
  unfold earliestGen DelayProb.earliest
  congr 1
  apply List.map_congr_left
  intro k _
  rw [tauAtGen_eq_model d k h]

/-- the inputs of `nominal_delayed_feedback` -/
def symNominalGen (d : DelayProb) : Sym → Res
  | .state j => .num (d.colNominal j)
  | .der _ => .num 0
  | .cin j => d.cinAt j 0
  | .time => .num 0
  | .pathv _ => .num 1
  | .par j => .num (d.mp.pars.getD j 0)

/-- `nominal_delayed_feedback[i]` -/
def nominalGen (d : DelayProb) : Rat := %(nominal)s

theorem nominalGen_eq_model (d : DelayProb) : nominalGen d = d.nominal := by
  have hs : symNominalGen d = symNominal d := by
    funext s
    cases s <;> first | rfl | (simp only [symNominalGen, symNominal, DelayProb.colNominal, DelayProb.cinAt]; try ring_nf)
  unfold nominalGen DelayProb.nominal
  rw [hs]

/-- the receiving variable, named: `in_nominal * state_vector(in_canonical)` times the alias sign,
    on the collocation times -/
def yAtNamedGen (d : DelayProb) (aliases : List (String × (String × Bool))) (colNames : List String)
    (name : String) (k : Nat) : Res :=
  let cs := canonicalSigned aliases name
  let col := d.mp.cols.getD (colNames.idxOf cs.1) ⟨⟨0, [], [], 0, none, none⟩, 0⟩
  %(yAtNamed)s

theorem yAtNamedGen_eq_model (d : DelayProb) (aliases : List (String × (String × Bool))) (colNames : List String)
    (name : String) (k : Nat) :
    yAtNamedGen d aliases colNames name k = (d.named aliases colNames name).yAt k := by
  rw [yAt_ref]
  unfold yAtNamedGen
  simp only [getD_map_mul]
  show (if (d.named aliases colNames name).ts.length ≠ (d.named aliases colNames name).outCol.sv.times.length then _ else _) = _
  by_cases h : (d.named aliases colNames name).outCol.sv.times.length = (d.named aliases colNames name).ts.length
  · simp only [h, ne_eq, not_true_eq_false, if_false, if_true]
    all_goals first | rfl | (congr 1; ring)
  · have h' : ¬ (d.named aliases colNames name).ts.length = (d.named aliases colNames name).outCol.sv.times.length := fun e => h e.symm
    simp only [h, h', ne_eq, not_false_eq_true, if_true, if_false]
    all_goals first
      | rfl
      | (simp only [mul_comm, mul_left_comm, mul_assoc]; rfl)

/-- the whole delay row at collocation stamp `k`, the receiving variable given by name -/
def delayRowGen (d : DelayProb) (aliases : List (String × (String × Bool))) (colNames : List String)
    (name : String) (k : Nat) : Res :=
  %(delayRow)s

theorem delayRowGen_eq_model (d : DelayProb) (aliases : List (String × (String × Bool))) (colNames : List String)
    (name : String) (k : Nat) (hk : k < d.ts.length)
    (h : ∀ tm ∈ d.tau.terms, ∀ s ∈ tm.2, tauSymOK s = true) :
    delayRowGen d aliases colNames name k = (d.named aliases colNames name).rows.getD k .raise := by
  rw [(rows_spec (d.named aliases colNames name)).2 k hk]
  unfold delayRowGen
  rw [yAtNamedGen_eq_model, nominalGen_eq_model, outKnotsGen_eq_model, tauAtGen_eq_model d k h]
  all_goals rfl

end RtcVerif.Gen
"""

HIST_THEOREMS = ["histTimesGen_eq_model", "histValsGen_eq_model", "symHistGen_eq_model", "histDGen_eq_model",
                 "outKnotsGen_eq_model", "tauAtGen_eq_model", "earliestGen_eq_model", "nominalGen_eq_model",
                 "yAtNamedGen_eq_model", "delayRowGen_eq_model"]


def gen_delay_hist(c):
    """(re)generate lean/RtcVerif/Gen/DelayHist.lean; returns the extra obligation spec for c.prove"""
    gdir = os.path.join(LEAN_DIR, "RtcVerif", "Gen")
    os.makedirs(gdir, exist_ok=True)
    path = os.path.join(gdir, "DelayHist.lean")
    what = "delayed-feedback history assembly / delay durations / row scaling / named receiving variable"
    try:
        if HIST_TEMPLATE is None:
            raise TranslationError("template harness/c16_delayhist.lean.tmpl is missing")
        opt = ast.parse(open(os.path.join(REPO, OPT)).read())
        h = translate_hist(opt)
        rows = translate_rows(opt)
    except TranslationError as e:
        c.broken.append(("translator: " + what, str(e)))
        return []
    except (OSError, SyntaxError) as e:
        c.broken.append(("translator: " + what, "cannot read/parse the source: %s" % e))
        return []
    yat = rows["yAt"].replace("d.outCol", "col").replace("d.outNeg", "cs.2")
    delayed = "(ofOut (interpSym (d.named aliases colNames name).outMode (outKnotsGen d) (d.ts.getD k 0 - resRat (tauAtGen d k))))"
    row = rows["row"].replace("d.nominal", "(nominalGen d)").replace("(yAtGen d k)", "(yAtNamedGen d aliases colNames name k)") \
        .replace("(d.delayedAt k)", delayed)
    text = HIST_TEMPLATE
    for key, val in dict(h, yAtNamed=yat, delayRow=row).items():
        if isinstance(val, str):
            text = text.replace("%%(%s)s" % key, val)
    if "%(" in text:
        c.broken.append(("translator: " + what, "template placeholder left unfilled"))
        return []
    old = open(path).read() if os.path.exists(path) else None
    if old != text:
        tmp = path + ".tmp%d" % os.getpid()
        with open(tmp, "w") as f:
            f.write(text)
        os.replace(tmp, path)
    return [("RtcVerif.Gen.DelayHist", "RtcVerif.Gen", HIST_THEOREMS)]
