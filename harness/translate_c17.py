"""
Source-to-Lean translation of the decisive kernels of the reformulation mixins (second tie for C17).

Four independent pieces, each with its own generated module under `lean/RtcVerif/Gen/` (a piece the
translator cannot read is reported as `("translator: <function>", reason)` in `c.broken`; the other
pieces still yield their obligations, the failing-input search of the check runs as usual):

 C17MinAbs       min_abs_goal_programming_mixin.py
                 `_ConvertedMinAbsGoal.__init__`, `__convert_goals._constraint_func` + the two
                 `functools.partial(sign=+-1)` rows + `_GoalConstraint(.., 0.0, np.inf, ..)`,
                 `MinAbsGoalProgrammingMixin.bounds`
                 -> `C17.convertGoal`, `C17.minAbsFeasible`
 C17LinOrder     linearized_order_goal_programming_mixin.py
                 tail of `LinearizedOrderGoal._get_linear_coefficients` (after the root-finder loop),
                 the row `_f` of `_gp_goal_constraints`, its `n_active`, the `_objective_func`
                 -> `C17.coeffsCode` (= `coeffs`, `code_table_is_chord_table`), `C17.linRowFeasible`,
                    `C03.Goal.nActive`, `C17.linObjective`
 C17ObjBnd       bounds of the retained objective row:
                 `SinglePassGoalProgrammingMixin.transcribe`, `GoalProgrammingMixin.__add_subproblem_objective_constraint`
                 -> `C17.objBnd`
 C17Reset        unconditional attribute resets at the start of `optimize()` of GoalProgrammingMixin,
                 SinglePassGoalProgrammingMixin, MinAbsGoalProgrammingMixin
                 -> `C17.gpmReset`, `C17.singlePassReset`, `C17.minAbsReset`

CLOSED table  Python construct -> model term   (library calls are table entries: trusted mapping)
  orig_goal.size / .weight / .relaxation / .function_nominal / .priority -> g.size / g.weight / g.relaxation / g.nominal / g.priority
  class attribute `order = 1`                          -> order := 1
  a / b, a + b, a - b, a * b, -a, numeric literal       -> Rat arithmetic
  abs_variable (after problem.variable / extra_variable lookup of its own name) -> a
  goal.function(problem, ensemble_member)               -> f          (the goal function value)
  goal.function_nominal (min-abs)                       -> n
  functools.partial(_constraint_func, sign=k)           -> the row with sign := k
  _GoalConstraint(_, row, 0.0, np.inf, _)               -> decide (0 <= row)
  bounds[v.name()] = (0.0, np.inf)                      -> decide (0 <= a)
  cls._linear_coefficients[k1][k2] (lookup) / .setdefault(k1, {})[k2] = lines (store) -> cache key [k1, k2]
  xs[-1] = c                                            -> setLast xs c
  np.array(xs)                                          -> xs
  v ** order (array)                                    -> v.map (. ^ r)
  v[1:] / v[:-1]                                        -> sliceFrom1 v / sliceToLast v
  array (+ - * /) array                                 -> ew (op) . .     (element-wise, equal lengths)
  list(zip(a, b))                                       -> List.zip a b
  lin - a * eps - b  in  _GoalConstraint(goal, _f, 0.0, np.inf, False) -> decide (0 <= lin - a * eps - b)
  self._gp_min_max_arrays(goal, target_shape=len(self.times()))        -> (g.tmin.entry, g.tmax.entry) as size x T arrays
  np.isfinite(A) | np.isfinite(B)                       -> fun c i => (A c i).isFinite || (B c i).isFinite
  np.sum(M.astype(int), axis=-1)                        -> fun c => ((List.range T).filter (M c)).length
  np.maximum(n, 1)                                      -> max n 1
  is_path_goal and options["scale_by_problem_size"]     -> isPath && sbs
  goal.weight * lin / n_active                          -> w * lin / nActive
  options["fix_minimized_values"], options["constraint_relaxation"] -> fix, cr
  obj_val, -np.inf, np.inf                              -> .fin v, .ninf, .pinf ;  obj_val += e  ->  v + e
  self.linear_collocation = .. / self.check_collocation_linearity = ..  -> (solver hints, no model term)
  self.X = [] | {} | [[] for m in range(self.ensemble_size)] | [OrderedDict() for m in range(self.ensemble_size)]
           | True | False | 0 | None   (top level of optimize(), before the first loop / super().optimize)
                                                        -> ("X", emptyList | emptyDict | perMember | flag b | zero | none)
"""
import ast
import os

from .common import LEAN_DIR, REPO
from .translate import TranslationError, _find_method

OPT = os.path.join("src", "rtctools", "optimization")


def _tree(name):
    return ast.parse(open(os.path.join(REPO, OPT, name)).read())


def _write(name, text):
    gdir = os.path.join(LEAN_DIR, "RtcVerif", "Gen")
    os.makedirs(gdir, exist_ok=True)
    path = os.path.join(gdir, name + ".lean")
    old = open(path).read() if os.path.exists(path) else None
    if old != text:
        tmp = path + ".tmp%d" % os.getpid()
        with open(tmp, "w") as f:
            f.write(text)
        os.replace(tmp, path)


def _num(node):
    if isinstance(node, ast.UnaryOp) and isinstance(node.op, ast.USub):
        v = _num(node.operand)
        return None if v is None else -v
    if isinstance(node, ast.Constant) and isinstance(node.value, (int, float)) and not isinstance(node.value, bool):
        return node.value
    return None


def _lit(v):
    if float(v) != int(v):
        raise TranslationError("non-integral literal %r" % v)
    v = int(v)
    return "(%d)" % v if v < 0 else "%d" % v


def _is_np_inf(node, sign=1):
    if sign < 0:
        return isinstance(node, ast.UnaryOp) and isinstance(node.op, ast.USub) and _is_np_inf(node.operand)
    return isinstance(node, ast.Attribute) and node.attr == "inf" and isinstance(node.value, ast.Name) \
        and node.value.id == "np"


class _Arith:
    """arithmetic over a table of leaf terms; `leaf(node)` returns a Lean term or None"""

    def __init__(self, leaf):
        self.leaf = leaf

    def expr(self, node):
        t = self.leaf(node)
        if t is not None:
            return t
        v = _num(node)
        if v is not None:
            return _lit(v)
        if isinstance(node, ast.BinOp):
            op = {ast.Add: "+", ast.Sub: "-", ast.Mult: "*", ast.Div: "/"}.get(type(node.op))
            if op:
                a, b = self.expr(node.left), self.expr(node.right)
                # Python precedence/associativity is the AST; print fully left-nested like Lean parses it
                if isinstance(node.right, ast.BinOp):
                    b = "(%s)" % b
                if isinstance(node.left, ast.BinOp) and op in "*/" and isinstance(node.left.op, (ast.Add, ast.Sub)):
                    a = "(%s)" % a
                return "%s %s %s" % (a, op, b)
        raise TranslationError("unsupported expression " + ast.dump(node)[:140])


# ---------------------------------------------------------------------------------------------
# min-abs


def _minabs():
    tree = _tree("min_abs_goal_programming_mixin.py")
    # --- _ConvertedMinAbsGoal
    cls = next((n for n in ast.walk(tree) if isinstance(n, ast.ClassDef) and n.name == "_ConvertedMinAbsGoal"), None)
    if cls is None:
        raise TranslationError("_ConvertedMinAbsGoal not found")
    order = None
    for st in cls.body:
        if isinstance(st, ast.Assign) and len(st.targets) == 1 and isinstance(st.targets[0], ast.Name) \
                and st.targets[0].id == "order":
            order = _num(st.value)
    if order is None:
        raise TranslationError("_ConvertedMinAbsGoal.order is not a literal")
    init = _find_method(tree, "_ConvertedMinAbsGoal", "__init__")
    if [a.arg for a in init.args.args] != ["self", "abs_variable", "is_path_goal", "orig_goal"]:
        raise TranslationError("_ConvertedMinAbsGoal.__init__: unexpected signature")
    amap = {"size": "g.size", "weight": "g.weight", "relaxation": "g.relaxation", "function_nominal": "g.nominal",
            "priority": "g.priority"}

    def leaf(node):
        if isinstance(node, ast.Attribute) and isinstance(node.value, ast.Name) and node.value.id == "orig_goal":
            if node.attr in amap:
                return amap[node.attr]
            raise TranslationError("unknown attribute orig_goal." + node.attr)
        return None

    fields = {}
    for st in init.body:
        if isinstance(st, ast.Expr) and isinstance(st.value, ast.Constant):
            continue
        if isinstance(st, ast.Assign) and len(st.targets) == 1 and isinstance(st.targets[0], ast.Attribute) \
                and isinstance(st.targets[0].value, ast.Name) and st.targets[0].value.id == "self":
            name = st.targets[0].attr
            if name in ("abs_variable", "is_path_goal", "orig_goal") and isinstance(st.value, ast.Name) \
                    and st.value.id == name:
                continue
            if name in ("size", "weight", "relaxation", "priority"):
                fields[name] = _Arith(leaf).expr(st.value)
                continue
        raise TranslationError("_ConvertedMinAbsGoal.__init__: unsupported statement " + ast.dump(st)[:120])
    if set(fields) != {"size", "weight", "relaxation", "priority"}:
        raise TranslationError("_ConvertedMinAbsGoal.__init__ does not copy size/weight/relaxation/priority")
    # --- rows
    conv = _find_method(tree, "MinAbsGoalProgrammingMixin", "__convert_goals")
    cf = next((n for n in ast.walk(conv) if isinstance(n, ast.FunctionDef) and n.name == "_constraint_func"), None)
    if cf is None:
        raise TranslationError("__convert_goals._constraint_func not found")
    ret = [n for n in ast.walk(cf) if isinstance(n, ast.Return)]
    if len(ret) != 1:
        raise TranslationError("_constraint_func: expected one return")
    # abs_variable is rebound to the problem's symbol of its own name in both branches
    for n in ast.walk(cf):
        if isinstance(n, ast.Assign):
            ok = (len(n.targets) == 1 and isinstance(n.targets[0], ast.Name) and n.targets[0].id == "abs_variable"
                  and isinstance(n.value, ast.Call) and isinstance(n.value.func, ast.Attribute)
                  and n.value.func.attr in ("variable", "extra_variable")
                  and ast.dump(n.value.args[0]) == ast.dump(ast.parse("abs_variable.name()", mode="eval").body))
            if not ok:
                raise TranslationError("_constraint_func: unsupported assignment " + ast.dump(n)[:120])

    def rleaf(node):
        if isinstance(node, ast.Name) and node.id == "abs_variable":
            return "a"
        if isinstance(node, ast.Name) and node.id == "sign":
            return "SIGN"
        if isinstance(node, ast.Call) and isinstance(node.func, ast.Attribute) and node.func.attr == "function" \
                and isinstance(node.func.value, ast.Name) and node.func.value.id == "goal":
            return "f"
        if isinstance(node, ast.Attribute) and isinstance(node.value, ast.Name) and node.value.id == "goal" \
                and node.attr == "function_nominal":
            return "n"
        return None

    row = _Arith(rleaf).expr(ret[0].value)
    signs = {}
    for n in ast.walk(conv):
        if isinstance(n, ast.Assign) and isinstance(n.value, ast.Call) and isinstance(n.value.func, ast.Attribute) \
                and n.value.func.attr == "partial" and len(n.targets) == 1 and isinstance(n.targets[0], ast.Name):
            kw = {k.arg: _num(k.value) for k in n.value.keywords}
            if list(kw) != ["sign"] or kw["sign"] is None or not (len(n.value.args) == 1
                                                                   and isinstance(n.value.args[0], ast.Name)
                                                                   and n.value.args[0].id == "_constraint_func"):
                raise TranslationError("unsupported functools.partial " + ast.dump(n)[:120])
            signs[n.targets[0].id] = kw["sign"]
    rows = []
    for n in ast.walk(conv):
        if isinstance(n, ast.Call) and isinstance(n.func, ast.Name) and n.func.id == "_GoalConstraint":
            if len(n.args) != 5 or not isinstance(n.args[1], ast.Name) or n.args[1].id not in signs:
                raise TranslationError("unsupported _GoalConstraint " + ast.dump(n)[:120])
            if _num(n.args[2]) != 0 or not _is_np_inf(n.args[3]):
                raise TranslationError("min-abs row bounds are not (0.0, np.inf)")
            rows.append("decide (0 ≤ %s)" % row.replace("SIGN", _lit(signs[n.args[1].id])))
    if len(rows) != 2:
        raise TranslationError("expected two min-abs rows, found %d" % len(rows))
    # --- variable bound
    bnd = _find_method(tree, "MinAbsGoalProgrammingMixin", "bounds")
    vb = None
    for n in ast.walk(bnd):
        if isinstance(n, ast.Assign) and isinstance(n.targets[0], ast.Subscript) and isinstance(n.value, ast.Tuple):
            lo, hi = n.value.elts
            if _num(lo) == 0 and _is_np_inf(hi):
                vb = "decide (0 ≤ a)"
            else:
                raise TranslationError("bounds of the auxiliary variable are not (0.0, np.inf)")
    if vb is None:
        raise TranslationError("MinAbsGoalProgrammingMixin.bounds sets no bound")
    r1 = row.replace("SIGN", _lit(signs[[n for n in ast.walk(conv) if isinstance(n, ast.Call) and isinstance(n.func, ast.Name) and n.func.id == "_GoalConstraint"][0].args[1].id]))
    r2 = row.replace("SIGN", _lit(signs[[n for n in ast.walk(conv) if isinstance(n, ast.Call) and isinstance(n.func, ast.Name) and n.func.id == "_GoalConstraint"][1].args[1].id]))
    text = """import RtcVerif.Model.C17Code
import Mathlib.Algebra.Order.Field.Rat
import Mathlib.Tactic.Ring
/-! GENERATED by harness/translate_c17.py from min_abs_goal_programming_mixin.py
(`_ConvertedMinAbsGoal`, `__convert_goals`, `bounds`).  Do not edit. -/
namespace RtcVerif.Gen
open RtcVerif

def convertGoalGen (g : C17.AbsGoal) : C17.ConvGoal :=
  { size := %s, weight := %s, relaxation := %s, priority := %s, order := %s }

theorem convertGoalGen_eq_model (g : C17.AbsGoal) : convertGoalGen g = C17.convertGoal g := rfl

def minAbsFeasibleGen (f n a : Rat) : Bool :=
  %s && %s && %s

theorem minAbsFeasibleGen_eq_model (f n a : Rat) : minAbsFeasibleGen f n a = C17.minAbsFeasible f n a := by
  have h1 : %s = a + 1 * f / n := by ring
  have h2 : %s = a + (-1) * f / n := by ring
  unfold minAbsFeasibleGen C17.minAbsFeasible
  first | rfl | rw [h1, h2] | rw [h1] | rw [h2]

end RtcVerif.Gen
""" % (fields["size"], fields["weight"], fields["relaxation"], fields["priority"], _lit(order), rows[0], rows[1], vb,
       r1, r2)
    _write("C17MinAbs", text)
    return ("RtcVerif.Gen.C17MinAbs", "RtcVerif.Gen", ["convertGoalGen_eq_model", "minAbsFeasibleGen_eq_model"])


# ---------------------------------------------------------------------------------------------
# linearised order


class _Arr:
    """array expressions of `_get_linear_coefficients`"""

    def __init__(self):
        self.env = {}

    def expr(self, node):
        if isinstance(node, ast.Name):
            if node.id in self.env:
                return self.env[node.id]
            if node.id == "order":
                return ("r", "nat")
            raise TranslationError("unknown name " + node.id)
        if isinstance(node, ast.Subscript) and isinstance(node.slice, ast.Slice) and node.slice.step is None:
            v, t = self.expr(node.value)
            lo, hi = node.slice.lower, node.slice.upper
            if t == "arr" and _num(lo) == 1 and hi is None:
                return ("(C17.sliceFrom1 %s)" % v, "arr")
            if t == "arr" and lo is None and hi is not None and _num(hi) == -1:
                return ("(C17.sliceToLast %s)" % v, "arr")
            raise TranslationError("unsupported slice")
        if isinstance(node, ast.BinOp):
            if isinstance(node.op, ast.Pow):
                (a, ta), (b, tb) = self.expr(node.left), self.expr(node.right)
                if ta == "arr" and tb == "nat":
                    return ("(%s.map (· ^ %s))" % (a, b), "arr")
                raise TranslationError("unsupported power")
            op = {ast.Add: "+", ast.Sub: "-", ast.Mult: "*", ast.Div: "/"}.get(type(node.op))
            if op:
                (a, ta), (b, tb) = self.expr(node.left), self.expr(node.right)
                if ta == tb == "arr":
                    return ("(C17.ew (· %s ·) %s %s)" % (op, a, b), "arr")
            raise TranslationError("unsupported array operation " + ast.dump(node)[:100])
        if isinstance(node, ast.Call) and isinstance(node.func, ast.Attribute) and node.func.attr == "array" \
                and len(node.args) == 1:
            return self.expr(node.args[0])
        if isinstance(node, ast.Call) and isinstance(node.func, ast.Name) and node.func.id == "list" \
                and len(node.args) == 1 and isinstance(node.args[0], ast.Call) \
                and isinstance(node.args[0].func, ast.Name) and node.args[0].func.id == "zip" \
                and len(node.args[0].args) == 2:
            (a, ta), (b, tb) = self.expr(node.args[0].args[0]), self.expr(node.args[0].args[1])
            if ta == tb == "arr":
                return ("List.zip %s %s" % (a, b), "table")
        raise TranslationError("unsupported expression " + ast.dump(node)[:140])


def _linorder():
    tree = _tree("linearized_order_goal_programming_mixin.py")
    fn = _find_method(tree, "LinearizedOrderGoal", "_get_linear_coefficients")
    body = fn.body
    k = next((i for i, st in enumerate(body) if isinstance(st, ast.While)), None)
    if k is None:
        raise TranslationError("_get_linear_coefficients: root-finder loop not found")
    # cache: `return cls._linear_coefficients[K1][K2]` before the loop, `.setdefault(K1, {})[K2] = lines` after
    def key2(node):
        if isinstance(node, ast.Subscript) and isinstance(node.slice, ast.Name):
            inner = node.value
            if isinstance(inner, ast.Subscript) and isinstance(inner.slice, ast.Name) \
                    and ast.dump(inner.value) == ast.dump(ast.parse("cls._linear_coefficients", mode="eval").body):
                return [inner.slice.id, node.slice.id]
            if isinstance(inner, ast.Call) and isinstance(inner.func, ast.Attribute) and inner.func.attr == "setdefault" \
                    and ast.dump(inner.func.value) == ast.dump(ast.parse("cls._linear_coefficients", mode="eval").body) \
                    and len(inner.args) == 2 and isinstance(inner.args[0], ast.Name) \
                    and isinstance(inner.args[1], ast.Dict) and not inner.args[1].keys:
                return [inner.args[0].id, node.slice.id]
        return None

    lookups = [key2(n.value) for st in body[:k] for n in ast.walk(st) if isinstance(n, ast.Return)]
    stores = [key2(st.targets[0]) for st in body[k + 1:] if isinstance(st, ast.Assign) and len(st.targets) == 1
              and "_linear_coefficients" in ast.dump(st.targets[0])]
    if len(lookups) != 1 or lookups[0] is None or len(stores) != 1 or stores[0] is None:
        raise TranslationError("_get_linear_coefficients: cache lookup / store not of the form "
                               "cls._linear_coefficients[k1][k2] / .setdefault(k1, {})[k2] = lines")
    if any(kk not in ("order", "eps", "kind") for kk in lookups[0] + stores[0]):
        raise TranslationError("_get_linear_coefficients: cache key is not built from the arguments")
    key_lookup = "[%s]" % ", ".join('"%s"' % x for x in lookups[0])
    key_store = "[%s]" % ", ".join('"%s"' % x for x in stores[0])
    A = _Arr()
    A.env["xs"] = ("xs", "arr")  # knots produced by the root-finder loop (abstract)
    table = None
    for st in body[k + 1:]:
        if isinstance(st, ast.Expr) and isinstance(st.value, ast.Constant):
            continue
        if isinstance(st, ast.Assign) and len(st.targets) == 1:
            tg = st.targets[0]
            if isinstance(tg, ast.Subscript) and isinstance(tg.value, ast.Name) and tg.value.id == "xs" \
                    and _num(tg.slice) == -1 and _num(st.value) is not None:
                A.env["xs"] = ("(C17.setLast %s %s)" % (A.env["xs"][0], _lit(_num(st.value))), "arr")
                continue
            if isinstance(tg, ast.Name):
                A.env[tg.id] = A.expr(st.value)
                continue
        if isinstance(st, ast.Assign) and "setdefault" in ast.dump(st.targets[0]):
            continue  # the cache store: its key is translated above
        if isinstance(st, ast.Return):
            table = A.expr(st.value)
            continue
        raise TranslationError("_get_linear_coefficients: unsupported statement " + ast.dump(st)[:120])
    if table is None or table[1] != "table":
        raise TranslationError("_get_linear_coefficients does not return zip(a, b)")
    # --- row, n_active, objective in _gp_goal_constraints
    gc = _find_method(tree, "LinearizedOrderGoalProgrammingMixin", "_gp_goal_constraints")
    f = next((n for n in ast.walk(gc) if isinstance(n, ast.FunctionDef) and n.name == "_f"), None)
    if f is None:
        raise TranslationError("_gp_goal_constraints._f not found")
    ret = [n for n in ast.walk(f) if isinstance(n, ast.Return)]
    if len(ret) != 1:
        raise TranslationError("_f: expected one return")

    def rleaf(node):
        if isinstance(node, ast.Name) and node.id in ("lin", "eps", "a", "b"):
            return node.id
        return None

    row = _Arith(rleaf).expr(ret[0].value)
    gcs = [n for n in ast.walk(gc) if isinstance(n, ast.Call) and isinstance(n.func, ast.Name)
           and n.func.id == "_GoalConstraint"]
    if len(gcs) != 1 or _num(gcs[0].args[2]) != 0 or not _is_np_inf(gcs[0].args[3]) \
            or not (isinstance(gcs[0].args[1], ast.Name) and gcs[0].args[1].id == "_f"):
        raise TranslationError("linearised rows are not _GoalConstraint(goal, _f, 0.0, np.inf, ..)")
    # n_active: the `if is_path_goal and options["scale_by_problem_size"]` statement assigning n_active
    ifs = [n for n in ast.walk(gc) if isinstance(n, ast.If)
           and any(isinstance(t, ast.Name) and t.id == "n_active" for s in n.body if isinstance(s, ast.Assign)
                   for t in s.targets)]
    if len(ifs) != 1:
        raise TranslationError("n_active branch not found")
    cond = ifs[0].test
    want = ast.dump(ast.parse('is_path_goal and options["scale_by_problem_size"]', mode="eval").body)
    if ast.dump(cond) != want:
        raise TranslationError("n_active condition is not `is_path_goal and options[\"scale_by_problem_size\"]`")
    env = {}

    def nexpr(node):
        d = ast.dump(node)
        if isinstance(node, ast.Name) and node.id in env:
            return env[node.id]
        if d == ast.dump(ast.parse("np.isfinite(goal_m) | np.isfinite(goal_M)", mode="eval").body) \
                and env.get("goal_m") == ("tmin", "mat") and env.get("goal_M") == ("tmax", "mat"):
            return ("(fun c i => (g.tmin.entry c i).isFinite || (g.tmax.entry c i).isFinite)", "bmat")
        if isinstance(node, ast.Call) and isinstance(node.func, ast.Attribute) and node.func.attr == "sum" \
                and isinstance(node.func.value, ast.Name) and node.func.value.id == "np" and len(node.args) == 1 \
                and [(k.arg, _num(k.value)) for k in node.keywords] == [("axis", -1)]:
            a = node.args[0]
            if isinstance(a, ast.Call) and isinstance(a.func, ast.Attribute) and a.func.attr == "astype" \
                    and len(a.args) == 1 and isinstance(a.args[0], ast.Name) and a.args[0].id == "int":
                m, t = nexpr(a.func.value)
                if t == "bmat":
                    return ("(fun c => ((List.range T).filter (%s c)).length)" % m, "cnt")
        if isinstance(node, ast.Call) and isinstance(node.func, ast.Attribute) and node.func.attr == "maximum" \
                and len(node.args) == 2 and _num(node.args[1]) is not None:
            m, t = nexpr(node.args[0])
            if t == "cnt":
                return ("(fun c => max (%s c) %s)" % (m, _lit(_num(node.args[1]))), "cnt")
        if _num(node) is not None:
            return ("(fun _ => %s)" % _lit(_num(node)), "cnt")
        raise TranslationError("n_active: unsupported expression " + d[:140])

    def nblock(stmts):
        for st in stmts:
            if isinstance(st, ast.Expr) and isinstance(st.value, ast.Constant):
                continue
            if isinstance(st, ast.Assign) and len(st.targets) == 1:
                tg = st.targets[0]
                if isinstance(tg, ast.Tuple) and [e.id for e in tg.elts] == ["goal_m", "goal_M"] \
                        and ast.dump(st.value) == ast.dump(ast.parse(
                            "self._gp_min_max_arrays(goal, target_shape=len(self.times()))", mode="eval").body):
                    env["goal_m"], env["goal_M"] = ("tmin", "mat"), ("tmax", "mat")
                    continue
                if isinstance(tg, ast.Name):
                    env[tg.id] = nexpr(st.value)
                    continue
            raise TranslationError("n_active: unsupported statement " + ast.dump(st)[:120])
        if "n_active" not in env or env["n_active"][1] != "cnt":
            raise TranslationError("n_active is not a per-component count")
        return env["n_active"][0]

    n_then = nblock(ifs[0].body)
    env = {}
    n_else = nblock(ifs[0].orelse)
    of = next((n for n in ast.walk(gc) if isinstance(n, ast.FunctionDef) and n.name == "_objective_func"), None)
    if of is None:
        raise TranslationError("_objective_func not found")
    oret = [n for n in ast.walk(of) if isinstance(n, ast.Return)]

    def oleaf(node):
        if isinstance(node, ast.Attribute) and isinstance(node.value, ast.Name) and node.value.id == "goal" \
                and node.attr == "weight":
            return "w"
        if isinstance(node, ast.Name) and node.id == "lin":
            return "lin"
        if isinstance(node, ast.Name) and node.id == "n_active":
            return "nActive"
        return None

    if len(oret) != 1:
        raise TranslationError("_objective_func: expected one return")
    obj = _Arith(oleaf).expr(oret[0].value)
    text = """import RtcVerif.Model.C17Code
import Mathlib.Algebra.Order.Field.Rat
import Mathlib.Tactic.Ring
/-! GENERATED by harness/translate_c17.py from linearized_order_goal_programming_mixin.py
(`_get_linear_coefficients` after the root-finder loop; row, n_active and objective of
`_gp_goal_constraints`).  Do not edit. -/
namespace RtcVerif.Gen
open RtcVerif

/-- `xs`: the knots appended by the root-finder loop -/
def linearTableGen (r : Nat) (xs : List Rat) : List (Rat × Rat) :=
  %s

theorem linearTableGen_eq_model (r : Nat) (xs : List Rat) :
    linearTableGen r xs = C17.coeffs r (C17.setLast xs 1) := by
  rw [← C17.coeffsCode_eq]; rfl

/-- cache key of the lookup before and of the store after the computation -/
def linCacheLookupKeyGen : List String := %s
def linCacheStoreKeyGen : List String := %s

theorem linCacheKeyGen_eq_model :
    linCacheLookupKeyGen = C17.linCacheKey ∧ linCacheStoreKeyGen = C17.linCacheKey := by decide

def linRowGen (a b eps lin : Rat) : Bool := decide (0 ≤ %s)

theorem linRowGen_eq_model (a b eps lin : Rat) : linRowGen a b eps lin = C17.linRowFeasible (a, b) eps lin := by
  have h : %s = lin - a * eps - b := by ring
  unfold linRowGen C17.linRowFeasible
  first | rfl | rw [h]

def linNActiveGen (g : C03.Goal) (sbs isPath : Bool) (T c : Nat) : Rat :=
  if isPath && sbs then ((%s c : Nat) : Rat) else ((%s c : Nat) : Rat)

theorem linNActiveGen_eq_model (g : C03.Goal) (sbs isPath : Bool) (T c : Nat) (hb : g.hasBounds = true) :
    linNActiveGen g sbs isPath T c = g.nActive sbs isPath T c := by
  unfold linNActiveGen C03.Goal.nActive
  rw [hb]
  cases isPath <;> cases sbs <;> first | rfl | simp

def linObjectiveGen (w lin nActive : Rat) : Rat := %s

theorem linObjectiveGen_eq_model (w lin nActive : Rat) : linObjectiveGen w lin nActive = C17.linObjective w lin nActive := by
  unfold linObjectiveGen C17.linObjective
  ring

end RtcVerif.Gen
""" % (table[0], key_lookup, key_store, row, row, n_then, n_else, obj)
    _write("C17LinOrder", text)
    return ("RtcVerif.Gen.C17LinOrder", "RtcVerif.Gen",
            ["linearTableGen_eq_model", "linCacheKeyGen_eq_model", "linRowGen_eq_model", "linNActiveGen_eq_model",
             "linObjectiveGen_eq_model"])


# ---------------------------------------------------------------------------------------------
# bounds of the retained objective row


def _is_opt(node, key):
    return isinstance(node, ast.Subscript) and isinstance(node.value, ast.Name) and node.value.id == "options" \
        and isinstance(node.slice, ast.Constant) and node.slice.value == key


def _objbnd_branch(stmts):
    v = ".fin v"

    def val(node):
        if isinstance(node, ast.Name) and node.id == "obj_val":
            return v
        if _is_np_inf(node, -1):
            return ".ninf"
        if _is_np_inf(node):
            return ".pinf"
        raise TranslationError("objective bound: unsupported value " + ast.dump(node)[:100])

    out = None
    for st in stmts:
        if isinstance(st, ast.Expr) and isinstance(st.value, ast.Constant):
            continue
        if isinstance(st, ast.AugAssign) and isinstance(st.op, ast.Add) and isinstance(st.target, ast.Name) \
                and st.target.id == "obj_val" and _is_opt(st.value, "constraint_relaxation"):
            if v != ".fin v":
                raise TranslationError("objective bound: relaxation added twice")
            v = ".fin (v + cr)"
            continue
        if isinstance(st, ast.Assign) and len(st.targets) == 1:
            tg = st.targets[0]
            if isinstance(tg, ast.Attribute) and isinstance(tg.value, ast.Name) and tg.value.id == "self" \
                    and tg.attr in ("linear_collocation", "check_collocation_linearity"):
                continue
            if isinstance(tg, ast.Tuple) and [getattr(e, "id", None) for e in tg.elts] == ["lb", "ub"] \
                    and isinstance(st.value, ast.Tuple) and len(st.value.elts) == 2:
                out = (val(st.value.elts[0]), val(st.value.elts[1]))
                continue
            if isinstance(tg, ast.Name) and tg.id == "constraint" and isinstance(st.value, ast.Call) \
                    and isinstance(st.value.func, ast.Name) and st.value.func.id == "_GoalConstraint" \
                    and len(st.value.args) == 5:
                out = (val(st.value.args[2]), val(st.value.args[3]))
                continue
        raise TranslationError("objective bound: unsupported statement " + ast.dump(st)[:120])
    if out is None:
        raise TranslationError("objective bound: no bounds assigned")
    return "(%s, %s)" % out


def _objbnd():
    parts = {}
    for key, file, cls, meth in (("sp", "single_pass_goal_programming_mixin.py", "SinglePassGoalProgrammingMixin", "transcribe"),
                                 ("ks", "goal_programming_mixin.py", "GoalProgrammingMixin",
                                  "__add_subproblem_objective_constraint")):
        fn = _find_method(_tree(file), cls, meth)
        ifs = [n for n in ast.walk(fn) if isinstance(n, ast.If) and _is_opt(n.test, "fix_minimized_values")]
        if len(ifs) != 1:
            raise TranslationError("%s.%s: branch on options[\"fix_minimized_values\"] not found" % (cls, meth))
        parts[key] = "if fix then %s else %s" % (_objbnd_branch(ifs[0].body), _objbnd_branch(ifs[0].orelse))
    text = """import RtcVerif.Model.C17Code
/-! GENERATED by harness/translate_c17.py from `SinglePassGoalProgrammingMixin.transcribe` and
`GoalProgrammingMixin.__add_subproblem_objective_constraint` (bounds of the retained objective row).
Do not edit. -/
namespace RtcVerif.Gen
open RtcVerif

def objBndSinglePassGen (fix : Bool) (v cr : Rat) : EVal × EVal := %s
def objBndKeepSoftGen (fix : Bool) (v cr : Rat) : EVal × EVal := %s

theorem objBndSinglePassGen_eq_model (fix : Bool) (v cr : Rat) : objBndSinglePassGen fix v cr = C17.objBnd fix v cr := by
  cases fix <;> rfl

theorem objBndKeepSoftGen_eq_model (fix : Bool) (v cr : Rat) : objBndKeepSoftGen fix v cr = C17.objBnd fix v cr := by
  cases fix <;> rfl

end RtcVerif.Gen
""" % (parts["sp"], parts["ks"])
    _write("C17ObjBnd", text)
    return ("RtcVerif.Gen.C17ObjBnd", "RtcVerif.Gen", ["objBndSinglePassGen_eq_model", "objBndKeepSoftGen_eq_model"])


# ---------------------------------------------------------------------------------------------
# resets at the start of optimize()


def _fresh(node):
    if isinstance(node, ast.List) and not node.elts:
        return ".emptyList"
    if isinstance(node, ast.Dict) and not node.keys:
        return ".emptyDict"
    if isinstance(node, ast.Constant):
        if node.value is True:
            return ".flag true"
        if node.value is False:
            return ".flag false"
        if node.value is None:
            return ".none"
        if node.value == 0 and not isinstance(node.value, bool):
            return ".zero"
    if isinstance(node, ast.ListComp) and len(node.generators) == 1 and not node.generators[0].ifs:
        g = node.generators[0]
        it = ast.dump(g.iter) == ast.dump(ast.parse("range(self.ensemble_size)", mode="eval").body)
        e = node.elt
        el = (isinstance(e, ast.List) and not e.elts) or (isinstance(e, ast.Call) and isinstance(e.func, ast.Name)
                                                          and e.func.id == "OrderedDict" and not e.args)
        if it and el and isinstance(g.target, ast.Name):
            return ".perMember"
    return None


def _resets(fn):
    """unconditional `self.X = <fresh>` at the top level of optimize(), before the first loop that solves
    (a `for` containing a call of super().optimize) or the call of super().optimize itself"""
    out = {}
    for st in fn.body:
        d = ast.dump(st)
        if isinstance(st, (ast.For, ast.While)) and "priority_started" in d:
            break
        if isinstance(st, ast.Return):
            break
        if isinstance(st, ast.Assign) and len(st.targets) == 1 and isinstance(st.targets[0], ast.Attribute) \
                and isinstance(st.targets[0].value, ast.Name) and st.targets[0].value.id == "self":
            fv = _fresh(st.value)
            if fv is not None:
                out[st.targets[0].attr] = fv
            else:
                out.pop(st.targets[0].attr, None)
    return out


def _reset():
    parts = []
    for name, file, cls, model in (("gpmResetGen", "goal_programming_mixin.py", "GoalProgrammingMixin", "gpmReset"),
                                   ("singlePassResetGen", "single_pass_goal_programming_mixin.py",
                                    "SinglePassGoalProgrammingMixin", "singlePassReset"),
                                   ("minAbsResetGen", "min_abs_goal_programming_mixin.py",
                                    "MinAbsGoalProgrammingMixin", "minAbsReset")):
        r = _resets(_find_method(_tree(file), cls, "optimize"))
        # attributes that are bookkeeping of the run itself, not state carried between runs
        for k in ("skip_priority",):
            r.pop(k, None)
        items = ",\n   ".join('("%s", %s)' % (k, r[k]) for k in sorted(r))
        parts.append((name, model, items))
    defs = "\n".join("def %s : List (String × C17.Fresh) :=\n  [%s]\n\ntheorem %s_eq_model : %s = C17.%s := by decide\n"
                     % (n, items, n, n, m) for n, m, items in parts)
    text = """import RtcVerif.Model.C17Code
/-! GENERATED by harness/translate_c17.py from the `optimize()` methods of GoalProgrammingMixin,
SinglePassGoalProgrammingMixin and MinAbsGoalProgrammingMixin: the attributes assigned a fresh value
unconditionally before the first priority is solved (sorted by name).  Do not edit. -/
namespace RtcVerif.Gen
open RtcVerif

%s
end RtcVerif.Gen
""" % defs
    _write("C17Reset", text)
    return ("RtcVerif.Gen.C17Reset", "RtcVerif.Gen", [n + "_eq_model" for n, _, _ in parts])


PIECES = [("_ConvertedMinAbsGoal / __convert_goals", _minabs),
          ("LinearizedOrderGoal._get_linear_coefficients / _gp_goal_constraints", _linorder),
          ("objective-row bounds (transcribe / __add_subproblem_objective_constraint)", _objbnd),
          ("optimize() resets", _reset)]


def gen_c17(c):
    """(re)generate lean/RtcVerif/Gen/C17*.lean; returns the extra obligation spec for c.prove"""
    out = []
    for name, fn in PIECES:
        try:
            out.append(fn())
        except (TranslationError, OSError, SyntaxError, AttributeError, IndexError) as e:
            c.broken.append(("translator: " + name, "%s: %s" % (type(e).__name__, e)))
    return out
