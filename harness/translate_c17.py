"""
Source-to-Lean translation of the decisive kernels of the reformulation mixins (second tie for C17).

Four independent pieces, each with its own generated module under `lean/RtcVerif/Gen/` (a piece the
translator cannot read is reported as `("translator: <function>", reason)` in `c.broken`; the other
pieces still yield their obligations, the failing-input search of the check runs as usual):

 C17MinAbs       min_abs_goal_programming_mixin.py
                 `_ConvertedMinAbsGoal.__init__`, `__convert_goals._constraint_func` + the two
                 `functools.partial(sign=+-1)` rows + `_GoalConstraint(.., 0.0, np.inf, ..)`,
                 `MinAbsGoalProgrammingMixin.bounds`
                 -> `C17.convertGoal`, `C17.minAbsFeasible`
 C17LinOrder     linearized_order_goal_programming_mixin.py
                 tail of `LinearizedOrderGoal._get_linear_coefficients` (after the root-finder loop),
                 the row `_f` of `_gp_goal_constraints`, its `n_active`, the `_objective_func`
                 -> `C17.coeffsCode` (= `coeffs`, `code_table_is_chord_table`), `C17.linRowFeasible`,
                    `C03.Goal.nActive`, `C17.linObjective`
 C17ObjBnd       bounds of the retained objective row:
                 `SinglePassGoalProgrammingMixin.transcribe`, `GoalProgrammingMixin.__add_subproblem_objective_constraint`
                 -> `C17.objBnd`
 C17Reset        unconditional attribute resets at the start of `optimize()` of GoalProgrammingMixin,
                 SinglePassGoalProgrammingMixin, MinAbsGoalProgrammingMixin
                 -> `C17.gpmReset`, `C17.singlePassReset`, `C17.minAbsReset`
 C17OptRead      WHEN the options of the retained objective row are read (`gen_optread`):
                 `SinglePassGoalProgrammingMixin.optimize` (the snapshot `self.__objective_constraint_options = ..`
                 between `super().optimize(..)` and `self.priority_completed(priority)` of the same loop body) +
                 `transcribe` (uses the snapshot); `GoalProgrammingMixin.optimize` (call of
                 `__add_subproblem_objective_constraint` after `priority_started` / the solve of the same loop body)
                 + `__add_subproblem_objective_constraint` (reads `self.goal_programming_options()` itself)
                 -> `C17.singlePassOptRead`, `C17.keepSoftOptRead`
 C17Caching      single_pass_goal_programming_mixin.py, class `CachingQPSol` (`gen_caching`):
                 `CachingQPSol.__init__` (initial `_tlcache`), the inner `Solver.__init__` (extraction of H, c,
                 f(0), A, b; the `_tlcache` logic: dimension guard, re-use, appended rows, store),
                 `Solver.__call__` (the dict handed to the conic back-end, the reported objective)
                 -> `C17.construct`, `C17.call`, `C17.report`, initial cache `none`

CLOSED table  Python construct -> model term   (library calls are table entries: trusted mapping)
  orig_goal.size / .weight / .relaxation / .function_nominal / .priority -> g.size / g.weight / g.relaxation / g.nominal / g.priority
  class attribute `order = 1`                          -> order := 1
  a / b, a + b, a - b, a * b, -a, numeric literal       -> Rat arithmetic
  abs_variable (after problem.variable / extra_variable lookup of its own name) -> a
  goal.function(problem, ensemble_member)               -> f          (the goal function value)
  goal.function_nominal (min-abs)                       -> n
  functools.partial(_constraint_func, sign=k)           -> the row with sign := k
  _GoalConstraint(_, row, 0.0, np.inf, _)               -> decide (0 <= row)
  bounds[v.name()] = (0.0, np.inf)                      -> decide (0 <= a)
  cls._linear_coefficients[k1][k2] (lookup) / .setdefault(k1, {})[k2] = lines (store) -> cache key [k1, k2]
  xs[-1] = c                                            -> setLast xs c
  np.array(xs)                                          -> xs
  v ** order (array)                                    -> v.map (. ^ r)
  v[1:] / v[:-1]                                        -> sliceFrom1 v / sliceToLast v
  array (+ - * /) array                                 -> ew (op) . .     (element-wise, equal lengths)
  list(zip(a, b))                                       -> List.zip a b
  lin - a * eps - b  in  _GoalConstraint(goal, _f, 0.0, np.inf, False) -> decide (0 <= lin - a * eps - b)
  self._gp_min_max_arrays(goal, target_shape=len(self.times()))        -> (g.tmin.entry, g.tmax.entry) as size x T arrays
  np.isfinite(A) | np.isfinite(B)                       -> fun c i => (A c i).isFinite || (B c i).isFinite
  np.sum(M.astype(int), axis=-1)                        -> fun c => ((List.range T).filter (M c)).length
  np.maximum(n, 1)                                      -> max n 1
  is_path_goal and options["scale_by_problem_size"]     -> isPath && sbs
  goal.weight * lin / n_active                          -> w * lin / nActive
  options["fix_minimized_values"], options["constraint_relaxation"] -> fix, cr
  obj_val, -np.inf, np.inf                              -> .fin v, .ninf, .pinf ;  obj_val += e  ->  v + e
  self.linear_collocation = .. / self.check_collocation_linearity = ..  -> (solver hints, no model term)
  --- reading point of the objective-row options (loop body of optimize(), statements in order)
  self.priority_started(priority) .. success = super().optimize(..) ..
     options = self.goal_programming_options();
     self.__objective_constraint_options = {k: v for k, v in options.items() if k in {"fix_minimized_values", "constraint_relaxation"}}
     (.. self.priority_completed(priority)), and in transcribe(): options = self.__objective_constraint_options
                                                          -> .ownPriority
  transcribe(): options = self.goal_programming_options() under `if self.__current_priority > 0:`  -> .nextPriority
  keep-soft: self.priority_started(priority) .. self.__add_subproblem_objective_constraint() in the same loop body,
     and options = self.goal_programming_options() inside it  -> .ownPriority
  --- CachingQPSol (symbolic CasADi expressions are modelled by their normal forms: objective
      Σ Q_ij x_i x_j + c·x + k, constraint rows a·x + b; `ch` = the filled `_tlcache`)
  self._tlcache = {}  (CachingQPSol.__init__)             -> initial cache `none`
  Solver.__init__ default `cache=self._tlcache`           -> the cache argument / result of `construct`
  x = nlp["x"]; f = nlp["f"]; g = nlp["g"]                -> p.n, p.f, p.g
  if isinstance(x, ca.MX): x = ca.SX.sym("X", *x.shape); x_mx = nlp["x"]; expand = True
  else: x_mx = None; expand = False                       -> (same normal form: no model term)
  if expand: F = ca.Function("f", [x_mx], [E]).expand(); E = F(x)   -> E unchanged (same normal form)
  ca.gradient(f, x)                                       -> C17.gradient x f
  ca.substitute(E, x, ca.DM.zeros(x.sparsity()))          -> C17.affAtZero E (rows) / C17.quadAtZero E (objective)
  ca.jacobian(E, x) / ca.jacobian(E, x, {"symmetric": True})  -> C17.jacobian x E
  if cache: .. else: ..                                   -> match cache with | some ch => .. | none => ..
  cache["A"], cache["b"] (read)                           -> ch.A, ch.b
  M.size1() / M.size2() (matrix), g.size1() (rows), x.size1() -> M.rows.length / M.ncol, g.length, x
  if not a == b: raise Exception(..)                      -> if !(a == b) then .error .. else <rest>
  if a == b: .. else: ..  (sizes)                         -> if a == b then .. else ..
  g[k:]                                                   -> g.drop k
  ca.vertcat(u, v)                                        -> C17.vcatVec u v (vectors) / C17.vcatMat u v (matrices)
  cache["A"] = A; cache["b"] = b                          -> cache after: { A := A, b := b }
  self._solver = ca.conic(_, solver_name, {"h": H.sparsity(), "a": A.sparsity()}, options)
                                                          -> (H, A must be the matrices stored under "h", "a")
  self._solver_in = {}; self._solver_in[k] = ca.DM(V)  (k in h, g, a) -> sin := { k := some V }
  self._b = ca.DM(b); self._f0 = ca.DM(f0)                -> b := b, f0 := f0
  Solver.__call__: self._solver_in[k] = ARG  (k in x0, lbx, ubx, lba, uba) -> { d with k := some i.ARG }
  ARG - self._b                                           -> C17.subVec i.ARG s.b, raising unless ARG.length == s.b.length
  solver_out = self._solver(**self._solver_in)            -> the dict is what the back-end receives
  solver_out["f"] = solver_out["cost"] + self._f0         -> cost + s.f0
  self.X = [] | {} | [[] for m in range(self.ensemble_size)] | [OrderedDict() for m in range(self.ensemble_size)]
           | True | False | 0 | None   (top level of optimize(), before the first loop / super().optimize)
                                                        -> ("X", emptyList | emptyDict | perMember | flag b | zero | none)
"""
import ast
import os

from .common import LEAN_DIR, REPO
from .translate import TranslationError, _find_method

OPT = os.path.join("src", "rtctools", "optimization")


def _tree(name):
    return ast.parse(open(os.path.join(REPO, OPT, name)).read())


def _write(name, text):
    gdir = os.path.join(LEAN_DIR, "RtcVerif", "Gen")
    os.makedirs(gdir, exist_ok=True)
    path = os.path.join(gdir, name + ".lean")
    old = open(path).read() if os.path.exists(path) else None
    if old != text:
        tmp = path + ".tmp%d" % os.getpid()
        with open(tmp, "w") as f:
            f.write(text)
        os.replace(tmp, path)


def _num(node):
    if isinstance(node, ast.UnaryOp) and isinstance(node.op, ast.USub):
        v = _num(node.operand)
        return None if v is None else -v
    if isinstance(node, ast.Constant) and isinstance(node.value, (int, float)) and not isinstance(node.value, bool):
        return node.value
    return None


def _lit(v):
    if float(v) != int(v):
        raise TranslationError("non-integral literal %r" % v)
    v = int(v)
    return "(%d)" % v if v < 0 else "%d" % v


def _is_np_inf(node, sign=1):
    if sign < 0:
        return isinstance(node, ast.UnaryOp) and isinstance(node.op, ast.USub) and _is_np_inf(node.operand)
    return isinstance(node, ast.Attribute) and node.attr == "inf" and isinstance(node.value, ast.Name) \
        and node.value.id == "np"


class _Arith:
    """arithmetic over a table of leaf terms; `leaf(node)` returns a Lean term or None"""

    def __init__(self, leaf):
        self.leaf = leaf

    def expr(self, node):
        t = self.leaf(node)
        if t is not None:
            return t
        v = _num(node)
        if v is not None:
            return _lit(v)
        if isinstance(node, ast.BinOp):
            op = {ast.Add: "+", ast.Sub: "-", ast.Mult: "*", ast.Div: "/"}.get(type(node.op))
            if op:
                a, b = self.expr(node.left), self.expr(node.right)
                # Python precedence/associativity is the AST; print fully left-nested like Lean parses it
                if isinstance(node.right, ast.BinOp):
                    b = "(%s)" % b
                if isinstance(node.left, ast.BinOp) and op in "*/" and isinstance(node.left.op, (ast.Add, ast.Sub)):
                    a = "(%s)" % a
                return "%s %s %s" % (a, op, b)
        raise TranslationError("unsupported expression " + ast.dump(node)[:140])


# ---------------------------------------------------------------------------------------------
# min-abs


def _minabs():
    tree = _tree("min_abs_goal_programming_mixin.py")
    # --- _ConvertedMinAbsGoal
    cls = next((n for n in ast.walk(tree) if isinstance(n, ast.ClassDef) and n.name == "_ConvertedMinAbsGoal"), None)
    if cls is None:
        raise TranslationError("_ConvertedMinAbsGoal not found")
    order = None
    for st in cls.body:
        if isinstance(st, ast.Assign) and len(st.targets) == 1 and isinstance(st.targets[0], ast.Name) \
                and st.targets[0].id == "order":
            order = _num(st.value)
    if order is None:
        raise TranslationError("_ConvertedMinAbsGoal.order is not a literal")
    init = _find_method(tree, "_ConvertedMinAbsGoal", "__init__")
    if [a.arg for a in init.args.args] != ["self", "abs_variable", "is_path_goal", "orig_goal"]:
        raise TranslationError("_ConvertedMinAbsGoal.__init__: unexpected signature")
    amap = {"size": "g.size", "weight": "g.weight", "relaxation": "g.relaxation", "function_nominal": "g.nominal",
            "priority": "g.priority"}

    def leaf(node):
        if isinstance(node, ast.Attribute) and isinstance(node.value, ast.Name) and node.value.id == "orig_goal":
            if node.attr in amap:
                return amap[node.attr]
            raise TranslationError("unknown attribute orig_goal." + node.attr)
        return None

    fields = {}
    for st in init.body:
        if isinstance(st, ast.Expr) and isinstance(st.value, ast.Constant):
            continue
        if isinstance(st, ast.Assign) and len(st.targets) == 1 and isinstance(st.targets[0], ast.Attribute) \
                and isinstance(st.targets[0].value, ast.Name) and st.targets[0].value.id == "self":
            name = st.targets[0].attr
            if name in ("abs_variable", "is_path_goal", "orig_goal") and isinstance(st.value, ast.Name) \
                    and st.value.id == name:
                continue
            if name in ("size", "weight", "relaxation", "priority"):
                fields[name] = _Arith(leaf).expr(st.value)
                continue
        raise TranslationError("_ConvertedMinAbsGoal.__init__: unsupported statement " + ast.dump(st)[:120])
    if set(fields) != {"size", "weight", "relaxation", "priority"}:
        raise TranslationError("_ConvertedMinAbsGoal.__init__ does not copy size/weight/relaxation/priority")
    # --- rows
    conv = _find_method(tree, "MinAbsGoalProgrammingMixin", "__convert_goals")
    cf = next((n for n in ast.walk(conv) if isinstance(n, ast.FunctionDef) and n.name == "_constraint_func"), None)
    if cf is None:
        raise TranslationError("__convert_goals._constraint_func not found")
    ret = [n for n in ast.walk(cf) if isinstance(n, ast.Return)]
    if len(ret) != 1:
        raise TranslationError("_constraint_func: expected one return")
    # abs_variable is rebound to the problem's symbol of its own name in both branches
    for n in ast.walk(cf):
        if isinstance(n, ast.Assign):
            ok = (len(n.targets) == 1 and isinstance(n.targets[0], ast.Name) and n.targets[0].id == "abs_variable"
                  and isinstance(n.value, ast.Call) and isinstance(n.value.func, ast.Attribute)
                  and n.value.func.attr in ("variable", "extra_variable")
                  and ast.dump(n.value.args[0]) == ast.dump(ast.parse("abs_variable.name()", mode="eval").body))
            if not ok:
                raise TranslationError("_constraint_func: unsupported assignment " + ast.dump(n)[:120])

    def rleaf(node):
        if isinstance(node, ast.Name) and node.id == "abs_variable":
            return "a"
        if isinstance(node, ast.Name) and node.id == "sign":
            return "SIGN"
        if isinstance(node, ast.Call) and isinstance(node.func, ast.Attribute) and node.func.attr == "function" \
                and isinstance(node.func.value, ast.Name) and node.func.value.id == "goal":
            return "f"
        if isinstance(node, ast.Attribute) and isinstance(node.value, ast.Name) and node.value.id == "goal" \
                and node.attr == "function_nominal":
            return "n"
        return None

    row = _Arith(rleaf).expr(ret[0].value)
    signs = {}
    for n in ast.walk(conv):
        if isinstance(n, ast.Assign) and isinstance(n.value, ast.Call) and isinstance(n.value.func, ast.Attribute) \
                and n.value.func.attr == "partial" and len(n.targets) == 1 and isinstance(n.targets[0], ast.Name):
            kw = {k.arg: _num(k.value) for k in n.value.keywords}
            if list(kw) != ["sign"] or kw["sign"] is None or not (len(n.value.args) == 1
                                                                   and isinstance(n.value.args[0], ast.Name)
                                                                   and n.value.args[0].id == "_constraint_func"):
                raise TranslationError("unsupported functools.partial " + ast.dump(n)[:120])
            signs[n.targets[0].id] = kw["sign"]
    rows = []
    for n in ast.walk(conv):
        if isinstance(n, ast.Call) and isinstance(n.func, ast.Name) and n.func.id == "_GoalConstraint":
            if len(n.args) != 5 or not isinstance(n.args[1], ast.Name) or n.args[1].id not in signs:
                raise TranslationError("unsupported _GoalConstraint " + ast.dump(n)[:120])
            if _num(n.args[2]) != 0 or not _is_np_inf(n.args[3]):
                raise TranslationError("min-abs row bounds are not (0.0, np.inf)")
            rows.append("decide (0 ≤ %s)" % row.replace("SIGN", _lit(signs[n.args[1].id])))
    if len(rows) != 2:
        raise TranslationError("expected two min-abs rows, found %d" % len(rows))
    # --- variable bound
    bnd = _find_method(tree, "MinAbsGoalProgrammingMixin", "bounds")
    vb = None
    for n in ast.walk(bnd):
        if isinstance(n, ast.Assign) and isinstance(n.targets[0], ast.Subscript) and isinstance(n.value, ast.Tuple):
            lo, hi = n.value.elts
            if _num(lo) == 0 and _is_np_inf(hi):
                vb = "decide (0 ≤ a)"
            else:
                raise TranslationError("bounds of the auxiliary variable are not (0.0, np.inf)")
    if vb is None:
        raise TranslationError("MinAbsGoalProgrammingMixin.bounds sets no bound")
    r1 = row.replace("SIGN", _lit(signs[[n for n in ast.walk(conv) if isinstance(n, ast.Call) and isinstance(n.func, ast.Name) and n.func.id == "_GoalConstraint"][0].args[1].id]))
    r2 = row.replace("SIGN", _lit(signs[[n for n in ast.walk(conv) if isinstance(n, ast.Call) and isinstance(n.func, ast.Name) and n.func.id == "_GoalConstraint"][1].args[1].id]))
    text = """import RtcVerif.Model.C17Code
import Mathlib.Algebra.Order.Field.Rat
import Mathlib.Tactic.Ring
/-! GENERATED by harness/translate_c17.py from min_abs_goal_programming_mixin.py
(`_ConvertedMinAbsGoal`, `__convert_goals`, `bounds`).  Do not edit. -/
namespace RtcVerif.Gen
open RtcVerif

def convertGoalGen (g : C17.AbsGoal) : C17.ConvGoal :=
  { size := %s, weight := %s, relaxation := %s, priority := %s, order := %s }

theorem convertGoalGen_eq_model (g : C17.AbsGoal) : convertGoalGen g = C17.convertGoal g := rfl

def minAbsFeasibleGen (f n a : Rat) : Bool :=
  %s && %s && %s

theorem minAbsFeasibleGen_eq_model (f n a : Rat) : minAbsFeasibleGen f n a = C17.minAbsFeasible f n a := by
  have h1 : %s = a + 1 * f / n := by ring
  have h2 : %s = a + (-1) * f / n := by ring
  unfold minAbsFeasibleGen C17.minAbsFeasible
  first | rfl | rw [h1, h2] | rw [h1] | rw [h2]

end RtcVerif.Gen
""" % (fields["size"], fields["weight"], fields["relaxation"], fields["priority"], _lit(order), rows[0], rows[1], vb,
       r1, r2)
    _write("C17MinAbs", text)
    return ("RtcVerif.Gen.C17MinAbs", "RtcVerif.Gen", ["convertGoalGen_eq_model", "minAbsFeasibleGen_eq_model"])


# ---------------------------------------------------------------------------------------------
# linearised order


class _Arr:
    """array expressions of `_get_linear_coefficients`"""

    def __init__(self):
        self.env = {}

    def expr(self, node):
        if isinstance(node, ast.Name):
            if node.id in self.env:
                return self.env[node.id]
            if node.id == "order":
                return ("r", "nat")
            raise TranslationError("unknown name " + node.id)
        if isinstance(node, ast.Subscript) and isinstance(node.slice, ast.Slice) and node.slice.step is None:
            v, t = self.expr(node.value)
            lo, hi = node.slice.lower, node.slice.upper
            if t == "arr" and _num(lo) == 1 and hi is None:
                return ("(C17.sliceFrom1 %s)" % v, "arr")
            if t == "arr" and lo is None and hi is not None and _num(hi) == -1:
                return ("(C17.sliceToLast %s)" % v, "arr")
            raise TranslationError("unsupported slice")
        if isinstance(node, ast.BinOp):
            if isinstance(node.op, ast.Pow):
                (a, ta), (b, tb) = self.expr(node.left), self.expr(node.right)
                if ta == "arr" and tb == "nat":
                    return ("(%s.map (· ^ %s))" % (a, b), "arr")
                raise TranslationError("unsupported power")
            op = {ast.Add: "+", ast.Sub: "-", ast.Mult: "*", ast.Div: "/"}.get(type(node.op))
            if op:
                (a, ta), (b, tb) = self.expr(node.left), self.expr(node.right)
                if ta == tb == "arr":
                    return ("(C17.ew (· %s ·) %s %s)" % (op, a, b), "arr")
            raise TranslationError("unsupported array operation " + ast.dump(node)[:100])
        if isinstance(node, ast.Call) and isinstance(node.func, ast.Attribute) and node.func.attr == "array" \
                and len(node.args) == 1:
            return self.expr(node.args[0])
        if isinstance(node, ast.Call) and isinstance(node.func, ast.Name) and node.func.id == "list" \
                and len(node.args) == 1 and isinstance(node.args[0], ast.Call) \
                and isinstance(node.args[0].func, ast.Name) and node.args[0].func.id == "zip" \
                and len(node.args[0].args) == 2:
            (a, ta), (b, tb) = self.expr(node.args[0].args[0]), self.expr(node.args[0].args[1])
            if ta == tb == "arr":
                return ("List.zip %s %s" % (a, b), "table")
        raise TranslationError("unsupported expression " + ast.dump(node)[:140])


def _linorder():
    tree = _tree("linearized_order_goal_programming_mixin.py")
    fn = _find_method(tree, "LinearizedOrderGoal", "_get_linear_coefficients")
    body = fn.body
    k = next((i for i, st in enumerate(body) if isinstance(st, ast.While)), None)
    if k is None:
        raise TranslationError("_get_linear_coefficients: root-finder loop not found")
    # cache: `return cls._linear_coefficients[K1][K2]` before the loop, `.setdefault(K1, {})[K2] = lines` after
    def key2(node):
        if isinstance(node, ast.Subscript) and isinstance(node.slice, ast.Name):
            inner = node.value
            if isinstance(inner, ast.Subscript) and isinstance(inner.slice, ast.Name) \
                    and ast.dump(inner.value) == ast.dump(ast.parse("cls._linear_coefficients", mode="eval").body):
                return [inner.slice.id, node.slice.id]
            if isinstance(inner, ast.Call) and isinstance(inner.func, ast.Attribute) and inner.func.attr == "setdefault" \
                    and ast.dump(inner.func.value) == ast.dump(ast.parse("cls._linear_coefficients", mode="eval").body) \
                    and len(inner.args) == 2 and isinstance(inner.args[0], ast.Name) \
                    and isinstance(inner.args[1], ast.Dict) and not inner.args[1].keys:
                return [inner.args[0].id, node.slice.id]
        return None

    lookups = [key2(n.value) for st in body[:k] for n in ast.walk(st) if isinstance(n, ast.Return)]
    stores = [key2(st.targets[0]) for st in body[k + 1:] if isinstance(st, ast.Assign) and len(st.targets) == 1
              and "_linear_coefficients" in ast.dump(st.targets[0])]
    if len(lookups) != 1 or lookups[0] is None or len(stores) != 1 or stores[0] is None:
        raise TranslationError("_get_linear_coefficients: cache lookup / store not of the form "
                               "cls._linear_coefficients[k1][k2] / .setdefault(k1, {})[k2] = lines")
    if any(kk not in ("order", "eps", "kind") for kk in lookups[0] + stores[0]):
        raise TranslationError("_get_linear_coefficients: cache key is not built from the arguments")
    key_lookup = "[%s]" % ", ".join('"%s"' % x for x in lookups[0])
    key_store = "[%s]" % ", ".join('"%s"' % x for x in stores[0])
    A = _Arr()
    A.env["xs"] = ("xs", "arr")  # knots produced by the root-finder loop (abstract)
    table = None
    for st in body[k + 1:]:
        if isinstance(st, ast.Expr) and isinstance(st.value, ast.Constant):
            continue
        if isinstance(st, ast.Assign) and len(st.targets) == 1:
            tg = st.targets[0]
            if isinstance(tg, ast.Subscript) and isinstance(tg.value, ast.Name) and tg.value.id == "xs" \
                    and _num(tg.slice) == -1 and _num(st.value) is not None:
                A.env["xs"] = ("(C17.setLast %s %s)" % (A.env["xs"][0], _lit(_num(st.value))), "arr")
                continue
            if isinstance(tg, ast.Name):
                A.env[tg.id] = A.expr(st.value)
                continue
        if isinstance(st, ast.Assign) and "setdefault" in ast.dump(st.targets[0]):
            continue  # the cache store: its key is translated above
        if isinstance(st, ast.Return):
            table = A.expr(st.value)
            continue
        raise TranslationError("_get_linear_coefficients: unsupported statement " + ast.dump(st)[:120])
    if table is None or table[1] != "table":
        raise TranslationError("_get_linear_coefficients does not return zip(a, b)")
    # --- row, n_active, objective in _gp_goal_constraints
    gc = _find_method(tree, "LinearizedOrderGoalProgrammingMixin", "_gp_goal_constraints")
    f = next((n for n in ast.walk(gc) if isinstance(n, ast.FunctionDef) and n.name == "_f"), None)
    if f is None:
        raise TranslationError("_gp_goal_constraints._f not found")
    ret = [n for n in ast.walk(f) if isinstance(n, ast.Return)]
    if len(ret) != 1:
        raise TranslationError("_f: expected one return")

    def rleaf(node):
        if isinstance(node, ast.Name) and node.id in ("lin", "eps", "a", "b"):
            return node.id
        return None

    row = _Arith(rleaf).expr(ret[0].value)
    gcs = [n for n in ast.walk(gc) if isinstance(n, ast.Call) and isinstance(n.func, ast.Name)
           and n.func.id == "_GoalConstraint"]
    if len(gcs) != 1 or _num(gcs[0].args[2]) != 0 or not _is_np_inf(gcs[0].args[3]) \
            or not (isinstance(gcs[0].args[1], ast.Name) and gcs[0].args[1].id == "_f"):
        raise TranslationError("linearised rows are not _GoalConstraint(goal, _f, 0.0, np.inf, ..)")
    # n_active: the `if is_path_goal and options["scale_by_problem_size"]` statement assigning n_active
    ifs = [n for n in ast.walk(gc) if isinstance(n, ast.If)
           and any(isinstance(t, ast.Name) and t.id == "n_active" for s in n.body if isinstance(s, ast.Assign)
                   for t in s.targets)]
    if len(ifs) != 1:
        raise TranslationError("n_active branch not found")
    cond = ifs[0].test
    want = ast.dump(ast.parse('is_path_goal and options["scale_by_problem_size"]', mode="eval").body)
    if ast.dump(cond) != want:
        raise TranslationError("n_active condition is not `is_path_goal and options[\"scale_by_problem_size\"]`")
    env = {}

    def nexpr(node):
        d = ast.dump(node)
        if isinstance(node, ast.Name) and node.id in env:
            return env[node.id]
        if d == ast.dump(ast.parse("np.isfinite(goal_m) | np.isfinite(goal_M)", mode="eval").body) \
                and env.get("goal_m") == ("tmin", "mat") and env.get("goal_M") == ("tmax", "mat"):
            return ("(fun c i => (g.tmin.entry c i).isFinite || (g.tmax.entry c i).isFinite)", "bmat")
        if isinstance(node, ast.Call) and isinstance(node.func, ast.Attribute) and node.func.attr == "sum" \
                and isinstance(node.func.value, ast.Name) and node.func.value.id == "np" and len(node.args) == 1 \
                and [(k.arg, _num(k.value)) for k in node.keywords] == [("axis", -1)]:
            a = node.args[0]
            if isinstance(a, ast.Call) and isinstance(a.func, ast.Attribute) and a.func.attr == "astype" \
                    and len(a.args) == 1 and isinstance(a.args[0], ast.Name) and a.args[0].id == "int":
                m, t = nexpr(a.func.value)
                if t == "bmat":
                    return ("(fun c => ((List.range T).filter (%s c)).length)" % m, "cnt")
        if isinstance(node, ast.Call) and isinstance(node.func, ast.Attribute) and node.func.attr == "maximum" \
                and len(node.args) == 2 and _num(node.args[1]) is not None:
            m, t = nexpr(node.args[0])
            if t == "cnt":
                return ("(fun c => max (%s c) %s)" % (m, _lit(_num(node.args[1]))), "cnt")
        if _num(node) is not None:
            return ("(fun _ => %s)" % _lit(_num(node)), "cnt")
        raise TranslationError("n_active: unsupported expression " + d[:140])

    def nblock(stmts):
        for st in stmts:
            if isinstance(st, ast.Expr) and isinstance(st.value, ast.Constant):
                continue
            if isinstance(st, ast.Assign) and len(st.targets) == 1:
                tg = st.targets[0]
                if isinstance(tg, ast.Tuple) and [e.id for e in tg.elts] == ["goal_m", "goal_M"] \
                        and ast.dump(st.value) == ast.dump(ast.parse(
                            "self._gp_min_max_arrays(goal, target_shape=len(self.times()))", mode="eval").body):
                    env["goal_m"], env["goal_M"] = ("tmin", "mat"), ("tmax", "mat")
                    continue
                if isinstance(tg, ast.Name):
                    env[tg.id] = nexpr(st.value)
                    continue
            raise TranslationError("n_active: unsupported statement " + ast.dump(st)[:120])
        if "n_active" not in env or env["n_active"][1] != "cnt":
            raise TranslationError("n_active is not a per-component count")
        return env["n_active"][0]

    n_then = nblock(ifs[0].body)
    env = {}
    n_else = nblock(ifs[0].orelse)
    of = next((n for n in ast.walk(gc) if isinstance(n, ast.FunctionDef) and n.name == "_objective_func"), None)
    if of is None:
        raise TranslationError("_objective_func not found")
    oret = [n for n in ast.walk(of) if isinstance(n, ast.Return)]

    def oleaf(node):
        if isinstance(node, ast.Attribute) and isinstance(node.value, ast.Name) and node.value.id == "goal" \
                and node.attr == "weight":
            return "w"
        if isinstance(node, ast.Name) and node.id == "lin":
            return "lin"
        if isinstance(node, ast.Name) and node.id == "n_active":
            return "nActive"
        return None

    if len(oret) != 1:
        raise TranslationError("_objective_func: expected one return")
    obj = _Arith(oleaf).expr(oret[0].value)
    text = """import RtcVerif.Model.C17Code
import Mathlib.Algebra.Order.Field.Rat
import Mathlib.Tactic.Ring
/-! GENERATED by harness/translate_c17.py from linearized_order_goal_programming_mixin.py
(`_get_linear_coefficients` after the root-finder loop; row, n_active and objective of
`_gp_goal_constraints`).  Do not edit. -/
namespace RtcVerif.Gen
open RtcVerif

/-- `xs`: the knots appended by the root-finder loop -/
def linearTableGen (r : Nat) (xs : List Rat) : List (Rat × Rat) :=
  %s

theorem linearTableGen_eq_model (r : Nat) (xs : List Rat) :
    linearTableGen r xs = C17.coeffs r (C17.setLast xs 1) := by
  rw [← C17.coeffsCode_eq]; rfl

/-- cache key of the lookup before and of the store after the computation -/
def linCacheLookupKeyGen : List String := %s
def linCacheStoreKeyGen : List String := %s

theorem linCacheKeyGen_eq_model :
    linCacheLookupKeyGen = C17.linCacheKey ∧ linCacheStoreKeyGen = C17.linCacheKey := by decide

def linRowGen (a b eps lin : Rat) : Bool := decide (0 ≤ %s)

theorem linRowGen_eq_model (a b eps lin : Rat) : linRowGen a b eps lin = C17.linRowFeasible (a, b) eps lin := by
  have h : %s = lin - a * eps - b := by ring
  unfold linRowGen C17.linRowFeasible
  first | rfl | rw [h]

def linNActiveGen (g : C03.Goal) (sbs isPath : Bool) (T c : Nat) : Rat :=
  if isPath && sbs then ((%s c : Nat) : Rat) else ((%s c : Nat) : Rat)

theorem linNActiveGen_eq_model (g : C03.Goal) (sbs isPath : Bool) (T c : Nat) (hb : g.hasBounds = true) :
    linNActiveGen g sbs isPath T c = g.nActive sbs isPath T c := by
  unfold linNActiveGen C03.Goal.nActive
  rw [hb]
  cases isPath <;> cases sbs <;> first | rfl | simp

def linObjectiveGen (w lin nActive : Rat) : Rat := %s

theorem linObjectiveGen_eq_model (w lin nActive : Rat) : linObjectiveGen w lin nActive = C17.linObjective w lin nActive := by
  unfold linObjectiveGen C17.linObjective
  ring

end RtcVerif.Gen
""" % (table[0], key_lookup, key_store, row, row, n_then, n_else, obj)
    _write("C17LinOrder", text)
    return ("RtcVerif.Gen.C17LinOrder", "RtcVerif.Gen",
            ["linearTableGen_eq_model", "linCacheKeyGen_eq_model", "linRowGen_eq_model", "linNActiveGen_eq_model",
             "linObjectiveGen_eq_model"])


# ---------------------------------------------------------------------------------------------
# bounds of the retained objective row


def _is_opt(node, key):
    return isinstance(node, ast.Subscript) and isinstance(node.value, ast.Name) and node.value.id == "options" \
        and isinstance(node.slice, ast.Constant) and node.slice.value == key


def _objbnd_branch(stmts):
    v = ".fin v"

    def val(node):
        if isinstance(node, ast.Name) and node.id == "obj_val":
            return v
        if _is_np_inf(node, -1):
            return ".ninf"
        if _is_np_inf(node):
            return ".pinf"
        raise TranslationError("objective bound: unsupported value " + ast.dump(node)[:100])

    out = None
    for st in stmts:
        if isinstance(st, ast.Expr) and isinstance(st.value, ast.Constant):
            continue
        if isinstance(st, ast.AugAssign) and isinstance(st.op, ast.Add) and isinstance(st.target, ast.Name) \
                and st.target.id == "obj_val" and _is_opt(st.value, "constraint_relaxation"):
            if v != ".fin v":
                raise TranslationError("objective bound: relaxation added twice")
            v = ".fin (v + cr)"
            continue
        if isinstance(st, ast.Assign) and len(st.targets) == 1:
            tg = st.targets[0]
            if isinstance(tg, ast.Attribute) and isinstance(tg.value, ast.Name) and tg.value.id == "self" \
                    and tg.attr in ("linear_collocation", "check_collocation_linearity"):
                continue
            if isinstance(tg, ast.Tuple) and [getattr(e, "id", None) for e in tg.elts] == ["lb", "ub"] \
                    and isinstance(st.value, ast.Tuple) and len(st.value.elts) == 2:
                out = (val(st.value.elts[0]), val(st.value.elts[1]))
                continue
            if isinstance(tg, ast.Name) and tg.id == "constraint" and isinstance(st.value, ast.Call) \
                    and isinstance(st.value.func, ast.Name) and st.value.func.id == "_GoalConstraint" \
                    and len(st.value.args) == 5:
                out = (val(st.value.args[2]), val(st.value.args[3]))
                continue
        raise TranslationError("objective bound: unsupported statement " + ast.dump(st)[:120])
    if out is None:
        raise TranslationError("objective bound: no bounds assigned")
    return "(%s, %s)" % out


def _objbnd():
    parts = {}
    for key, file, cls, meth in (("sp", "single_pass_goal_programming_mixin.py", "SinglePassGoalProgrammingMixin", "transcribe"),
                                 ("ks", "goal_programming_mixin.py", "GoalProgrammingMixin",
                                  "__add_subproblem_objective_constraint")):
        fn = _find_method(_tree(file), cls, meth)
        ifs = [n for n in ast.walk(fn) if isinstance(n, ast.If) and _is_opt(n.test, "fix_minimized_values")]
        if len(ifs) != 1:
            raise TranslationError("%s.%s: branch on options[\"fix_minimized_values\"] not found" % (cls, meth))
        parts[key] = "if fix then %s else %s" % (_objbnd_branch(ifs[0].body), _objbnd_branch(ifs[0].orelse))
    text = """import RtcVerif.Model.C17Code
/-! GENERATED by harness/translate_c17.py from `SinglePassGoalProgrammingMixin.transcribe` and
`GoalProgrammingMixin.__add_subproblem_objective_constraint` (bounds of the retained objective row).
Do not edit. -/
namespace RtcVerif.Gen
open RtcVerif

def objBndSinglePassGen (fix : Bool) (v cr : Rat) : EVal × EVal := %s
def objBndKeepSoftGen (fix : Bool) (v cr : Rat) : EVal × EVal := %s

theorem objBndSinglePassGen_eq_model (fix : Bool) (v cr : Rat) : objBndSinglePassGen fix v cr = C17.objBnd fix v cr := by
  cases fix <;> rfl

theorem objBndKeepSoftGen_eq_model (fix : Bool) (v cr : Rat) : objBndKeepSoftGen fix v cr = C17.objBnd fix v cr := by
  cases fix <;> rfl

end RtcVerif.Gen
""" % (parts["sp"], parts["ks"])
    _write("C17ObjBnd", text)
    return ("RtcVerif.Gen.C17ObjBnd", "RtcVerif.Gen", ["objBndSinglePassGen_eq_model", "objBndKeepSoftGen_eq_model"])


# ---------------------------------------------------------------------------------------------
# resets at the start of optimize()


def _fresh(node):
    if isinstance(node, ast.List) and not node.elts:
        return ".emptyList"
    if isinstance(node, ast.Dict) and not node.keys:
        return ".emptyDict"
    if isinstance(node, ast.Constant):
        if node.value is True:
            return ".flag true"
        if node.value is False:
            return ".flag false"
        if node.value is None:
            return ".none"
        if node.value == 0 and not isinstance(node.value, bool):
            return ".zero"
    if isinstance(node, ast.ListComp) and len(node.generators) == 1 and not node.generators[0].ifs:
        g = node.generators[0]
        it = ast.dump(g.iter) == ast.dump(ast.parse("range(self.ensemble_size)", mode="eval").body)
        e = node.elt
        el = (isinstance(e, ast.List) and not e.elts) or (isinstance(e, ast.Call) and isinstance(e.func, ast.Name)
                                                          and e.func.id == "OrderedDict" and not e.args)
        if it and el and isinstance(g.target, ast.Name):
            return ".perMember"
    return None


def _resets(fn):
    """unconditional `self.X = <fresh>` at the top level of optimize(), before the first loop that solves
    (a `for` containing a call of super().optimize) or the call of super().optimize itself"""
    out = {}
    for st in fn.body:
        d = ast.dump(st)
        if isinstance(st, (ast.For, ast.While)) and "priority_started" in d:
            break
        if isinstance(st, ast.Return):
            break
        if isinstance(st, ast.Assign) and len(st.targets) == 1 and isinstance(st.targets[0], ast.Attribute) \
                and isinstance(st.targets[0].value, ast.Name) and st.targets[0].value.id == "self":
            fv = _fresh(st.value)
            if fv is not None:
                out[st.targets[0].attr] = fv
            else:
                out.pop(st.targets[0].attr, None)
    return out


def _reset():
    parts = []
    for name, file, cls, model in (("gpmResetGen", "goal_programming_mixin.py", "GoalProgrammingMixin", "gpmReset"),
                                   ("singlePassResetGen", "single_pass_goal_programming_mixin.py",
                                    "SinglePassGoalProgrammingMixin", "singlePassReset"),
                                   ("minAbsResetGen", "min_abs_goal_programming_mixin.py",
                                    "MinAbsGoalProgrammingMixin", "minAbsReset")):
        r = _resets(_find_method(_tree(file), cls, "optimize"))
        # attributes that are bookkeeping of the run itself, not state carried between runs
        for k in ("skip_priority",):
            r.pop(k, None)
        items = ",\n   ".join('("%s", %s)' % (k, r[k]) for k in sorted(r))
        parts.append((name, model, items))
    defs = "\n".join("def %s : List (String × C17.Fresh) :=\n  [%s]\n\ntheorem %s_eq_model : %s = C17.%s := by decide\n"
                     % (n, items, n, n, m) for n, m, items in parts)
    text = """import RtcVerif.Model.C17Code
/-! GENERATED by harness/translate_c17.py from the `optimize()` methods of GoalProgrammingMixin,
SinglePassGoalProgrammingMixin and MinAbsGoalProgrammingMixin: the attributes assigned a fresh value
unconditionally before the first priority is solved (sorted by name).  Do not edit. -/
namespace RtcVerif.Gen
open RtcVerif

%s
end RtcVerif.Gen
""" % defs
    _write("C17Reset", text)
    return ("RtcVerif.Gen.C17Reset", "RtcVerif.Gen", [n + "_eq_model" for n, _, _ in parts])


# ---------------------------------------------------------------------------------------------
# CachingQPSol


def _d(src):
    return ast.dump(ast.parse(src, mode="eval").body)


def _ds(src):
    return ast.dump(ast.parse(src).body[0])


class _Caching:
    """symbolic execution of `Solver.__init__`; env: python local -> (lean term, type) with types
    sym (x) | quad | aff | vec | rat | mat | nat | cachedict"""

    def __init__(self):
        self.lets = 0

    def v(self, name):
        return "v_" + name

    def expr(self, node, env, in_cache):
        d = ast.dump(node)
        if isinstance(node, ast.Name):
            if node.id in env:
                return env[node.id]
            raise TranslationError("CachingQPSol: unknown name " + node.id)
        if isinstance(node, ast.Subscript) and isinstance(node.value, ast.Name) and node.value.id == "cache" \
                and isinstance(node.slice, ast.Constant):
            if not in_cache:
                raise TranslationError("CachingQPSol: cache[..] read outside `if cache:`")
            if node.slice.value == "A":
                return ("ch.A", "mat")
            if node.slice.value == "b":
                return ("ch.b", "vec")
            raise TranslationError("CachingQPSol: unknown cache key %r" % node.slice.value)
        if isinstance(node, ast.Subscript) and isinstance(node.slice, ast.Slice) and node.slice.upper is None \
                and node.slice.step is None and node.slice.lower is not None:
            (a, ta), (k, tk) = self.expr(node.value, env, in_cache), self.expr(node.slice.lower, env, in_cache)
            if ta == "aff" and tk == "nat":
                return ("(%s.drop %s)" % (a, k), "aff")
            raise TranslationError("CachingQPSol: unsupported slice " + d[:100])
        if isinstance(node, ast.Call) and isinstance(node.func, ast.Attribute):
            fn = node.func
            # X.size1() / X.size2()
            if fn.attr in ("size1", "size2") and not node.args and not node.keywords:
                a, ta = self.expr(fn.value, env, in_cache)
                if ta == "mat":
                    return ("%s.rows.length" % a if fn.attr == "size1" else "%s.ncol" % a, "nat")
                if ta == "aff" and fn.attr == "size1":
                    return ("%s.length" % a, "nat")
                if ta == "sym" and fn.attr == "size1":
                    return (a, "nat")
                raise TranslationError("CachingQPSol: unsupported size query " + d[:100])
            if isinstance(fn.value, ast.Name) and fn.value.id == "ca" and not node.keywords:
                args = node.args
                if fn.attr == "gradient" and len(args) == 2:
                    (a, ta), (x, tx) = self.expr(args[0], env, in_cache), self.expr(args[1], env, in_cache)
                    if ta == "quad" and tx == "sym":
                        return ("(C17.gradient %s %s)" % (x, a), "aff")
                if fn.attr == "substitute" and len(args) == 3:
                    (a, ta), (x, tx) = self.expr(args[0], env, in_cache), self.expr(args[1], env, in_cache)
                    z = args[2]
                    zero_ok = (isinstance(z, ast.Call) and ast.dump(z.func) == _d("ca.DM.zeros") and len(z.args) == 1
                               and isinstance(z.args[0], ast.Call) and isinstance(z.args[0].func, ast.Attribute)
                               and z.args[0].func.attr == "sparsity" and not z.args[0].args
                               and self.expr(z.args[0].func.value, env, in_cache) == (x, "sym"))
                    if tx == "sym" and zero_ok:
                        if ta == "aff":
                            return ("(C17.affAtZero %s)" % a, "vec")
                        if ta == "quad":
                            return ("(C17.quadAtZero %s)" % a, "rat")
                if fn.attr == "jacobian" and len(args) in (2, 3):
                    (a, ta), (x, tx) = self.expr(args[0], env, in_cache), self.expr(args[1], env, in_cache)
                    if len(args) == 3 and ast.dump(args[2]) != _d('{"symmetric": True}'):
                        raise TranslationError("CachingQPSol: unsupported jacobian options")
                    if ta == "aff" and tx == "sym":
                        return ("(C17.jacobian %s %s)" % (x, a), "mat")
                if fn.attr == "vertcat" and len(args) == 2:
                    (a, ta), (b, tb) = self.expr(args[0], env, in_cache), self.expr(args[1], env, in_cache)
                    if ta == tb == "vec":
                        return ("(C17.vcatVec %s %s)" % (a, b), "vec")
                    if ta == tb == "mat":
                        return ("(C17.vcatMat %s %s)" % (a, b), "mat")
        raise TranslationError("CachingQPSol: unsupported expression " + d[:160])

    def is_expand_if(self, st, env):
        """`if expand: F = ca.Function("f", [x_mx], [E]).expand(); E = F(x)` -> name of E"""
        if not (isinstance(st, ast.If) and isinstance(st.test, ast.Name) and st.test.id == "expand"
                and not st.orelse and len(st.body) == 2 and "expand" in env and "x_mx" in env):
            return None
        a, b = st.body
        if not (isinstance(a, ast.Assign) and len(a.targets) == 1 and isinstance(a.targets[0], ast.Name)
                and isinstance(b, ast.Assign) and len(b.targets) == 1 and isinstance(b.targets[0], ast.Name)):
            return None
        fname, e = a.targets[0].id, b.targets[0].id
        if e not in env or env[e][1] not in ("quad", "aff"):
            return None
        xname = next((k for k, v in env.items() if v[1] == "sym"), None)
        if ast.dump(a.value) == _d('ca.Function("f", [x_mx], [%s]).expand()' % e) \
                and ast.dump(b.value) == _d("%s(%s)" % (fname, xname)):
            return e
        return None

    def block(self, stmts, env, in_cache, tail, ind):
        """returns Lean text for the statements followed by `tail(env)`"""
        pad = "  " * ind
        if not stmts:
            return tail(env, ind)
        st, rest = stmts[0], stmts[1:]
        if isinstance(st, ast.Expr) and isinstance(st.value, ast.Constant):
            return self.block(rest, env, in_cache, tail, ind)
        # nlp[...] reads
        if isinstance(st, ast.Assign) and len(st.targets) == 1 and isinstance(st.targets[0], ast.Name):
            tg = st.targets[0].id
            for key, term, ty in (("x", "p.n", "sym"), ("f", "p.f", "quad"), ("g", "p.g", "aff")):
                if ast.dump(st.value) == _d('nlp["%s"]' % key):
                    env = dict(env)
                    env[tg] = (self.v(tg), ty)
                    return "%slet %s := %s\n" % (pad, self.v(tg), term) + self.block(rest, env, in_cache, tail, ind)
            val, ty = self.expr(st.value, env, in_cache)
            env = dict(env)
            env[tg] = (self.v(tg), ty)
            return "%slet %s := %s\n" % (pad, self.v(tg), val) + self.block(rest, env, in_cache, tail, ind)
        if isinstance(st, ast.If):
            # MX -> SX re-expression: no model term
            if ast.dump(st.test) == _d("isinstance(x, ca.MX)"):
                body = sorted(ast.dump(b) for b in st.body)
                orelse = sorted(ast.dump(b) for b in st.orelse)
                want_b = sorted([_ds('x = ca.SX.sym("X", *x.shape)'), _ds('x_mx = nlp["x"]'), _ds("expand = True")])
                want_e = sorted([_ds("x_mx = None"), _ds("expand = False")])
                if body != want_b or orelse != want_e or "x" not in env or env["x"][1] != "sym":
                    raise TranslationError("CachingQPSol: unexpected MX/SX re-expression block")
                env = dict(env)
                env["expand"] = ("", "flag")
                env["x_mx"] = ("", "mx")
                return self.block(rest, env, in_cache, tail, ind)
            e = self.is_expand_if(st, env)
            if e is not None:
                return self.block(rest, env, in_cache, tail, ind)
            if isinstance(st.test, ast.Name) and st.test.id == "cache":
                if in_cache is not None:
                    raise TranslationError("CachingQPSol: nested `if cache:`")
                a = self.block(st.body + rest, env, True, tail, ind + 1)
                b = self.block(st.orelse + rest, env, False, tail, ind + 1)
                return "%smatch cache with\n%s| some ch =>\n%s%s| none =>\n%s" % (pad, pad, a, pad, b)
            # guard: if not A == B: raise Exception(..)
            t = st.test
            if isinstance(t, ast.UnaryOp) and isinstance(t.op, ast.Not) and isinstance(t.operand, ast.Compare) \
                    and len(t.operand.ops) == 1 and isinstance(t.operand.ops[0], ast.Eq) and not st.orelse \
                    and len(st.body) == 1 and isinstance(st.body[0], ast.Raise):
                (a, ta) = self.expr(t.operand.left, env, in_cache)
                (b, tb) = self.expr(t.operand.comparators[0], env, in_cache)
                if ta == tb == "nat":
                    return ('%sif !(%s == %s) then .error "Number of variables does not match cached constraint matrix '
                            'dimensions"\n%selse\n' % (pad, a, b, pad)) + self.block(rest, env, in_cache, tail, ind + 1)
            if isinstance(t, ast.Compare) and len(t.ops) == 1 and isinstance(t.ops[0], ast.Eq) and st.orelse:
                (a, ta) = self.expr(t.left, env, in_cache)
                (b, tb) = self.expr(t.comparators[0], env, in_cache)
                if ta == tb == "nat":
                    x = self.block(st.body + rest, env, in_cache, tail, ind + 1)
                    y = self.block(st.orelse + rest, env, in_cache, tail, ind + 1)
                    return "%sif %s == %s then\n%s%selse\n%s" % (pad, a, b, x, pad, y)
            raise TranslationError("CachingQPSol: unsupported branch " + ast.dump(st.test)[:120])
        # stores and the solver object: collected by the tail
        return self.block(rest, self.store(st, env, in_cache), in_cache, tail, ind)

    def store(self, st, env, in_cache):
        env = dict(env)
        out = dict(env.get("@out", {}))
        env["@out"] = out
        if isinstance(st, ast.Assign) and len(st.targets) == 1:
            tg = st.targets[0]
            dm = st.value
            inner = dm.args[0] if (isinstance(dm, ast.Call) and ast.dump(dm.func) == _d("ca.DM") and len(dm.args) == 1
                                   and not dm.keywords) else None
            if isinstance(tg, ast.Subscript) and isinstance(tg.value, ast.Name) and tg.value.id == "cache" \
                    and isinstance(tg.slice, ast.Constant) and tg.slice.value in ("A", "b"):
                if in_cache is None:
                    raise TranslationError("CachingQPSol: cache store before the `if cache:` decision")
                val, ty = self.expr(st.value, env, in_cache)
                if ty != {"A": "mat", "b": "vec"}[tg.slice.value] or ("cache", tg.slice.value) in out:
                    raise TranslationError("CachingQPSol: cache[%r] store of the wrong kind / twice" % tg.slice.value)
                out[("cache", tg.slice.value)] = val
                return env
            if isinstance(tg, ast.Attribute) and isinstance(tg.value, ast.Name) and tg.value.id == "self":
                if tg.attr == "_solver_in" and isinstance(st.value, ast.Dict) and not st.value.keys:
                    if any(k[0] == "sin" for k in out):
                        raise TranslationError("CachingQPSol: _solver_in re-created after entries were set")
                    out[("sin0",)] = True
                    return env
                if tg.attr in ("_b", "_f0") and inner is not None:
                    val, ty = self.expr(inner, env, in_cache)
                    if ty != {"_b": "vec", "_f0": "rat"}[tg.attr] or ("attr", tg.attr) in out:
                        raise TranslationError("CachingQPSol: self.%s of the wrong kind / twice" % tg.attr)
                    out[("attr", tg.attr)] = val
                    return env
                if tg.attr == "_solver":
                    c = st.value
                    if isinstance(c, ast.Call) and ast.dump(c.func) == _d("ca.conic") and len(c.args) == 4 \
                            and not c.keywords and isinstance(c.args[1], ast.Name) and c.args[1].id == "solver_name" \
                            and isinstance(c.args[3], ast.Name) and c.args[3].id == "options" \
                            and isinstance(c.args[2], ast.Dict) \
                            and sorted(getattr(k, "value", None) for k in c.args[2].keys) == ["a", "h"]:
                        for k, vnode in zip(c.args[2].keys, c.args[2].values):
                            if not (isinstance(vnode, ast.Call) and isinstance(vnode.func, ast.Attribute)
                                    and vnode.func.attr == "sparsity" and not vnode.args):
                                raise TranslationError("CachingQPSol: conic structure entry is not a sparsity()")
                            val, ty = self.expr(vnode.func.value, env, in_cache)
                            if ty != "mat":
                                raise TranslationError("CachingQPSol: conic structure entry is not a matrix")
                            out[("pattern", k.value)] = val
                        return env
            if isinstance(tg, ast.Subscript) and ast.dump(tg.value) == _d("self._solver_in") \
                    and isinstance(tg.slice, ast.Constant) and tg.slice.value in ("h", "g", "a") and inner is not None:
                if ("sin0",) not in out:
                    raise TranslationError("CachingQPSol: _solver_in used before it is created")
                val, ty = self.expr(inner, env, in_cache)
                if ty != {"h": "mat", "g": "vec", "a": "mat"}[tg.slice.value] or ("sin", tg.slice.value) in out:
                    raise TranslationError("CachingQPSol: _solver_in[%r] of the wrong kind / twice" % tg.slice.value)
                out[("sin", tg.slice.value)] = val
                return env
        raise TranslationError("CachingQPSol.Solver.__init__: unsupported statement " + ast.dump(st)[:140])

    def tail(self, env, ind):
        out = env.get("@out", {})
        need = [("cache", "A"), ("cache", "b"), ("sin0",), ("sin", "h"), ("sin", "g"), ("sin", "a"), ("attr", "_b"),
                ("attr", "_f0"), ("pattern", "h"), ("pattern", "a")]
        miss = [k for k in need if k not in out]
        if miss:
            raise TranslationError("CachingQPSol.Solver.__init__: missing " + ", ".join("/".join(k) for k in miss))
        for k in ("h", "a"):
            if out[("pattern", k)] != out[("sin", k)]:
                raise TranslationError("CachingQPSol: the conic solver is created for the sparsity of another matrix "
                                       "than the one passed as %r" % k)
        pad = "  " * ind
        return ("%sExcept.ok ({ sin := { h := some %s, g := some %s, a := some %s }, b := %s, f0 := %s },\n"
                "%s           { A := %s, b := %s })\n"
                % (pad, out[("sin", "h")], out[("sin", "g")], out[("sin", "a")], out[("attr", "_b")],
                   out[("attr", "_f0")], pad, out[("cache", "A")], out[("cache", "b")]))


def _caching():
    tree = _tree("single_pass_goal_programming_mixin.py")
    outer_init = _find_method(tree, "CachingQPSol", "__init__")
    body = [st for st in outer_init.body if not (isinstance(st, ast.Expr) and isinstance(st.value, ast.Constant))]
    if [ast.dump(st) for st in body] != [_ds("self._tlcache = {}")]:
        raise TranslationError("CachingQPSol.__init__ is not `self._tlcache = {}`")
    outer_call = _find_method(tree, "CachingQPSol", "__call__")
    if [a.arg for a in outer_call.args.args] != ["self", "name", "solver_name", "nlp", "options"]:
        raise TranslationError("CachingQPSol.__call__: unexpected signature")
    ob = [st for st in outer_call.body if not (isinstance(st, ast.Expr) and isinstance(st.value, ast.Constant))]
    if not (len(ob) == 2 and isinstance(ob[0], ast.ClassDef) and ob[0].name == "Solver"
            and isinstance(ob[1], ast.Return) and ob[1].value is not None
            and ast.dump(ob[1].value) == _d("Solver()")):
        raise TranslationError("CachingQPSol.__call__ is not `class Solver: ..; return Solver()`")
    scls = ob[0]
    meths = {m.name: m for m in scls.body if isinstance(m, ast.FunctionDef)}
    if set(meths) != {"__init__", "__call__", "stats"}:
        raise TranslationError("CachingQPSol.Solver: unexpected methods %s" % sorted(meths))
    init = meths["__init__"]
    names = [a.arg for a in init.args.args]
    defaults = dict(zip(names[len(names) - len(init.args.defaults):], init.args.defaults))
    if names != ["self", "nlp", "solver_name", "options", "cache"] \
            or ast.dump(defaults.get("cache", ast.Constant(value=None))) != _d("self._tlcache") \
            or any(ast.dump(defaults.get(k, ast.Constant(value=None))) != _d(k) for k in ("nlp", "solver_name", "options")):
        raise TranslationError("CachingQPSol.Solver.__init__: unexpected signature / defaults")
    C = _Caching()
    construct = C.block(init.body, {}, None, C.tail, 1)
    # --- __call__
    call = meths["__call__"]
    cargs = [a.arg for a in call.args.args]
    if cargs != ["self", "x0", "lbx", "ubx", "lbg", "ubg"] or call.args.defaults:
        raise TranslationError("CachingQPSol.Solver.__call__: unexpected signature")
    aty = {"x0": "vec", "lbx": "bvec", "ubx": "bvec", "lbg": "bvec", "ubg": "bvec"}
    kty = {"x0": "vec", "lbx": "bvec", "ubx": "bvec", "lba": "bvec", "uba": "bvec"}
    sets, guards = [], []
    report = None
    state = 0  # 0: filling the dict, 1: back-end called, 2: f stored, 3: returned
    for st in call.body:
        if isinstance(st, ast.Expr) and isinstance(st.value, ast.Constant):
            continue
        if state == 0 and isinstance(st, ast.Assign) and len(st.targets) == 1 and isinstance(st.targets[0], ast.Subscript) \
                and ast.dump(st.targets[0].value) == _d("self._solver_in") \
                and isinstance(st.targets[0].slice, ast.Constant) and st.targets[0].slice.value in kty:
            key = st.targets[0].slice.value
            if any(k == key for k, _ in sets):
                raise TranslationError("CachingQPSol.Solver.__call__: %r set twice" % key)
            v = st.value
            if isinstance(v, ast.Name) and v.id in aty:
                term, ty = "i.%s" % v.id, aty[v.id]
            elif isinstance(v, ast.BinOp) and isinstance(v.op, ast.Sub) and isinstance(v.left, ast.Name) \
                    and v.left.id in aty and aty[v.left.id] == "bvec" and ast.dump(v.right) == _d("self._b"):
                term, ty = "(C17.subVec i.%s s.b)" % v.left.id, "bvec"
                guards.append("i.%s.length == s.b.length" % v.left.id)
            else:
                raise TranslationError("CachingQPSol.Solver.__call__: unsupported value for %r: %s"
                                       % (key, ast.dump(v)[:100]))
            if ty != kty[key]:
                raise TranslationError("CachingQPSol.Solver.__call__: %r gets a value of the wrong kind" % key)
            sets.append((key, term))
            continue
        if state == 0 and ast.dump(st) == _ds("solver_out = self._solver(**self._solver_in)"):
            state = 1
            continue
        if state == 1 and isinstance(st, ast.Assign) and len(st.targets) == 1 \
                and ast.dump(st.targets[0]) == ast.dump(ast.parse('solver_out["f"] = 0').body[0].targets[0]):
            def leaf(node):
                if ast.dump(node) == _d('solver_out["cost"]'):
                    return "cost"
                if ast.dump(node) == _d("self._f0"):
                    return "s.f0"
                return None
            report = _Arith(leaf).expr(st.value)
            state = 2
            continue
        if state == 2 and ast.dump(st) == _ds("return solver_out"):
            state = 3
            continue
        raise TranslationError("CachingQPSol.Solver.__call__: unsupported statement " + ast.dump(st)[:140])
    if state != 3 or report is None:
        raise TranslationError("CachingQPSol.Solver.__call__: back-end call / objective / return not found")
    if sorted(k for k, _ in sets) != sorted(kty):
        raise TranslationError("CachingQPSol.Solver.__call__ does not set exactly x0, lbx, ubx, lba, uba")
    guard = " && ".join(sorted(set(guards))) or "true"
    updates = "\n".join("    let d := { d with %s := some %s }" % kv for kv in sets)
    text = """import RtcVerif.Model.C17Caching
/-! GENERATED by harness/translate_c17.py from single_pass_goal_programming_mixin.py, class `CachingQPSol`
(`__init__`, the inner `Solver.__init__` and `Solver.__call__`).  Do not edit. -/
set_option linter.unusedTactic false
set_option linter.unreachableTactic false
namespace RtcVerif.Gen
open RtcVerif

/-- `CachingQPSol.__init__`: `self._tlcache = {}` -/
def cachingInitGen : Option C17.Cache := none

theorem cachingInitGen_eq_model : cachingInitGen = (none : Option C17.Cache) := rfl

/-- `Solver.__init__` -/
def cachingConstructGen (cache : Option C17.Cache) (p : C17.NLP) : Except String (C17.SolverObj × C17.Cache) :=
%s
theorem cachingConstructGen_eq_model (cache : Option C17.Cache) (p : C17.NLP) :
    cachingConstructGen cache p = C17.construct cache p := by
  first
    | rfl
    | (cases cache <;> first | rfl | (unfold cachingConstructGen C17.construct; simp only []; split <;> rfl))

/-- `Solver.__call__` up to `self._solver(**self._solver_in)` -/
def cachingCallGen (s : C17.SolverObj) (d : C17.SolverIn) (i : C17.CallIn) : Except String C17.SolverIn :=
  if !(%s) then .error "Dimension mismatch"
  else
%s
    .ok d

theorem cachingCallGen_eq_model (s : C17.SolverObj) (d : C17.SolverIn) (i : C17.CallIn) :
    cachingCallGen s d i = C17.call s d i := by
  first | rfl | (unfold cachingCallGen C17.call; split <;> rfl)

/-- `solver_out["f"]` -/
def cachingReportGen (s : C17.SolverObj) (cost : Rat) : Rat := %s

theorem cachingReportGen_eq_model (s : C17.SolverObj) (cost : Rat) : cachingReportGen s cost = C17.report s cost := by
  first | rfl | (unfold cachingReportGen C17.report; ring)

end RtcVerif.Gen
""" % (construct, guard, updates, report)
    if "ring" in text and "Mathlib.Tactic.Ring" not in text:
        text = text.replace("import RtcVerif.Model.C17Caching\n",
                            "import RtcVerif.Model.C17Caching\nimport Mathlib.Algebra.Order.Field.Rat\nimport Mathlib.Tactic.Ring\n", 1)
    _write("C17Caching", text)
    return ("RtcVerif.Gen.C17Caching", "RtcVerif.Gen",
            ["cachingInitGen_eq_model", "cachingConstructGen_eq_model", "cachingCallGen_eq_model",
             "cachingReportGen_eq_model"])


def gen_caching(c):
    """(re)generate lean/RtcVerif/Gen/C17Caching.lean; returns the extra obligation spec for c.prove ([] + a broken
    entry if the source is outside the table)"""
    try:
        return [_caching()]
    except (TranslationError, OSError, SyntaxError, AttributeError, IndexError, KeyError) as e:
        c.broken.append(("translator: CachingQPSol", "%s: %s" % (type(e).__name__, e)))
        return []


# ---------------------------------------------------------------------------------------------
# reading point of the options of the retained objective row


def _loop_with(fn, needle):
    loops = [n for n in fn.body if isinstance(n, ast.For) and needle in ast.dump(n)]
    if len(loops) != 1:
        raise TranslationError("%s: loop over the priorities not found" % fn.name)
    return loops[0]


def _index(body, pred, what):
    idx = [i for i, st in enumerate(body) if pred(st)]
    if len(idx) != 1:
        raise TranslationError("reading point: expected exactly one top-level statement `%s` in the priority loop, "
                               "found %d" % (what, len(idx)))
    return idx[0]


def _uses_opts(fn, name):
    """both options are subscripted from the local `name`"""
    keys = {n.slice.value for n in ast.walk(fn) if isinstance(n, ast.Subscript) and isinstance(n.value, ast.Name)
            and n.value.id == name and isinstance(n.slice, ast.Constant)}
    return {"fix_minimized_values", "constraint_relaxation"} <= keys


def _optread():
    # --- single pass
    tree = _tree("single_pass_goal_programming_mixin.py")
    opt = _find_method(tree, "SinglePassGoalProgrammingMixin", "optimize")
    loop = _loop_with(opt, "priority_started")
    body = loop.body
    i_start = _index(body, lambda st: ast.dump(st) == _ds("self.priority_started(priority)"), "self.priority_started(priority)")
    i_solve = _index(body, lambda st: isinstance(st, ast.Assign) and "super" in ast.dump(st.value)
                     and isinstance(st.value, ast.Call) and isinstance(st.value.func, ast.Attribute)
                     and st.value.func.attr == "optimize", "success = super().optimize(..)")
    i_done = _index(body, lambda st: ast.dump(st) == _ds("self.priority_completed(priority)"),
                    "self.priority_completed(priority)")
    tr = _find_method(tree, "SinglePassGoalProgrammingMixin", "transcribe")
    ifs = [n for n in ast.walk(tr) if isinstance(n, ast.If) and ast.dump(n.test) == _d("self.__current_priority > 0")
           and any(isinstance(x, ast.Subscript) and isinstance(x.slice, ast.Constant)
                   and x.slice.value == "constraint_relaxation" for x in ast.walk(n))]
    if len(ifs) != 1:
        raise TranslationError("transcribe: block adding the objective constraint of the previous priority not found")
    src = [st for st in ifs[0].body if isinstance(st, ast.Assign) and len(st.targets) == 1
           and isinstance(st.targets[0], ast.Name) and st.targets[0].id == "options"]
    if len(src) != 1 or not _uses_opts(ifs[0], "options"):
        raise TranslationError("transcribe: the options of the objective constraint are not read from one local `options`")
    if any(isinstance(n, ast.Call) and isinstance(n.func, ast.Attribute) and n.func.attr == "goal_programming_options"
           for st in ifs[0].body for n in ast.walk(st)) and ast.dump(src[0].value) != _d("self.goal_programming_options()"):
        raise TranslationError("transcribe: goal_programming_options() used besides the local `options`")
    snaps = [i for i, st in enumerate(body) if isinstance(st, ast.Assign) and len(st.targets) == 1
             and ast.dump(st.targets[0]) == ast.dump(ast.parse("self.__objective_constraint_options = 0").body[0].targets[0])]
    if ast.dump(src[0].value) == _d("self.goal_programming_options()"):
        sp = ".nextPriority"  # transcribe of priority k runs after priority_started(k), for the row of k-1
    elif ast.dump(src[0].value) == _d("self.__objective_constraint_options"):
        if len(snaps) != 1:
            raise TranslationError("optimize: expected one top-level store of self.__objective_constraint_options in "
                                   "the priority loop, found %d" % len(snaps))
        i_snap = snaps[0]
        want = _ds('self.__objective_constraint_options = {k: v for k, v in options.items() '
                   'if k in {"fix_minimized_values", "constraint_relaxation"}}')
        alt = _ds('self.__objective_constraint_options = {k: v for k, v in options.items() '
                  'if k in {"constraint_relaxation", "fix_minimized_values"}}')
        if ast.dump(body[i_snap]) not in (want, alt):
            raise TranslationError("optimize: unsupported form of the options snapshot")
        reads = [i for i, st in enumerate(body) if ast.dump(st) == _ds("options = self.goal_programming_options()")]
        reads = [i for i in reads if i < i_snap]
        if not reads:
            raise TranslationError("optimize: `options = self.goal_programming_options()` before the snapshot not found")
        i_read = reads[-1]
        if any(isinstance(st, ast.Assign) and any(isinstance(t, ast.Name) and t.id == "options" for t in st.targets)
               for st in body[i_read + 1:i_snap]):
            raise TranslationError("optimize: `options` re-assigned between the read and the snapshot")
        # the read happens while the row's own priority is active: after its priority_started and its solve,
        # in the same iteration (hence before the next priority_started)
        if i_start < i_solve < i_read < i_snap:
            sp = ".ownPriority"
        elif i_read < i_start:
            raise TranslationError("optimize: options snapshot taken before priority_started (previous priority's "
                                   "options): outside the table")
        else:
            raise TranslationError("optimize: options snapshot not between the solve and the end of the loop body")
        _ = i_done
    else:
        raise TranslationError("transcribe: unsupported source of the objective-constraint options: "
                               + ast.dump(src[0].value)[:100])
    # --- keep-soft multi-pass
    gtree = _tree("goal_programming_mixin.py")
    gopt = _find_method(gtree, "GoalProgrammingMixin", "optimize")
    gloop = _loop_with(gopt, "priority_started")
    gbody = gloop.body
    g_start = _index(gbody, lambda st: ast.dump(st) == _ds("self.priority_started(priority)"),
                     "self.priority_started(priority)")
    g_add = [i for i, st in enumerate(gbody) if "__add_subproblem_objective_constraint" in ast.dump(st)]
    if len(g_add) != 1:
        raise TranslationError("GoalProgrammingMixin.optimize: call of __add_subproblem_objective_constraint not found "
                               "once at the top level of the priority loop")
    calls = [n for n in ast.walk(gbody[g_add[0]]) if isinstance(n, ast.Call) and isinstance(n.func, ast.Attribute)
             and n.func.attr.endswith("__add_subproblem_objective_constraint")]
    if len(calls) != 1 or calls[0].args or calls[0].keywords:
        raise TranslationError("GoalProgrammingMixin.optimize: unexpected call of __add_subproblem_objective_constraint")
    add = _find_method(gtree, "GoalProgrammingMixin", "__add_subproblem_objective_constraint")
    asg = [st for st in add.body if isinstance(st, ast.Assign) and len(st.targets) == 1
           and isinstance(st.targets[0], ast.Name) and st.targets[0].id == "options"]
    if len(asg) != 1 or ast.dump(asg[0].value) != _d("self.goal_programming_options()") or not _uses_opts(add, "options"):
        raise TranslationError("__add_subproblem_objective_constraint does not read its two options from "
                               "`options = self.goal_programming_options()`")
    if not g_start < g_add[0]:
        raise TranslationError("GoalProgrammingMixin.optimize: objective constraint added before priority_started")
    ks = ".ownPriority"
    text = """import RtcVerif.Model.C17Code
/-! GENERATED by harness/translate_c17.py from `SinglePassGoalProgrammingMixin.optimize` / `transcribe` and
`GoalProgrammingMixin.optimize` / `__add_subproblem_objective_constraint`: the point at which the options of the
retained objective row of a priority are read.  Do not edit. -/
namespace RtcVerif.Gen
open RtcVerif

def singlePassOptReadGen : C17.OptRead := %s
def keepSoftOptReadGen : C17.OptRead := %s

theorem singlePassOptReadGen_eq_model : singlePassOptReadGen = C17.singlePassOptRead := by decide
theorem keepSoftOptReadGen_eq_model : keepSoftOptReadGen = C17.keepSoftOptRead := by decide

end RtcVerif.Gen
""" % (sp, ks)
    _write("C17OptRead", text)
    return ("RtcVerif.Gen.C17OptRead", "RtcVerif.Gen", ["singlePassOptReadGen_eq_model", "keepSoftOptReadGen_eq_model"])


def gen_optread(c):
    """(re)generate lean/RtcVerif/Gen/C17OptRead.lean; returns the extra obligation spec for c.prove"""
    try:
        return [_optread()]
    except (TranslationError, OSError, SyntaxError, AttributeError, IndexError, KeyError) as e:
        c.broken.append(("translator: objective-row option reading point", "%s: %s" % (type(e).__name__, e)))
        return []


PIECES = [("_ConvertedMinAbsGoal / __convert_goals", _minabs),
          ("LinearizedOrderGoal._get_linear_coefficients / _gp_goal_constraints", _linorder),
          ("objective-row bounds (transcribe / __add_subproblem_objective_constraint)", _objbnd),
          ("optimize() resets", _reset)]


def gen_c17(c):
    """(re)generate lean/RtcVerif/Gen/C17*.lean; returns the extra obligation spec for c.prove"""
    out = []
    for name, fn in PIECES:
        try:
            out.append(fn())
        except (TranslationError, OSError, SyntaxError, AttributeError, IndexError) as e:
            c.broken.append(("translator: " + name, "%s: %s" % (type(e).__name__, e)))
    return out
